"""tensor rank (0 scalar, 1 vector, 2 matrix) of a generic sympde expression, and the detector of the
shape that explains the open finding "vector-valued node flagged commutative used as a scalar factor"."""
import sympy


def _cc():
    from sympde.calculus import core as cc
    return cc


def rank(e, dim):
    from sympde.topology.space import VectorFunction
    cc = _cc()
    if isinstance(e, VectorFunction):
        return 1
    if isinstance(e, sympy.Add):
        return rank(e.args[0], dim)
    if isinstance(e, sympy.Mul):
        return max(rank(a, dim) for a in e.args)
    if isinstance(e, sympy.MatrixBase):
        return 1 if e.shape[1] == 1 else 2
    if isinstance(e, cc.Grad):
        return rank(e.args[0], dim) + 1
    if isinstance(e, cc.Div):
        return max(rank(e.args[0], dim) - 1, 0)
    if isinstance(e, cc.Curl):
        return 1 if dim == 3 else 0
    if isinstance(e, cc.Rot):
        return 1
    if isinstance(e, cc.Laplace):
        return rank(e.args[0], dim)
    if isinstance(e, cc.Hessian):
        return 2
    if isinstance(e, cc.Dot):
        return 1 if 2 in (rank(e.args[0], dim), rank(e.args[1], dim)) else 0
    if isinstance(e, cc.Cross):
        return 1 if dim == 3 else 0
    if isinstance(e, cc.Outer):
        return 2
    if isinstance(e, cc.Convect):
        return rank(e.args[1], dim)
    return 0


def vector_valued_commutative_factor(e, dim):
    """a product one of whose factors is a node of rank > 0 that sympde flags commutative (Dot(matrix, vector),
    Laplace(vector), Div(matrix)): the product rules then treat a vector as a scalar"""
    cc = _cc()
    if isinstance(e, sympy.Mul):
        for a in e.args:
            if isinstance(a, (cc.Dot, cc.Laplace, cc.Div)) and rank(a, dim) > 0:
                return True
    return any(vector_valued_commutative_factor(a, dim) for a in getattr(e, 'args', ()))


def has_grad_of_scalar(e, dim):
    cc = _cc()
    if isinstance(e, cc.Grad) and rank(e.args[0], dim) == 0:
        return True
    return any(has_grad_of_scalar(a, dim) for a in getattr(e, 'args', ()))
