"""Mapped domains for C03 / C04: a logical patch, a mapping (symbolic, user-defined polynomial,
catalogue), function spaces of every kind, a concrete instantiation of the mapping (oracle side) and
a numeric evaluator of S-expressions (correspondence side)."""
import itertools

import sympy
from sympy import Matrix, Rational, S, Symbol

from harness.exprser import Ser
from harness.inst import Inst, LOGI, PHYS
from harness.sexp import A

_counter = itertools.count()

SCALAR_KINDS = ('h1', 'l2', 'undefined')
VECTOR_KINDS = ('h1', 'hcurl', 'hdiv', 'l2', 'undefined')

# mapping types by dimension; the ones marked oracle-only contain pi / float parameters whose
# transcendental constants are outside the model's exchange format
MTYPES = {
    1: ['sym', 'poly', 'polyneg', 'affine', 'identity'],
    2: ['sym', 'sym', 'poly', 'poly', 'polyneg', 'polyc', 'affine', 'affinef', 'identity', 'polar', 'target', 'czarny', 'collela'],
    3: ['sym', 'poly', 'polyneg', 'affine', 'affinef', 'identity', 'torus', 'spherical', 'twisted'],
}
ORACLE_ONLY = ('collela', 'czarnyf')


def _r(rng, lo=1, hi=4, den=(2, 3, 5)):
    return Rational(rng.randint(lo, hi), rng.choice(den))


def poly_expressions(rng, dim, neg=False, symbolic_params=False):
    """a polynomial diffeomorphism of a neighbourhood of the unit cube (triangular perturbation of
    the identity, hence injective with det = ±1 + small terms), optionally orientation reversing"""
    a, b, c, d2 = (_r(rng, 1, 3, (7, 9, 11)) for _ in range(4))
    if symbolic_params:
        a, b = Symbol('pa'), Symbol('pb')
    s = -1 if neg else 1
    if dim == 1:
        return {'x': str(s * Symbol('x1') + a * Symbol('x1') ** 2 * s + b)}
    if dim == 2:
        return {'x': str(s * Symbol('x1') + a * Symbol('x2') ** 2 + b * Symbol('x2')),
                'y': str(Symbol('x2') + c * Symbol('x1') ** 2 * Symbol('x2') + d2 * Symbol('x2') ** 2)}
    return {'x': str(s * Symbol('x1') + a * Symbol('x2') ** 2 + b * Symbol('x3')),
            'y': str(Symbol('x2') + c * Symbol('x3') * Symbol('x2') + d2 * Symbol('x3')),
            'z': str(Symbol('x3') + a * Symbol('x3') ** 2)}


class MEnv:
    """one mapped patch with fields of every kind; all names are unique to the instance
    (sympde compares domains, spaces and functions by name: history effects are C12's business)"""

    def __init__(self, rng, dim, mtype, tag='', kinds=None, bounds=None):
        from sympde.topology import (Mapping, Line, Square, Cube, ScalarFunctionSpace, VectorFunctionSpace,
                                     element_of)
        from sympde.topology import analytical_mapping as am
        from sympde.core import Constant
        self.rng, self.dim, self.mtype = rng, dim, mtype
        n = next(_counter)
        sfx = '%s%d%s%d' % (tag, dim, mtype, n)
        self.sfx = sfx
        name = 'M' + sfx
        params = {}
        if mtype == 'sym':
            M = Mapping(name, dim=dim)
        elif mtype in ('poly', 'polyneg', 'polyc'):
            ex = poly_expressions(rng, dim, neg=(mtype == 'polyneg'), symbolic_params=(mtype == 'polyc'))
            cls = type('UserMap' + sfx, (Mapping,), {'_expressions': ex, '_ldim': dim, '_pdim': dim})
            M = cls(name)
        elif mtype == 'identity':
            M = am.IdentityMapping(name, dim=dim)
        elif mtype == 'affine':
            names = ['c1', 'c2', 'c3', 'a11', 'a12', 'a13', 'a21', 'a22', 'a23', 'a31', 'a32', 'a33']
            while True:
                params = {k: rng.choice([-2, -1, 1, 2, 3]) for k in names}
                A3 = Matrix(3, 3, [params['a%d%d' % (i, j)] for i in (1, 2, 3) for j in (1, 2, 3)])
                if A3[:dim, :dim].det() != 0:
                    break
            if rng.random() < 0.4:      # keep some parameters symbolic (Constants)
                for k in ('c1', 'c2', 'c3'):
                    params.pop(k)
            M = am.AffineMapping(name, dim=dim, **params)
        elif mtype == 'polar':
            params = dict(c1=rng.choice([0, 1]), c2=rng.choice([0, -1]), rmin=Rational(1, 2), rmax=rng.choice([1, 2]))
            if rng.random() < 0.4:
                params.pop('rmax')
            M = am.PolarMapping(name, **params)
        elif mtype == 'target':
            params = dict(c1=0, c2=0, k=Rational(3, 10), D=Rational(1, 5))
            M = am.TargetMapping(name, **params)
        elif mtype == 'czarny':
            params = dict(c2=0, eps=Rational(1, 10), b=Rational(7, 5))
            M = am.CzarnyMapping(name, **params)
        elif mtype == 'affinef':
            # floating-point coefficients with a zero in the second row of the Jacobian (the float
            # determinant is lowered by a cofactor expansion: seeded change C03-6 chose the sparsest row
            # with the wrong sign)
            params = dict(c1=0.5, c2=-1.0, c3=0.25, a11=1.5, a12=0.5, a13=0.0, a21=0.0, a22=2.0, a23=0.0,
                          a31=0.5, a32=0.0, a33=1.25)
            M = am.AffineMapping(name, dim=dim, **params)
        elif mtype == 'czarnyf':
            # floating-point parameters (the determinant of a float matrix is numerically delicate)
            params = dict(c2=0.0625, b=2.0, eps=0.46875)
            M = am.CzarnyMapping(name, **params)
        elif mtype == 'collela':
            params = dict(eps=Rational(1, 10), k1=1, k2=1)
            M = am.CollelaMapping2D(name, **params)
        elif mtype == 'torus':
            params = dict(R0=rng.choice([3, 4]))
            M = am.TorusMapping(name, **params)
        elif mtype == 'spherical':
            M = am.SphericalMapping(name)
        elif mtype == 'twisted':
            params = dict(c1=0, c2=0, c3=0, k=Rational(3, 10), D=Rational(1, 5))
            M = am.TwistedTargetMapping(name, **params)
        else:
            raise ValueError(mtype)
        self.mapping = M
        self.params = params
        patch = {1: Line, 2: Square, 3: Cube}[dim]
        kw = {}
        if bounds is not None:
            kw = dict(bounds=bounds) if dim == 1 else {'bounds%d' % (i + 1): b for i, b in enumerate(bounds)}
        self.logical_domain = patch('Om' + sfx, **kw)
        self.domain = M(self.logical_domain)
        self.coords = list(PHYS[:dim])
        self.lcoords = list(LOGI[:dim])
        self.sf, self.vf = {}, {}
        for k in (kinds or SCALAR_KINDS):
            if k in SCALAR_KINDS:
                V = ScalarFunctionSpace('V%s%s' % (k, sfx), self.domain, kind=None if k == 'undefined' else k)
                self.sf[k] = [element_of(V, name='%s%s%s' % (nm, k[0:2], sfx)) for nm in ('u', 'v')]
        for k in (kinds or VECTOR_KINDS):
            if k in VECTOR_KINDS:
                W = VectorFunctionSpace('W%s%s' % (k, sfx), self.domain, kind=None if k == 'undefined' else k)
                self.vf[k] = [element_of(W, name='%s%s%s' % (nm, k[0:2], sfx)) for nm in ('F', 'G')]
        self.cst = [Constant('c' + sfx), Constant('k' + sfx)]
        from sympde.topology import derivatives as dv
        self.ops = [dv.dx, dv.dy, dv.dz][:dim]
        self.lops = [dv.dx1, dv.dx2, dv.dx3][:dim]

    # ------------------------------------------------------------------ model exchange
    def model_ok(self):
        return self.mtype not in ORACLE_ONLY

    def components_sexp(self, ser):
        M = self.mapping
        if not M.is_analytical:
            return [[A('idx'), [A('vf'), M.name, A('undefined')], i] for i in range(self.dim)]
        return [ser.ser(e) for e in M.expressions]

    # ------------------------------------------------------------------ concrete instantiation
    def concrete(self, rng):
        """(F, cst): explicit components of the mapping in the logical coordinates with every
        parameter a number, and the values given to the mapping's Constant parameters"""
        from sympde.core import Constant
        M = self.mapping
        cst = {}
        if M.is_analytical:
            F = []
            for e in M.expressions:
                for c in e.atoms(Constant):
                    if c.name not in cst:
                        default = {'rmin': Rational(1, 2), 'rmax': S(2), 'R0': S(3), 'eps': Rational(1, 10), 'b': Rational(7, 5),
                                   'k': Rational(3, 10), 'D': Rational(1, 5), 'pa': Rational(1, 7), 'pb': Rational(2, 9)}
                        cst[c.name] = default.get(c.name, Rational(rng.choice([1, 2, 3]), rng.choice([2, 3])))
                F.append(e.subs({c: cst[c.name] for c in e.atoms(Constant)}))
        else:
            ex = poly_expressions(rng, self.dim, neg=rng.random() < 0.3)
            F = [sympy.sympify(ex[n]).subs({Symbol('x%d' % (i + 1)): LOGI[i] for i in range(3)}) for n in ('x', 'y', 'z')[:self.dim]]
        F = [sympy.sympify(f).subs({Symbol('x%d' % (i + 1)): LOGI[i] for i in range(3)}) for f in F]
        if any(f.atoms(sympy.Float) for f in F) and self.mtype != 'collela':
            # exact ground truth: the float parameters are dyadic rationals
            F = [sympy.nsimplify(f, rational=True) for f in F]
        return F, cst


class MSer(Ser):
    """serialiser that knows mapping components `M[i]` (written as components of a vector function
    named after the mapping) and the transcendental number pi"""

    def ser(self, e):
        from sympy import Indexed
        from sympde.topology.basic import BasicDomain  # noqa: F401
        from sympde.topology.mapping import BasicMapping
        if isinstance(e, Indexed) and isinstance(e.base, BasicMapping):
            return [A('idx'), [A('vf'), e.base.name, A('undefined')], int(e.indices[0])]
        return super().ser(e)


class NumEval:
    """numeric value (mpmath, 50 digits) of an S-expression of the shared AST: every atom
    (function, component, derivative chain over an atom — the chain is sorted, partial derivatives
    commute — constant, symbol) gets a pseudo-random value that depends only on the atom and the
    valuation number, so two expressions that are equal as rational functions of the atoms (with
    genuine sin/cos/exp/log) evaluate to the same number"""

    def __init__(self, salt):
        import mpmath
        self.mp = mpmath.mp.clone()
        self.mp.dps = 50
        self.salt = salt
        self.vals = {}

    def atom(self, key):
        if key not in self.vals:
            import hashlib
            h = hashlib.sha256(('%s|%r' % (self.salt, key)).encode()).digest()
            n = int.from_bytes(h[:8], 'big')
            self.vals[key] = self.mp.mpf(3) / 5 + self.mp.mpf(n % 1000003) / 1000003      # in (0.6, 1.6)
        return self.vals[key]

    def ev(self, s):
        mp = self.mp
        h = str(s[0])
        if h == 'num':
            return mp.mpf(int(s[1])) / int(s[2])
        if h in ('cst', 'sym'):
            return self.atom((h, s[1]))
        if h == 'sf':
            return self.atom(('sf', s[1], ()))
        if h == 'idx':
            b = s[1]
            if str(b[0]) != 'vf':
                raise ValueError('idx of non vf')
            return self.atom(('vf', b[1], int(s[2]), ()))
        if h == 'pd':
            chain, a = [], s
            while str(a[0]) == 'pd':
                chain.append(str(a[1]))
                a = a[2]
            chain = tuple(sorted(chain))
            if str(a[0]) == 'sf':
                return self.atom(('sf', a[1], chain))
            if str(a[0]) == 'idx' and str(a[1][0]) == 'vf':
                return self.atom(('vf', a[1][1], int(a[2]), chain))
            raise ValueError('derivative of a non-atom in an evaluated result: %s' % (a[0],))
        if h == 'add':
            return mp.fsum(self.ev(a) for a in s[1:])
        if h == 'mul':
            r = mp.mpf(1)
            for a in s[1:]:
                r = r * self.ev(a)
            return r
        if h == 'pow':
            return mp.power(self.ev(s[1]), self.ev(s[2]))
        if h == 'fn':
            f = {'sin': mp.sin, 'cos': mp.cos, 'exp': mp.exp, 'log': mp.log, 'tan': mp.tan, 'sinh': mp.sinh,
                 'cosh': mp.cosh, 'sqrt': mp.sqrt, 'Abs': abs}[s[1]]
            return f(self.ev(s[2]))
        raise ValueError('cannot evaluate %s' % h)


def num_equal(sa, sb, salts=(1, 2, 3), tol='1e-30'):
    """True / False / None(undecided: evaluation failed) for two S-expressions"""
    import mpmath
    ok = 0
    for k in salts:
        ne = NumEval(k)
        try:
            va, vb = ne.ev(sa), ne.ev(sb)
        except (ValueError, ZeroDivisionError, KeyError, OverflowError):
            continue
        if not (mpmath.isfinite(va) and mpmath.isfinite(vb)):
            continue
        if abs(va - vb) > ne.mp.mpf(tol) * (abs(va) + abs(vb) + 1):
            return False
        ok += 1
    return True if ok else None


class MapInst(Inst):
    """instantiation on the logical side: fields are explicit expressions of the logical
    coordinates, mapping components `M[i]` are the concrete components"""

    def __init__(self, rng, dim, F, cst):
        super().__init__(rng, dim, LOGI[:dim])
        self.F = list(F)
        self.cst = cst

    def inst(self, e):
        from sympy import Indexed
        from sympde.topology.mapping import BasicMapping
        if isinstance(e, Indexed) and isinstance(e.base, BasicMapping):
            return self.F[int(e.indices[0])]
        if isinstance(e, sympy.NumberSymbol):      # pi in the Collela mapping
            return e
        return super().inst(e)


def pulled_back_fields(env, pins, F):
    """the pull-backs named in property C03 of the physical fields instantiated in `pins`:
    H1/undefined u∘F;  H(curl) Jᵀ(u∘F);  H(div) det(J) J⁻¹ (u∘F);  L2 det(J) (u∘F)"""
    dim = env.dim
    sub = {PHYS[i]: F[i] for i in range(dim)}
    J = Matrix(dim, dim, lambda i, j: sympy.diff(F[i], LOGI[j]))
    det = J.det()
    sfs, vfs = {}, {}
    for k, fs in env.sf.items():
        for f in fs:
            v = sympy.sympify(pins.of_sf(f.name)).subs(sub, simultaneous=True)
            sfs[f.name] = det * v if k == 'l2' else v
    for k, fs in env.vf.items():
        for f in fs:
            v = Matrix([sympy.sympify(t).subs(sub, simultaneous=True) for t in pins.of_vf(f.name)])
            if k == 'hcurl':
                v = J.T * v
            elif k == 'hdiv':
                v = det * (J.inv() * v)
            elif k == 'l2':
                v = det * v
            vfs[f.name] = [sympy.together(t) for t in v]
    return sfs, vfs, J, det
