"""C16 — analytical mappings are coherent, symbolically and numerically.

GEN (T1): harness/translate/mappings.py regenerates the stored symbolic quantities of every catalogue
mapping x admissible dimension (symbolic parameters) and one Lean theorem block per mapping.

correspondence: (a) the shape model of `lambdify_sympde` (Model/Broadcast.lean, through the driver) against
the shapes really returned by callable mappings / lambdified expressions, refusals included; (b) the model of
`sympy.diff` (`PD.sdiff`, the function the generated `jac_is_derivative_*` theorems are about) against the
Jacobian the real `Mapping.__new__` stores, for catalogue mappings with numeric parameters and for user
subclasses defined the same way.

oracle: the property itself on the real code, independently of the Lean model: sympy differentiation and
50-digit evaluation at random rational points."""
import itertools

from harness.common import Corr, Oracle, Timeout, time_limit
from harness.exprser import ring_equal
from harness.sexp import dumps, loads_all
from harness.translate import mappings as T

PID = 'C16'
PROPS_MODULE = 'SympdeModel.Props.C16'
GEN = [T.generate]
EXTRA_THEOREM_MODULES = T.MODULES          # filled by T.generate() before it is read
TOL = 1e-10
RULE = ('every class of sympde/topology/analytical_mapping.py x admissible dimension (dim=1..3, and for the classes without a '
        'fixed dimension also ldim < pdim: curves (1,2), (1,3) and surfaces (2,3)) x parameter sets (integers, rationals, '
        'python/numpy floats, sympy Float / Decimal / mpf objects, mixtures; quick 1-2, thorough 5 per class) in ranges where the '
        'mapping is regular, and user subclasses of Mapping defined the same way (random polynomial / trigonometric '
        'perturbations of the identity in 1D-3D, or of the embedding of a curve / surface: _ldim < _pdim, half of them written with '
        'logical coordinates beyond ldim, which count as zero; AffineMapping with ldim < pdim also with the whole pdim x pdim '
        'coefficient matrix); a fixed corpus; call history: every callable quantity is evaluated at 2-3 scalar points and on two '
        'point sets of every array shape, all results are kept and compared afterwards; '
        'evaluation points = random dyadic rationals (exact in floating point), special angles, and points where a leading '
        'principal minor (pivot) of the Jacobian vanishes although the mapping is regular; argument shapes (), (n,), (n,1)/(1,m), '
        '(a,1,1)/(1,b,1)/(1,1,c), mixed scalar/array, incompatible ones; a correspondence case is one shape request or one '
        'sdiff request; non-trivial = array-valued or broadcasting request / expression with a product, power or function')
ASSUMPTIONS = [
    'with Float parameters (and for CollelaMapping2D, whose expressions contain floats) sympy rounds while building the stored '
    'quantities, so their coherence is checked to 1e-12 relative; otherwise exactly (50 digits, 1e-38)',
    'floating-point accuracy is observed, not proved: callable values are compared with the 50-digit evaluation of the '
    'stored symbolic quantities (Floats read as exact binary rationals) with tolerance |got - exact| <= 1e-10 * (|exact| + '
    'largest |entry| of the quantity), at points where 1e-3 <= |det J| <= 1e4',
    'generated theorems: jac_is_derivative_* assume FnTable S (sin\' = cos, cos\' = -sin, ...); inv_is_inverse_* assume '
    'NonDeg S M_Jinv (every denominator of the stored inverse is invertible); metric_is_gram_* and metric_det_is_det_* '
    'have no hypothesis; no trigonometric identity is used anywhere',
    'the generated theorems cover the 15 dim=... instances of the catalogue; the ldim < pdim variants of AffineMapping / '
    'IdentityMapping (curves, surfaces) and user subclasses are covered by the correspondence (sdiff) and the oracle only',
    'CzarnyMapping (square roots): jac_is_derivative / metric_is_gram additionally assume NonDeg of X, J, G, of the formal '
    'derivatives, and the square-root facts Czarny_2_Rad; metric_det_is_det_Czarny_2 and inv_is_inverse_Czarny_2 are '
    'stated in comments only (grind does not close them within minutes) and are covered by the oracle only',
    'smooth functions with their partial derivatives form a differential ring (classical); FnTable is met by them where '
    'the elementary functions are defined',
]
MIN_NONTRIVIAL = 10


# --------------------------------------------------------------------------- parameter sets and points

def rat(rng, lo, hi, den=16):
    from sympy import Rational
    a, b = int(lo * den), int(hi * den)
    return Rational(rng.randint(a, b), den)


KINDS = ['int', 'rat', 'float', 'sfloat', 'mixed']
# the ways one parameter value can be handed to a mapping constructor
HOWS = {'int': ['int'], 'rat': ['rat'], 'float': ['float', 'float', 'np.float64'],
        # floating-point numbers that are not python floats (seeded change C16-8: the choice of the inversion
        # formula looked at the python type of the parameters instead of the Float atoms of the Jacobian)
        'sfloat': ['Float', 'sympify', 'evalf', 'Decimal', 'mpf']}
HOWS['mixed'] = ['int', 'rat', 'rat', 'float'] + HOWS['sfloat']


def make_param(v, how):
    """the rational value v (rounded to the nearest double by the floating-point constructors) as the python / sympy / numpy object `how`"""
    import sympy
    v = sympy.Rational(v)
    if how == 'int':
        return int(v) if v.q == 1 else v
    if how == 'rat':
        return v
    if how == 'float':
        return float(v)
    if how == 'np.float64':
        import numpy
        return numpy.float64(float(v))
    if how == 'Float':
        return sympy.Float(float(v))
    if how == 'sympify':
        return sympy.sympify(repr(float(v)))            # what a parameter read from a text file becomes
    if how == 'evalf':
        return v.evalf()
    if how == 'Decimal':
        import decimal
        return decimal.Decimal(repr(float(v)))
    if how == 'mpf':
        import mpmath
        return mpmath.mpf(float(v))
    raise ValueError(how)


def as_kind(v, kind, rng=None, how=None):
    """a rational value as an object of the parameter kind; `how` receives the constructor used"""
    h = HOWS[kind][0] if rng is None else rng.choice(HOWS[kind])
    if how is not None:
        how.append(h)
    return make_param(v, h)


def ldpd(d):
    """(ldim, pdim) of a dimension request: an int (dim=d) or a pair (ldim < pdim: a curve / a surface)"""
    return (d, d) if isinstance(d, int) else (int(d[0]), int(d[1]))


def dimstr(d):
    return '%d' % d if isinstance(d, int) else '%dx%d' % tuple(d)


RECT = [(1, 2), (1, 3), (2, 3)]        # ldim < pdim: curves in the plane / in space, surfaces in space


def params_for(name, d, rng, kind, how=None):
    """numeric parameters in a range where the mapping is regular on the sample box; `how` (a dict) receives the
    constructor used for every parameter and the exact rational values (for the replay)"""
    from sympy import Matrix, Rational
    # floating-point kinds: half of the parameter sets are dyadic (float(v) is exact and so is most of sympy's Float
    # arithmetic on them), half decimal (0.3, 0.07: every product is rounded while the stored quantities are built,
    # and sympy's simplification of Matrix.inv() no longer cancels the pivots)
    decimal = kind in ('float', 'sfloat', 'mixed') and rng.random() < 0.5
    DEC = {1: 1, 8: 10, 16: 10, 32: 100, 64: 100, 256: 1000}

    def rat(rng_, lo, hi, den_=16):
        return globals()['rat'](rng_, lo, hi, DEC[den_] if decimal else den_)
    den = 1 if kind == 'int' else 16
    r = lambda lo, hi: rat(rng, lo, hi, den)
    ld, pd = ldpd(d)
    p = {}
    if name == 'AffineMapping':
        while True:
            A = Matrix(pd, ld, lambda i, j: rat(rng, -2, 2, 1 if kind == 'int' else 8))
            if abs((A.T * A).det()) >= Rational(1, 4):
                break
        # ldim < pdim: half of the parameter sets give the whole pdim x pdim coefficient matrix, as for a square mapping
        # (the formulas of the class mention x1, x2, x3; a logical coordinate beyond ldim does not exist and counts as
        # zero, whatever its coefficient: seeded change C16-9)
        full = ld < pd and rng.random() < 0.5
        for i in range(pd):
            p['c%d' % (i + 1)] = r(-2, 2)
            for j in range(pd if full else ld):
                p['a%d%d' % (i + 1, j + 1)] = A[i, j] if j < ld else rat(rng, -2, 2, 1 if kind == 'int' else 8)
    elif name == 'PolarMapping':
        p = {'c1': r(-1, 1), 'c2': r(-1, 1)}
        p['rmin'] = rat(rng, 0.25, 1, 1 if kind == 'int' else 16) if kind != 'int' else Rational(1)
        p['rmax'] = p['rmin'] + (rat(rng, 0.5, 2, 16) if kind != 'int' else Rational(rng.randint(1, 3)))
    elif name in ('TargetMapping', 'TwistedTargetSurfaceMapping', 'TwistedTargetMapping'):
        p = {'c1': r(-1, 1), 'c2': r(-1, 1), 'k': rat(rng, 0.1, 0.4, 32), 'D': rat(rng, 0.05, 0.3, 32)}
        if name != 'TargetMapping':
            p['c3'] = r(-1, 1)
    elif name == 'CzarnyMapping':
        p = {'c2': r(-1, 1), 'b': rat(rng, 1, 2, 1 if kind == 'int' else 16), 'eps': rat(rng, 0.1, 0.6, 32)}
    elif name == 'CollelaMapping2D':
        p = {'eps': rat(rng, 0.02, 0.06, 256), 'k1': Rational(rng.randint(1, 2)), 'k2': Rational(rng.randint(1, 2))}
    elif name == 'TorusMapping':
        p = {'R0': r(2, 4)}
    elif name == 'TorusSurfaceMapping':
        p = {'R0': r(2, 4), 'a': rat(rng, 0.5, 1, 16)}
    out = {}
    for k, v in p.items():
        h = []
        out[k] = as_kind(v, kind, rng, h)
        if how is not None:
            how[k] = [h[0], str(v)]
    return out


BOX = [(0.15, 0.85), (0.3, 2.8), (0.25, 5.0)]


def point(rng, ld):
    pt = [rat(rng, BOX[k][0], BOX[k][1], 64) for k in range(ld)]
    if ld > 1 and rng.random() < 0.4:
        # special angles inside the box: a pivot of the Jacobian (cos x2, sin x2 cos x3, …) vanishes there
        # although the mapping is regular (seeded change C16-5: an inverse computed by LU is 0/0 there)
        import sympy
        k = rng.randrange(1, ld)
        pt[k] = rng.choice([sympy.pi / 2, sympy.pi / 2, sympy.pi] if k == 1 else [sympy.pi / 2, sympy.pi, 3 * sympy.pi / 2])
    return pt


def pivot_point(rng, ld, Jref, coords):
    """a point of the box at which a leading principal minor of the Jacobian (a pivot of Gaussian elimination: J[0,0],
    or J[0:2,0:2] in 3D) vanishes to double precision although nothing says the mapping is singular there, e.g. the curve
    cos(x2) = 2 D x1 / (1 - k) of TargetMapping; None if no such point is found.  A stored inverse that divides by
    the pivots is 0/0 there in floating point (seeded changes C16-5, C16-8).  The coordinates are the exact
    rationals of double-precision numbers, so the callable mapping is evaluated at exactly this point."""
    import math
    import sympy
    if ld < 2 or Jref.shape[0] != Jref.shape[1]:
        return None
    r = rng.randint(1, ld - 1)
    minor = Jref[0, 0] if r == 1 else Jref[:r, :r].det()
    pt = [rat(rng, BOX[k][0], BOX[k][1], 64) for k in range(ld)]
    for k in rng.sample(range(ld), ld):
        f = sympy.sympify(minor).xreplace({c: v for i, (c, v) in enumerate(zip(coords, pt)) if i != k})
        if f.free_symbols != {coords[k]}:
            continue
        try:
            fn = sympy.lambdify(coords[k], f, 'math')
            lo, hi = BOX[k]
            n = 24
            ts = [lo + (hi - lo) * i / n for i in range(n + 1)]
            vs = [fn(t) for t in ts]
            br = [(ts[i], ts[i + 1]) for i in range(n) if vs[i] * vs[i + 1] < 0]
            if not br:
                continue
            a, b = rng.choice(br)
            fa = fn(a)
            for _ in range(80):
                c = 0.5 * (a + b)
                fc = fn(c)
                if fc == 0 or c in (a, b):
                    a = b = c
                    break
                if (fa < 0) == (fc < 0):
                    a, fa = c, fc
                else:
                    b = c
            t = 0.5 * (a + b)
        except (TypeError, ValueError, ZeroDivisionError, OverflowError):
            continue
        if not (lo < t < hi) or not math.isfinite(t):
            continue
        pt[k] = sympy.Rational(t)
        return pt
    return None


def regular_point(rng, ld, Jref, coords, p_pivot=0.3):
    """a point of the box, sometimes with a special angle or on the set where a pivot of the Jacobian vanishes, at
    which the mapping is regular"""
    import sympy
    pt, special = None, False
    if ld > 1 and rng.random() < p_pivot:
        pt = pivot_point(rng, ld, Jref, coords)
        special = pt is not None
    if pt is None:
        pt = point(rng, ld) if p_pivot < 1 else special_angle_point(rng, ld)
        special = any(not sympy.sympify(p_).is_Rational for p_ in pt)
    if special:
        try:
            Jr = exact(Jref).xreplace(dict(zip(coords, pt)))
            G = (Jr.T * Jr).det()
            ok = bool(abs(sympy.N(G, 30)) > sympy.Rational(1, 10 ** 4))
        except Exception:
            ok = False
        if not ok:
            pt = point(rng, ld)
            while any(not sympy.sympify(p_).is_Rational for p_ in pt):
                pt = point(rng, ld)
    return pt


def special_angle_point(rng, ld):
    """a point of the box with a special angle (whenever there is an angle coordinate)"""
    pt = point(rng, ld)
    while ld > 1 and all(sympy_rational(p_) for p_ in pt):
        pt = point(rng, ld)
    return pt


def sympy_rational(v):
    import sympy
    return bool(sympy.sympify(v).is_Rational)


def exact(e):
    """Floats of an expression as the exact rationals of their binary values"""
    import sympy
    e = sympy.sympify(e)
    return e.xreplace({f: sympy.Rational(f) for f in e.atoms(sympy.Float)})


def ev(e, subs, digits=50):
    import sympy
    return sympy.N(exact(e).xreplace(subs), digits)


def ev_matrix(M, subs, digits=50):
    import sympy
    return sympy.Matrix(M.shape[0], M.shape[1], [ev(x, subs, digits) for x in M])


USER_DIMS = [1, 2, 2, 3, (1, 2), (1, 3), (2, 3)]


def user_class(rng, serial, d):
    """a user subclass of Mapping defined like the catalogue ones: a perturbation of the identity (d an int), or of the
    embedding (x1, .., x_ldim, 0, ..) of a curve / surface (d = (ldim, pdim), ldim < pdim: the extra physical
    coordinates are sums of the same terms, so the Jacobian has full column rank)"""
    from sympde.topology.mapping import Mapping
    ld, pd = ldpd(d)
    xs = ['x1', 'x2', 'x3'][:ld]
    names = ['x', 'y', 'z'][:pd]
    par = ['p%d' % k for k in range(rng.randint(0, 2))]
    # ldim < pdim: half of the classes are written like the 3D catalogue formulas, with logical coordinates beyond ldim
    # (they do not exist and count as zero: x3*x1**2*sin(2*x2) of TwistedTargetMapping on the sheet x3 = 0; seeded C16-9)
    tv = ['x1', 'x2', 'x3'][:pd] if ld < pd and rng.random() < 0.5 else xs

    def term():
        k = rng.random()
        v = rng.choice(tv)
        w = rng.choice(tv)
        c = rng.choice(par) if par and rng.random() < 0.6 else rng.choice(['0.125', '1/4', '0.1'])
        if k < 0.35:
            return '%s*%s*%s' % (c, v, w)
        if k < 0.55:
            return '%s*%s**2' % (c, v)
        if k < 0.8:
            return '%s*sin(%s)' % (c, w)
        return '%s*cos(%s)*%s' % (c, w, v)
    lead = xs + [None] * (pd - ld)
    exprs = {n: '%s%s%s' % ((x + ' + ') if x else '', term(), (' + ' + term()) if rng.random() < 0.5 else '') for n, x in zip(names, lead)}
    cls = type('UserMapping%d' % serial, (Mapping,), {'_expressions': exprs, '_ldim': ld, '_pdim': pd})
    vals = {q: rat(rng, -0.15, 0.15, 64) for q in par}
    return cls, vals, exprs


def helix_class():
    """fixed corpus: a curve in space defined like the catalogue mappings (ldim = 1, pdim = 3)"""
    from sympde.topology.mapping import Mapping
    exprs = {'x': 'R*cos(x1)', 'y': 'R*sin(x1)', 'z': 'h*x1'}
    return type('HelixMapping', (Mapping,), {'_expressions': exprs, '_ldim': 1, '_pdim': 3}), exprs


def sheet_class(name, cls3):
    """fixed corpus: a user subclass that re-uses the formulas of a 3D catalogue mapping for the surface x3 = 0
    (_ldim = 2, _pdim = 3: the third logical coordinate does not exist and counts as zero)"""
    from sympde.topology.mapping import Mapping
    exprs = {k: str(v) for k, v in cls3._expressions.items()}
    return type(name, (Mapping,), {'_expressions': dict(exprs), '_ldim': 2, '_pdim': 3}), exprs


def param_value(v):
    """the exact rational value of a parameter handed to a constructor (a float is the rational of its binary value)"""
    import sympy
    try:
        e = exact(sympy.sympify(v))
        if e.is_number:
            return e
    except Exception:
        pass
    return sympy.Rational(float(v))


def defining_expressions(m, params, coords, byname, rng):
    """the coordinate expressions rebuilt from the formulas the class declares (`_expressions`), independently of
    Mapping.__new__: the first pdim formulas, a logical coordinate beyond ldim replaced by zero, the parameters given to
    the constructor by their exact values, the other symbols by the value the same-named constant of the stored
    expressions received (`byname`; a fresh random value if the stored expressions have no such constant).
    None if the class declares no formulas."""
    import sympy
    src = getattr(type(m), '_expressions', None)
    if not isinstance(src, dict):
        return None
    lc = ['x1', 'x2', 'x3']
    out = []
    for n in ['x', 'y', 'z'][:m.pdim]:
        if n not in src:
            return None
        e = sympy.sympify(src[n])
        e = e.subs({sympy.Symbol(c): 0 for c in lc[m.ldim:]})
        sub = {}
        for a in e.free_symbols:
            if a.name in lc[:m.ldim]:
                sub[a] = coords[lc.index(a.name)]
            elif a.name in params:
                sub[a] = param_value(params[a.name])
            else:
                if a.name not in byname:
                    byname[a.name] = rat(rng, 0.3, 0.9, 32)
                sub[a] = byname[a.name]
        out.append(e.subs(sub))
    return out


# --------------------------------------------------------------------------- shapes

def bshape(shapes):
    """numpy broadcasting, written independently: None if incompatible"""
    n = max([len(s) for s in shapes] + [0])
    out = []
    for k in range(1, n + 1):
        ds = [s[-k] for s in shapes if len(s) >= k]
        big = [x for x in ds if x != 1]
        if len(set(big)) > 1:
            return None
        out.append(big[0] if big else 1)
    return tuple(reversed(out))


def shape_sets(rng, ld, big):
    n, m, c = rng.randint(2, 4), rng.randint(2, 4), rng.randint(2, 3)
    if ld == 1:
        S = [[()], [(n,)], [(n, 1)], [(n, m)], [(1,)], [(0,)]]
    elif ld == 2:
        S = [[(), ()], [(n,), (n,)], [(n, 1), (1, m)], [(n,), ()], [(), (m,)], [(n, m), (m,)], [(1,), (n,)],
             [(n, 1), (m,)], [(n,), (n + 1,)], [(n, m), (n,)] if n != m else [(n, m), (n + 1,)], [(0,), (1,)]]
    else:
        S = [[(), (), ()], [(n,), (n,), (n,)], [(n, 1, 1), (1, m, 1), (1, 1, c)], [(n, 1), (1, m), ()],
             [(n,), (), (n,)], [(n, m), (m,), (1,)], [(n,), (n + 1,), ()], [(n, 1, 1), (m, 1), (c + 1,)]]
    if not big:
        rng.shuffle(S)
        S = S[:5]
    return S


def arrays(rng, shapes, ld):
    import numpy as np
    out = []
    for k, s in enumerate(shapes):
        lo, hi = BOX[k]
        if s == ():
            out.append(float(rat(rng, lo, hi, 64)))
        else:
            a = np.array([float(rat(rng, lo, hi, 64)) for _ in range(int(np.prod(s)))], dtype=float).reshape(s)
            out.append(a)
    return out


def used_of(expr, coords):
    fs = getattr(expr, 'free_symbols', set())
    return [k for k, c in enumerate(coords) if c in fs]


def shp(x):
    import numpy as np
    return tuple(int(v) for v in np.shape(x))


# --------------------------------------------------------------------------- building mappings (cached per run)

_CACHE = {}


def build(name, cls, d, params):
    key = (name, d, tuple(sorted((k, type(v).__name__ + ':' + repr(v)) for k, v in params.items())))
    if key not in _CACHE:
        nm = 'M%s%d' % (name[:3], len(_CACHE))
        if not isinstance(d, int):
            _CACHE[key] = cls(nm, ldim=d[0], pdim=d[1], **params)
        else:
            _CACHE[key] = cls(nm, dim=d, **params) if cls._ldim is None else cls(nm, **params)
    return _CACHE[key]


def expected_comp(label, ld, pd):
    """component shape of a quantity of a mapping with ld logical and pd physical coordinates"""
    return {'jacobian': (pd, ld), 'metric': (ld, ld), 'metric_det': (), 'jacobian_inv': (ld, ld)}.get(label, ())


def quantities_of(F, m):
    """[(label, symbolic expr (Matrix / scalar / None), callable)]"""
    from sympy import ImmutableDenseMatrix
    qs = [('jacobian', m.jacobian_expr, F.jacobian), ('metric', m.metric_expr, F.metric),
          ('metric_det', m.metric_det_expr, F.metric_det)]
    if m.jacobian_inv_expr is not None:
        qs.append(('jacobian_inv', m.jacobian_inv_expr, F.jacobian_inv))
    for i, e in enumerate(m.expressions):
        qs.append(('x%d' % i, e, (lambda *eta, i=i: F(*eta)[i])))
    return qs


def cases_for_tier(ctx):
    """[(class name, class, dim, kind)] of this run; dim is an int or, for the classes without a fixed dimension,
    also a pair (ldim, pdim) with ldim < pdim (curve / surface)"""
    kinds = KINDS
    out = []
    for name, cls, dims in T.catalogue():
        for d in dims:
            ks = kinds if ctx.thorough else [ctx.rng.choice(kinds)]
            if not ctx.thorough and name in ('PolarMapping', 'AffineMapping') and d == 2:
                ks = ['int', ctx.rng.choice(['float', 'sfloat'])]
            for k in ks:
                out.append((name, cls, d, k))
        if cls._ldim is None:
            rect = RECT if (ctx.thorough or name == 'AffineMapping') else [ctx.rng.choice(RECT)]
            for d in rect:
                for k in (kinds if ctx.thorough and name == 'AffineMapping' else [ctx.rng.choice(kinds)]):
                    out.append((name, cls, d, k))
    return out


# --------------------------------------------------------------------------- correspondence

def correspondence(ctx):
    import numpy as np
    import sympy
    from sympde.utilities.utils import lambdify_sympde
    from harness.translate.mappings import MSer
    c = Corr()
    rng = ctx.rng
    lines, payload = [], []

    def add(line, pl):
        lines.append(line)
        payload.append(pl)
    # (a) shapes returned by callable mappings and by lambdified expressions
    todo = cases_for_tier(ctx)
    if not ctx.thorough:
        todo = [t for t in todo if t[0] not in ('CzarnyMapping',)]
        rng.shuffle(todo)
        todo = todo[:9]
    for name, cls, d, kind in todo:
        params = params_for(name, d, rng, kind)
        try:
            with time_limit(120):
                m = build(name, cls, d, params)
                F = m.get_callable_mapping()
        except Timeout:
            c.count('timeout:build')
            continue
        except Exception as e:
            # an exception of the implementation is a disagreement of this case (the model has an answer for every
            # shape request), not a crash of the harness; the oracle reports the concrete input
            c.evaluations += 1
            c.count('callable-raises')
            c.disagreements.append({'input': 'C16 callable %s %s %s' % (name, dimstr(d), {k: repr(v) for k, v in params.items()}),
                                    'impl': 'raised %s: %s' % (type(e).__name__, e), 'model': 'a callable mapping', 'note': 'constructor / get_callable_mapping'})
            continue
        coords = list(m.logical_coordinates) if m.ldim > 1 else [m.logical_coordinates]
        ld = m.ldim
        for shapes in shape_sets(rng, ld, ctx.thorough):
            args = arrays(rng, shapes, ld)
            for label, expr, f in quantities_of(F, m):
                if expr is None:
                    continue
                comp = tuple(expr.shape) if hasattr(expr, 'shape') else ()
                comps = list(expr) if comp else [expr]
                used = [used_of(sympy.sympify(e), coords) for e in comps]
                try:
                    got = 'ok ' + dumps(list(shp(f(*args))))
                except ValueError:
                    got = 'err ValueError'
                except Exception as e:
                    got = 'err ' + type(e).__name__
                line = 'C16 bshape %s %s %s' % (dumps(list(comp)), dumps([list(s) for s in shapes]), dumps(used))
                add(line, ('shape', got, '%s.%s %s' % (name, label, shapes)))
    # lambdify_sympde directly, on small expressions whose components use different subsets of the variables
    x, y, z = sympy.symbols('x y z')
    exprs = [sympy.Matrix([[x, x + y], [0, y]]), sympy.Matrix([[1, 2]]), sympy.Integer(3), x * y, sympy.sin(x), sympy.Matrix([[z], [x * y], [7]]),
             sympy.Matrix([[x * z, 0, y]])]
    for e in exprs:
        for _ in range(6 if ctx.thorough else 3):
            vs = [x, y, z][:rng.randint(2, 3)] if e.free_symbols - {x, y} else [x, y]
            if z in e.free_symbols:
                vs = [x, y, z]
            shapes = rng.choice(shape_sets(rng, len(vs), True))
            args = arrays(rng, shapes, len(vs))
            f = lambdify_sympde(vs, e)
            comp = tuple(e.shape) if hasattr(e, 'shape') else ()
            comps = list(e) if comp else [e]
            used = [used_of(sympy.sympify(q), vs) for q in comps]
            try:
                got = 'ok ' + dumps(list(shp(f(*args))))
            except ValueError:
                got = 'err ValueError'
            except Exception as ex:
                got = 'err ' + type(ex).__name__
            add('C16 bshape %s %s %s' % (dumps(list(comp)), dumps([list(s) for s in shapes]), dumps(used)),
                ('shape', got, 'lambdify %s %s' % (e, shapes)))
    # (b) the model of sympy.diff against the stored Jacobian (user subclasses and numeric catalogue mappings)
    ser = MSer()
    nuser = 24 if ctx.thorough else 6
    maps = []
    for k in range(nuser):
        d = rng.choice(USER_DIMS)
        cls, vals, exprs_u = user_class(rng, k, d)
        try:
            with time_limit(60):
                maps.append(('user%d:%s' % (k, exprs_u), cls('U%d' % k, **(vals if rng.random() < 0.5 else {}))))
        except Timeout:
            c.count('timeout:user')
        except Exception as e:
            c.evaluations += 1
            c.disagreements.append({'input': 'C16 user-mapping %s ldim,pdim=%s' % (exprs_u, ldpd(d)), 'impl': 'raised %s: %s' % (type(e).__name__, e),
                                    'model': 'a mapping', 'note': 'constructor'})
    cached = list(_CACHE.items())
    for (name, d, _), m in cached[:6] + [it for it in cached[6:] if not isinstance(it[0][1], int)][:2]:
        maps.append(('%s_%s' % (name, dimstr(d)), m))
    for tag, m in maps:
        J = m.jacobian_expr
        for i in range(m.pdim):
            for j in range(m.ldim):
                s = ser.ser(m.expressions[i])
                if T.has_other(s):
                    c.count('sdiff:outside-fragment')
                    continue
                try:
                    Jij = J[i, j]
                except Exception as e:         # the stored Jacobian has no entry (i, j): reported as a disagreement
                    Jij = sympy.Symbol('no_entry_%d_%d_of_stored_Jacobian_of_shape_%s' % (i, j, 'x'.join(str(v) for v in getattr(J, 'shape', ()))))
                add('C05 sdiff x%d %s' % (j + 1, dumps(s)), ('sdiff', Jij, '%s d x%d / d x%d' % (tag, i, j + 1), ser))
    outs = ctx.driver.run(lines)
    for line, pl, out in zip(lines, payload, outs):
        c.evaluations += 1
        if pl[0] == 'shape':
            _, got, what = pl
            c.count('shape:' + ('refused' if got.startswith('err') else 'ok'))
            if out != got:
                c.disagreements.append({'input': line, 'impl': got, 'model': out, 'note': what})
            s = loads_all(line[len('C16 bshape '):])
            if len(s[0]) > 0 or len({tuple(x) for x in s[1]}) > 1:
                c.nontrivial.add(line)
            if len(c.samples) < 3 and got.startswith('ok') and len(s[0]) > 0 and len({tuple(x) for x in s[1]}) > 1:
                c.samples.append({'request': line, 'impl': got, 'what': what})
        else:
            _, Jij, what, sr = pl
            c.count('sdiff')
            ok = False
            if out.startswith('ok '):
                try:
                    mv = sympy.sympify(sr.build(loads_all(out[3:])[0]))
                    mv = mv.subs({a: sympy.pi for a in mv.free_symbols if a.name == 'pi'})
                    ok = ring_equal(exact(mv), exact(Jij)) or sympy.simplify(exact(mv) - exact(Jij)) == 0
                except Exception as e:
                    out = out + ' (rebuild failed: %r)' % (e,)
            if not ok:
                c.disagreements.append({'input': line, 'impl': str(Jij), 'model': out, 'note': what})
            if any(h in line for h in ('(mul', '(pow', '(fn')):
                c.nontrivial.add(line)
            if len(c.samples) < 6 and '(fn' in line:
                c.samples.append({'request': line[:300], 'impl': str(Jij), 'what': what})
    return c


# --------------------------------------------------------------------------- oracle

def close(got, expv, scale):
    return abs(float(got) - float(expv)) <= TOL * (abs(float(expv)) + scale)


def shape_of(M):
    sh = getattr(M, 'shape', None)
    return tuple(int(v) for v in sh) if sh is not None else None


def check_symbolic(o, tag, m, rng, detail, p_pivot=0.3, params=None):
    """stored J, Jinv, G, detG against independent differentiation / linear algebra, at 50 digits; with `params` (the
    keyword arguments the mapping was built with) also the stored coordinate expressions against the formulas the class
    declares"""
    import sympy
    from sympy import Matrix, Rational
    coords = list(m.logical_coordinates) if m.ldim > 1 else [m.logical_coordinates]
    if len(m.expressions) != m.pdim or len(coords) != m.ldim:
        o.fail('dims:' + tag, 'the mapping has %d coordinate expressions and %d logical coordinates but pdim = %s, ldim = %s'
               % (len(m.expressions), len(coords), m.pdim, m.ldim), **detail)
        return
    X = Matrix([[e] for e in m.expressions])
    J = m.jacobian_expr
    Jref = X.jacobian(coords)                # sympy's own differentiation of the stored expressions
    for label, Q, want in (('jac', J, (m.pdim, m.ldim)), ('metric', m.metric_expr, (m.ldim, m.ldim))):
        if shape_of(Q) != want:
            o.fail('%s-shape:%s' % (label, tag), 'the stored %s has shape %s, expected (%d, %d) for %d logical and %d physical coordinates'
                   % ({'jac': 'Jacobian', 'metric': 'metric'}[label], shape_of(Q), want[0], want[1], m.ldim, m.pdim), stored=str(Q), **detail)
            return
    if m.jacobian_inv_expr is not None and shape_of(m.jacobian_inv_expr) != (m.ldim, m.pdim):
        o.fail('jac_inv-shape:' + tag, 'the stored inverse Jacobian has shape %s, expected (%d, %d)' % (shape_of(m.jacobian_inv_expr), m.ldim, m.pdim), **detail)
        return
    if shape_of(m.metric_det_expr) is not None:
        o.fail('metric_det-shape:' + tag, 'the stored metric determinant is not a scalar but has shape %s' % (shape_of(m.metric_det_expr),), **detail)
        return
    consts = {a: rat(rng, 0.3, 0.9, 32) for a in sorted(set().union(*[sympy.sympify(e).free_symbols for e in m.expressions]) - set(coords), key=str)}
    Xdef = None
    if params is not None:
        Xdef = defining_expressions(m, params, coords, {a.name: v for a, v in consts.items()}, rng)
    # with Float parameters sympy has already rounded products and sums while building the stored quantities:
    # the symbolic identities then hold to floating-point accuracy only
    stored_all = list(J) + list(m.metric_expr) + [m.metric_det_expr] + (list(m.jacobian_inv_expr) if m.jacobian_inv_expr is not None else [])
    has_float = any(sympy.sympify(e).atoms(sympy.Float) for e in list(m.expressions) + stored_all)
    t_exact = sympy.Float('1e-12') if has_float else sympy.Float('1e-38')
    o.count('symbolic:' + ('float' if has_float else 'exact'))
    for _ in range(2):
        pt = regular_point(rng, m.ldim, Jref.xreplace(consts), coords, p_pivot)
        o.count('symbolic-point:' + ('rational' if all(sympy_rational(p_) and sympy.Rational(p_).q <= 64 for p_ in pt) else 'special'))
        subs = dict(zip(coords, pt))
        subs.update(consts)
        where = dict(detail, point=[str(p) for p in pt], symbolic_constants={str(k): str(v) for k, v in consts.items()})
        if Xdef is not None:
            # the stored coordinate expressions are the formulas of the class (logical coordinates beyond ldim = 0)
            Xs = [ev(e, subs) for e in m.expressions]
            Xd = [ev(e, {c: subs[c] for c in coords}) for e in Xdef]
            alien = sorted(a.name for a in consts if a.name in ('x1', 'x2', 'x3'))
            if alien or max(abs(a - b) for a, b in zip(Xs, Xd)) > t_exact * max([abs(x) for x in Xd] + [1]):
                o.fail('expressions:' + tag, 'the stored coordinate expressions are not the formulas of the class with the logical coordinates beyond '
                       'ldim = %d set to zero and the parameters substituted%s' % (m.ldim, (': they keep the non-existing logical coordinate(s) %s as '
                       'symbolic constant(s)' % ', '.join(alien)) if alien else ''), stored=[str(e) for e in m.expressions],
                       formulas={k: str(v) for k, v in type(m)._expressions.items()}, stored_value=[str(sympy.N(v, 20)) for v in Xs],
                       expected_value=[str(sympy.N(v, 20)) for v in Xd], **where)
                return
        Jv, Jr = ev_matrix(J, subs), ev_matrix(Jref, subs)
        sc = max([abs(x) for x in Jr] + [1])
        if max(abs(a - b) for a, b in zip(Jv, Jr)) > t_exact * sc:
            o.fail('jac:' + tag, 'the stored Jacobian is not the derivative of the stored coordinate expressions', stored=str(Jv), derivative=str(Jr), **where)
            return
        G, Gs = Jr.T * Jr, ev_matrix(m.metric_expr, subs)
        if Gs.shape != G.shape or max(abs(a - b) for a, b in zip(Gs, G)) > t_exact * max([abs(x) for x in G] + [1]):
            o.fail('metric:' + tag, 'the stored metric is not J^T J', stored=str(Gs), expected=str(G), **where)
            return
        dG, dGs = G.det(), ev(m.metric_det_expr, subs)
        if abs(dG - dGs) > t_exact * max(abs(dG), 1, max(abs(x) for x in G) ** m.ldim):
            o.fail('metric_det:' + tag, 'the stored metric determinant is not det(J^T J)', stored=str(dGs), expected=str(dG), **where)
            return
        if m.jacobian_inv_expr is not None:
            if abs(Jr.det()) < Rational(1, 1000):
                continue
            Ji = ev_matrix(m.jacobian_inv_expr, subs)
            if any(x.has(sympy.nan, sympy.zoo, sympy.oo) or not x.is_finite for x in Ji):
                o.fail('jac_inv-undefined:' + tag, 'the stored inverse Jacobian has no finite value (%s) at a point where det J = %s'
                       % ([str(x) for x in Ji], sympy.N(Jr.det(), 8)), **where)
                return
            P = Jr * Ji
            I = sympy.eye(m.ldim)
            if max(abs(a - b) for a, b in zip(P, I)) > t_exact * 1000 * max(1, max(abs(x) for x in Jr.inv())) * max(1, max(abs(x) for x in Jr)):
                o.fail('jac_inv:' + tag, 'J times the stored inverse Jacobian is not the identity', product=str(P), **where)
                return
        elif m.pdim == m.ldim:
            o.fail('jac_inv-missing:' + tag, 'a square mapping stores no inverse Jacobian', **detail)


def snapshot(x):
    """an independent copy of a returned value"""
    import numpy as np
    return np.array(x, dtype=float, copy=True)


def unchanged(x, snap):
    import numpy as np
    y = np.asarray(x, dtype=float)
    return y.shape == snap.shape and bool(np.array_equal(y, snap, equal_nan=True))


def check_callable(o, tag, m, rng, detail, big, p_pivot=0.3):
    """values and shapes returned by the callable mapping against the exact evaluation of the stored quantities"""
    import numpy as np
    import sympy
    coords = list(m.logical_coordinates) if m.ldim > 1 else [m.logical_coordinates]
    try:
        F = m.get_callable_mapping()
    except Exception as e:
        o.fail('callable-raises:' + tag, 'get_callable_mapping raised %s: %s' % (type(e).__name__, e), **detail)
        return
    X = sympy.Matrix([[e] for e in m.expressions])
    Jref = X.jacobian(coords)
    ld = m.ldim
    qs = quantities_of(F, m)
    # scalar points.  Call history: every quantity is first evaluated at all the points and the returned objects are
    # kept alive ([f.jacobian(*p) for p in pts]); only afterwards is every kept result compared with the exact value at
    # its own point - a result must not be changed by a later call (seeded change C16-10: one output array re-used
    # while the shape of the points is unchanged)
    pts = []
    want = 3 if big else 2
    for _ in range(3 * want):
        if len(pts) == want:
            break
        pt = regular_point(rng, ld, Jref, coords, p_pivot)
        subs = dict(zip(coords, pt))
        Jr = ev_matrix(Jref, subs)
        detJ = abs(float((Jr.T * Jr).det())) ** 0.5
        if not (1e-3 <= detJ <= 1e4):
            o.count('point:ill-conditioned')
            continue
        o.count('point' + ('' if all(sympy_rational(p_) and sympy.Rational(p_).q <= 64 for p_ in pt) else ':special'))
        fl = [float(p) for p in pt]
        refs = {'jacobian': Jr, 'metric': Jr.T * Jr, 'metric_det': (Jr.T * Jr).det()}
        if m.jacobian_inv_expr is not None:
            refs['jacobian_inv'] = Jr.inv()
        for i, e in enumerate(m.expressions):
            refs['x%d' % i] = ev(e, subs)
        pts.append((pt, subs, fl, refs))
    o.count('history:%d-scalar-points' % len(pts))
    kept = {}
    for label, expr, f in qs:
        if expr is None:
            continue
        kept[label] = []
        for pt, subs, fl, refs in pts:
            try:
                got = f(*fl)
            except Exception as e:
                o.fail('callable-%s-raises:%s' % (label, tag), '%s raised %s at a regular point' % (label, type(e).__name__), point=fl, **detail)
                return
            kept[label].append((got, snapshot(got)))
    for n, (pt, subs, fl, refs) in enumerate(pts):
        for label, expr, f in qs:
            if expr is None:
                continue
            got, snap = kept[label][n]
            if not unchanged(got, snap):
                o.fail('overwritten:%s:%s' % (label, tag), 'the result %s returned at point #%d was changed by the evaluation of %s at the following point(s): '
                       'it was %s when returned and is %s now' % (label, n, label, snap.tolist(), np.asarray(got, dtype=float).tolist()),
                       points=[q[2] for q in pts], **detail)
                return
            ref = refs[label]
            stored = ev_matrix(expr, subs) if hasattr(expr, 'shape') else ev(expr, subs)
            try:
                [float(v_) for v_ in (list(stored) if hasattr(stored, 'shape') else [stored])]
            except TypeError:
                # the 50-digit evaluation of the stored expression at an exact special angle is not a real
                # number (sympy's N on 0·∞ patterns): nothing can be concluded from this point
                o.count('special-point-not-evaluable:' + label)
                continue
            comp = expected_comp(label, m.ldim, m.pdim)
            if shp(got) != comp or (shape_of(expr) or ()) != comp:
                o.fail('shape:%s:%s' % (label, tag), '%s at a scalar point has shape %s (stored expression: %s), expected the component shape %s of a '
                       'mapping with %d logical and %d physical coordinates' % (label, shp(got), shape_of(expr) or (), comp, m.ldim, m.pdim),
                       point=fl, **detail)
                return
            g = np.asarray(got, dtype=float).reshape(-1)
            for refname, R in (('the stored symbolic quantity', stored), ('the quantity derived from the coordinate expressions', ref)):
                r = [R] if not comp else list(R)
                sc = max(max(abs(float(v)) for v in r), 1.0)      # absolute floor: a component can vanish at a special angle
                for a, b in zip(g, r):
                    if not close(a, b, sc):
                        o.fail('value:%s:%s' % (label, tag), 'callable %s differs from %s beyond the tolerance %g: got %r, exact %s'
                               % (label, refname, TOL, float(a), sympy.N(b, 20)), point=fl, got=[float(v) for v in g],
                               exact=[str(sympy.N(v, 20)) for v in r], **detail)
                        return
    # arrays of points
    for shapes in shape_sets(rng, ld, big):
        args = arrays(rng, shapes, ld)
        args2 = arrays(rng, shapes, ld)
        b = bshape(shapes)
        o.count('arrays:' + ('refused' if b is None else 'ok'))
        for label, expr, f in qs:
            if expr is None:
                continue
            comp = expected_comp(label, m.ldim, m.pdim)
            try:
                got = f(*args)
            except ValueError:
                got = None
            except Exception as e:
                o.fail('arrays-%s-raises:%s' % (label, tag), '%s raised %s on argument shapes %s' % (label, type(e).__name__, shapes), **detail)
                return
            if b is None:
                if got is not None:
                    o.fail('arrays-accepted:%s:%s' % (label, tag), '%s accepted the non-broadcastable shapes %s' % (label, shapes), **detail)
                    return
                continue
            if got is None:
                o.fail('arrays-refused:%s:%s' % (label, tag), '%s refused the broadcastable shapes %s' % (label, shapes), **detail)
                return
            if shp(got) != comp + b:
                o.fail('arrays-shape:%s:%s:%s' % (label, tag, shapes), '%s on argument shapes %s has shape %s; expected component shape %s followed by '
                       'the broadcast shape %s' % (label, shapes, shp(got), comp, b), **detail)
                return
            if 0 in b:
                continue
            # call history: a second evaluation on other points of the same shapes while the first result is kept
            snap = snapshot(got)
            try:
                got2 = f(*args2)
            except Exception as e:
                o.fail('arrays-%s-raises:%s' % (label, tag), '%s raised %s on argument shapes %s' % (label, type(e).__name__, shapes), **detail)
                return
            if not unchanged(got, snap):
                o.fail('overwritten-array:%s:%s' % (label, tag), 'the array %s returned on points of shapes %s was changed by the next evaluation of %s on other '
                       'points of the same shapes (largest change %.3g)' % (label, shapes, label, float(np.max(np.abs(np.asarray(got, dtype=float) - snap)))),
                       first_points=[np.asarray(a).tolist() for a in args], second_points=[np.asarray(a).tolist() for a in args2], **detail)
                return
            if shp(got2) != comp + b:
                o.fail('arrays-shape:%s:%s:%s' % (label, tag, shapes), '%s on argument shapes %s has shape %s at the second call; expected %s'
                       % (label, shapes, shp(got2), comp + b), **detail)
                return
            # values at a few positions against the scalar evaluation (both kept results)
            bc = np.broadcast_arrays(*[np.asarray(a) for a in args]) if b else [np.asarray(a) for a in args]
            bc2 = np.broadcast_arrays(*[np.asarray(a) for a in args2]) if b else [np.asarray(a) for a in args2]
            got, got2 = np.asarray(got, dtype=float), np.asarray(got2, dtype=float)
            for bc, got in ((bc, got), (bc, got), (bc2, got2)):
                idx = tuple(rng.randrange(n) for n in b)
                pt = [sympy.Rational(float(a[idx])) for a in bc]
                subs = dict(zip(coords, pt))
                R = ev_matrix(expr, subs) if comp else ev(expr, subs)
                r = list(R) if comp else [R]
                sc = max(max(abs(float(v)) for v in r), 1.0)      # absolute floor: a component can vanish at a special angle
                gv = got[(Ellipsis,) + idx].reshape(-1) if comp else got[idx].reshape(-1)
                for a, bb in zip(gv, r):
                    if not close(a, bb, sc):
                        o.fail('array-value:%s:%s' % (label, tag), '%s on arrays of shapes %s differs at position %s from the evaluation at that point: got %r, '
                               'exact %s' % (label, shapes, idx, float(a), sympy.N(bb, 20)), point=[str(p) for p in pt], **detail)
                        return


# fixed corpus (stable keys): (tag, class name, dim, {parameter: (how, value)}, probability of a pivot / special-angle point)
FIXED = [
    # witness of the defect repaired by fix d054f01 (metric determinant with float parameters)
    ('fixed:CzarnyMapping:float', 'CzarnyMapping', 2, {'c2': ('float', '1/16'), 'b': ('float', '2'), 'eps': ('float', '15/32')}, 0.3),
    # floating-point parameters that are not python floats, at points where a pivot of J vanishes (fix 27300fc, seeded C16-8)
    ('fixed:CzarnyMapping:sfloat', 'CzarnyMapping', 2, {'c2': ('Float', '1/16'), 'b': ('sympify', '3/2'), 'eps': ('evalf', '5/16')}, 1.0),
    ('fixed:TargetMapping:sfloat', 'TargetMapping', 2, {'c1': ('Float', '1/10'), 'c2': ('Decimal', '1/5'), 'k': ('sympify', '3/10'), 'D': ('evalf', '1/5')}, 1.0),
    ('fixed:TwistedTargetMapping:float', 'TwistedTargetMapping', 3, {'c1': ('float', '1/10'), 'c2': ('float', '1/5'), 'c3': ('np.float64', '-3/10'), 'k': ('float', '3/10'), 'D': ('float', '1/5')}, 1.0),
    ('fixed:PolarMapping:mixed', 'PolarMapping', 2, {'c1': ('rat', '1/2'), 'c2': ('int', '0'), 'rmin': ('mpf', '1/2'), 'rmax': ('Float', '7/4')}, 1.0),
    # curves and a surface: ldim < pdim through the classes without a fixed dimension (seeded C16-7)
    ('fixed:AffineMapping:1x2:rat', 'AffineMapping', (1, 2), {'c1': ('int', '1'), 'c2': ('int', '-2'), 'a11': ('int', '2'), 'a21': ('rat', '3/2')}, 0.3),
    ('fixed:AffineMapping:1x3:float', 'AffineMapping', (1, 3), {'c1': ('float', '1/2'), 'c2': ('float', '1/4'), 'c3': ('float', '-1'), 'a11': ('float', '2'),
                                                                  'a21': ('float', '-3/4'), 'a31': ('float', '1/2')}, 0.3),
    ('fixed:AffineMapping:2x3:sfloat', 'AffineMapping', (2, 3), {'c1': ('Float', '1/2'), 'c2': ('rat', '1/4'), 'c3': ('int', '0'), 'a11': ('Float', '2'), 'a12': ('sympify', '1/2'),
                                                                   'a21': ('evalf', '-3/4'), 'a22': ('int', '1'), 'a31': ('rat', '1/2'), 'a32': ('Float', '-5/4')}, 0.3),
    ('fixed:IdentityMapping:1x2', 'IdentityMapping', (1, 2), {}, 0.3),
    # a plane / a line in space given with the whole 3 x 3 coefficient matrix: the columns that multiply the logical
    # coordinates beyond ldim are irrelevant (seeded C16-9)
    ('fixed:AffineMapping:2x3:full', 'AffineMapping', (2, 3), {'c1': ('int', '1'), 'c2': ('int', '-2'), 'c3': ('rat', '1/2'), 'a11': ('int', '3'), 'a12': ('int', '1'),
                                                                'a13': ('int', '7'), 'a21': ('int', '4'), 'a22': ('int', '2'), 'a23': ('int', '-5'), 'a31': ('int', '1'),
                                                                'a32': ('int', '5'), 'a33': ('int', '2')}, 0.3),
    ('fixed:AffineMapping:1x3:full:float', 'AffineMapping', (1, 3), {'c1': ('float', '5/4'), 'c2': ('float', '-7/4'), 'c3': ('float', '3/4'), 'a11': ('float', '13/4'),
                                                                      'a12': ('float', '5/4'), 'a13': ('np.float64', '29/4'), 'a21': ('float', '17/4'), 'a22': ('float', '9/4'),
                                                                      'a23': ('float', '-19/4'), 'a31': ('float', '5/4'), 'a32': ('Float', '21/4'), 'a33': ('float', '9/4')}, 0.3),
]

# fixed corpus: user subclasses re-using the formulas of a 3D catalogue mapping for the surface x3 = 0 (_ldim = 2, _pdim = 3)
SHEETS = [
    ('fixed:user-sheet:TwistedTargetMapping:2x3', 'TwistedTargetMapping', {'c1': '0', 'c2': '1', 'c3': '2', 'k': '3/10', 'D': '1/5'}),
    ('fixed:user-sheet:TorusMapping:2x3', 'TorusMapping', {'R0': '5/2'}),
]


def detail_of(name, d, params, how, kind):
    return {'mapping': name, 'dim': list(d) if not isinstance(d, int) else d, 'kind': kind,
            'params': {k: repr(v) for k, v in params.items()}, 'how': dict(how)}


def raised(o, tag, e, detail):
    """an exception raised by the implementation while a case is built or evaluated is a failure of that case"""
    import traceback
    tb = traceback.extract_tb(e.__traceback__)
    where = ['%s:%d %s' % (fr.filename, fr.lineno, fr.name) for fr in tb[-4:]]
    o.fail('raises:' + tag, 'building or checking the mapping raised %s: %s' % (type(e).__name__, e), traceback=where, **detail)


def oracle(ctx, factor, seeds):
    import sympy
    o = Oracle()
    rng = ctx.rng
    todo = cases_for_tier(ctx)
    if factor > 1:
        todo = todo * 2
    cat = {n: c for n, c, _ in T.catalogue()}
    for tag, name, d, spec, pp in FIXED:
        if name not in cat:
            continue
        o.evaluations += 1
        o.count('fixed')
        fp = {k: make_param(v, h) for k, (h, v) in spec.items()}
        det0 = detail_of(name, d, fp, {k: [h, v] for k, (h, v) in spec.items()}, 'fixed')
        det0['p_pivot'] = pp
        try:
            with time_limit(240):
                m0 = build(name, cat[name], d, fp)
                check_symbolic(o, tag, m0, rng, det0, pp, params=fp)
                check_callable(o, tag, m0, rng, det0, False, pp)
        except Timeout:
            o.count('timeout')
        except Exception as e:
            raised(o, tag, e, det0)
    # fixed user curve (a helix: ldim = 1, pdim = 3), numeric and symbolic parameters
    hcls, hexprs = helix_class()
    for tag, vals in (('fixed:user-helix:1x3:rat', {'R': sympy.Integer(2), 'h': sympy.Rational(1, 2)}), ('fixed:user-helix:1x3:symbolic', {})):
        o.evaluations += 1
        o.count('fixed')
        detail = {'mapping': 'user subclass', 'ldim': 1, 'pdim': 3, 'expressions': hexprs, 'params': {a: str(b) for a, b in vals.items()}}
        try:
            with time_limit(120):
                m = hcls('H%d' % len(vals), **vals)
                check_symbolic(o, tag, m, rng, detail, params=vals)
                if vals:
                    check_callable(o, tag, m, rng, detail, False)
        except Timeout:
            o.count('timeout')
        except Exception as e:
            raised(o, tag, e, detail)
    # fixed user surfaces: the sheet x3 = 0 of a 3D catalogue mapping (ldim = 2, pdim = 3, formulas mentioning x3)
    for tag, name3, spec in SHEETS:
        if name3 not in cat:
            continue
        o.evaluations += 1
        o.count('fixed')
        scls, sexprs = sheet_class('Sheet' + name3, cat[name3])
        vals = {a: sympy.Rational(b) for a, b in spec.items()}
        detail = {'mapping': 'user subclass', 'ldim': 2, 'pdim': 3, 'expressions': sexprs, 'params': {a: str(b) for a, b in vals.items()}}
        try:
            with time_limit(120):
                m = scls('S' + name3[:3], **vals)
                check_symbolic(o, tag, m, rng, detail, params=vals)
                check_callable(o, tag, m, rng, detail, False)
        except Timeout:
            o.count('timeout')
        except Exception as e:
            raised(o, tag, e, detail)
    for name, cls, d, kind in todo:
        how = {}
        params = params_for(name, d, rng, kind, how)
        tag = '%s:%s:%s' % (name, dimstr(d), kind)
        detail = detail_of(name, d, params, how, kind)
        o.evaluations += 1
        o.count('class:' + name)
        o.count('kind:' + kind)
        o.count('dims:' + ('square' if isinstance(d, int) else 'ldim<pdim'))
        try:
            with time_limit(240):
                m = build(name, cls, d, params)
                if len(o.samples) < 4:
                    o.samples.append({'mapping': name, 'dim': d, 'params': detail['params'], 'metric_det': str(m.metric_det_expr)[:200]})
                check_symbolic(o, tag, m, rng, detail, params=params)
                check_callable(o, tag, m, rng, detail, ctx.thorough)
        except Timeout:
            o.count('timeout')
        except Exception as e:
            raised(o, tag, e, detail)
    # symbolic parameters (the objects the generated theorems are about; the ldim < pdim variants of the classes without a
    # fixed dimension are not among the generated theorem blocks: covered here only)
    for name, cls, dims in T.catalogue():
        for d in list(dims) + (RECT if cls._ldim is None else []):
            if not ctx.thorough and name == 'CzarnyMapping' and factor == 1 and ctx.seed % 2:
                continue
            o.evaluations += 1
            tag = '%s:%s:symbolic' % (name, dimstr(d))
            detail = {'mapping': name, 'dim': list(d) if not isinstance(d, int) else d, 'params': 'symbolic'}
            try:
                with time_limit(240):
                    m = build(name, cls, d, {})
                    check_symbolic(o, tag, m, rng, detail, params={})
            except Timeout:
                o.count('timeout')
            except Exception as e:
                raised(o, tag, e, detail)
    # user subclasses defined the same way
    for k in range((10 if ctx.thorough else 3) * factor):
        d = rng.choice(USER_DIMS)
        cls, vals, exprs = user_class(rng, 1000 + k, d)
        o.evaluations += 1
        o.count('class:user')
        o.count('dims:' + ('square' if isinstance(d, int) else 'ldim<pdim'))
        detail = {'mapping': 'user subclass', 'ldim': ldpd(d)[0], 'pdim': ldpd(d)[1], 'expressions': exprs, 'params': {a: str(b) for a, b in vals.items()}}
        try:
            with time_limit(120):
                m = cls('V%d' % k, **vals)
                check_symbolic(o, 'user:%s' % sorted(exprs.items()), m, rng, detail, params=vals)
                check_callable(o, 'user:%s' % sorted(exprs.items()), m, rng, detail, False)
        except Timeout:
            o.count('timeout')
        except Exception as e:
            raised(o, 'user:%s' % sorted(exprs.items()), e, detail)
    return o


def replay(ctx, path):
    import json
    d = json.load(open(path))
    print(json.dumps(d, indent=1)[:6000])
    det = d.get('detail') or {}
    name = det.get('mapping')
    cat = {n: (c, dims) for n, c, dims in T.catalogue()}
    m = None
    rparams = None
    try:
        if name in cat and (isinstance(det.get('params'), dict) or det.get('params') == 'symbolic'):
            import sympy
            if det.get('params') == 'symbolic':
                params = {}
            elif isinstance(det.get('how'), dict):
                params = {k: make_param(v, h) for k, (h, v) in det['how'].items()}
            else:       # replay files written before the parameter constructors were recorded
                params = {k: sympy.sympify(v) if not v.startswith('0.') and '.' not in v else float(v) for k, v in det['params'].items()}
            dim = det['dim'] if isinstance(det['dim'], int) else tuple(det['dim'])
            rparams = params
            m = build(name, cat[name][0], dim, params)
        elif name == 'user subclass' and isinstance(det.get('expressions'), dict):
            import sympy
            from sympde.topology.mapping import Mapping
            ex = det['expressions']
            ld = int(det.get('ldim', len(ex)))
            cls = type('ReplayMapping', (Mapping,), {'_expressions': ex, '_ldim': ld, '_pdim': int(det.get('pdim', len(ex)))})
            rparams = {k: sympy.sympify(v) for k, v in (det.get('params') or {}).items()}
            m = cls('R', **rparams)
    except Exception as e:
        print('REPRODUCED raises: the constructor raised %s: %s' % (type(e).__name__, e))
        print('VIOLATION property=%s replay=%s' % (PID, path))
        return 1
    if m is not None:
        o = Oracle()
        tag = 'replay'
        det = {k: v for k, v in det.items() if k in ('mapping', 'dim', 'kind', 'params', 'how', 'p_pivot', 'expressions', 'ldim', 'pdim')}
        for pp in (float(det.get('p_pivot', 0.3)), 1.0, 0.3, 0.0):
            try:
                check_symbolic(o, tag, m, ctx.rng, det, pp, params=rparams)
                if det.get('params') != 'symbolic' and (not getattr(m, '_constants', ()) or d.get('key', '').startswith(('callable-raises', 'raises'))):
                    check_callable(o, tag, m, ctx.rng, det, True, pp)
            except Exception as e:
                raised(o, tag, e, det)
            if o.failures:
                break
        for f in o.failures:
            print('REPRODUCED %s: %s' % (f['key'], f['what']))
        if not o.failures:
            print('not reproduced on the current tree')
            return 0
        print('VIOLATION property=%s replay=%s' % (PID, path))
        return 1
    return 0
