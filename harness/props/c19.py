"""C19 — exterior calculus: correspondence with Model/Exterior.lean and independent oracle."""
from harness.common import Corr, Oracle
from harness.sexp import A, dumps, loads_all

PID = 'C19'
PROPS_MODULE = 'SympdeModel.Props.C19'
RULE = ('random programs over differential forms (forms of every degree 0..n, n in 1..6, sums, constant '
        'multiples by integers/rationals/Constants from a small shared pool and their powers (c*c = c**2, c**3, '
        'c**-1, sqrt(c), (2*c)**2, (c*e)**3, b**c; in every fourth program also floating-point numbers 2.5, 0.5, '
        '-1.25, 0.5*c, all dyadic and sent to the model as the exact rational), d, delta, hodge, wedge, nesting depth <= 5/7) evaluated '
        'bottom-up with the real API; every operator application (op, canonical argument tree) is one case; '
        'non-trivial = the argument is a sum, a product or hits a short-cut (i.e. not merely wrapped in a node); '
        'distinct by serialised (op, argument)')
ASSUMPTIONS = [
    'sympy Add/Mul canonicalisation between two operator applications preserves the predicate "canonical linear '
    'combination of d-nodes" (isImg); asserted on every real output by the correspondence run, not proved',
    'semantic linearity (den) is checked by the oracle through re-evaluation + expand, the Lean theorems are the '
    'syntactic normal-form statements',
]


def _mods():
    from sympy import Add, Mul, Integer, Rational, Float, S
    from sympde.core import Constant
    from sympde.exterior import DifferentialForm, infere_type
    from sympde.exterior.calculus import (ExteriorDerivative, AdjointExteriorDerivative, Hodge,
                                          ExteriorProduct)
    return locals()


class Ser:
    """sympy/sympde exterior objects <-> S-expressions"""

    def __init__(self):
        self.m = _mods()
        self.others = {}

    def ser(self, e):
        m = self.m
        from sympy import Rational, Integer, Float
        if isinstance(e, int):
            return [A('num'), e, 1]
        if isinstance(e, Float):
            r = Rational(e)
            return [A('num'), int(r.p), int(r.q)]
        if isinstance(e, Rational):
            return [A('num'), int(e.p), int(e.q)]
        if isinstance(e, m['Constant']):
            return [A('cst'), e.name]
        if isinstance(e, m['DifferentialForm']):
            return [A('form'), str(e.name), int(e.index.index), int(e.dim)]
        if isinstance(e, m['Add']):
            return [A('add')] + [self.ser(a) for a in e.args]
        if isinstance(e, m['Mul']):
            return [A('mul')] + [self.ser(a) for a in e.args]
        if isinstance(e, m['ExteriorDerivative']):
            return [A('d'), self.ser(e.args[0])]
        if isinstance(e, m['AdjointExteriorDerivative']):
            return [A('delta'), self.ser(e.args[0])]
        if isinstance(e, m['Hodge']):
            return [A('hodge'), self.ser(e.args[0])]
        if isinstance(e, m['ExteriorProduct']):
            return [A('wedge'), self.ser(e.args[0]), self.ser(e.args[1])]
        s = [A('other'), type(e).__name__] + [self.ser(a) for a in getattr(e, 'args', ())]
        self.others[dumps(s)] = e
        return s

    def build(self, s):
        """rebuild a model output with the real classes (unevaluated nodes), letting sympy canonicalise"""
        m = self.m
        from sympy import Rational
        h = str(s[0])
        if h == 'num':
            return Rational(int(s[1]), int(s[2]))
        if h == 'cst':
            return m['Constant'](s[1])
        if h == 'form':
            return m['DifferentialForm'](s[1], int(s[2]), int(s[3]))
        if h == 'add':
            return m['Add'](*[self.build(a) for a in s[1:]])
        if h == 'mul':
            return m['Mul'](*[self.build(a) for a in s[1:]])
        if h == 'd':
            return m['ExteriorDerivative'](self.build(s[1]), evaluate=False)
        if h == 'delta':
            return m['AdjointExteriorDerivative'](self.build(s[1]), evaluate=False)
        if h == 'hodge':
            return m['Hodge'](self.build(s[1]), evaluate=False)
        if h == 'wedge':
            return m['ExteriorProduct'](self.build(s[1]), self.build(s[2]), evaluate=False)
        if h == 'other':
            return self.others[dumps(s)]
        raise ValueError('cannot rebuild %r' % (s,))


OPS = {'d': 'ExteriorDerivative', 'delta': 'AdjointExteriorDerivative', 'hodge': 'Hodge'}


class Gen:
    """random user-level programs; a program is a nested tuple"""

    def __init__(self, rng, n, maxdepth, degs=None, floats=False):
        # degs: the degrees the forms (leaves) are drawn from; None = all of 0..n
        # floats: about every second coefficient is a floating-point number (2.5, 0.5, -1.25, 0.5*c) and
        # every numeric coefficient is dyadic (denominators 2, 4, 8 instead of 2, 3, 7), so that all the
        # floating-point arithmetic sympy does on the coefficients is exact and a Float stands for
        # exactly one rational (Ser sends it as that rational; Concrete computes with it)
        self.rng, self.n, self.maxdepth, self.degs, self.floats = rng, n, maxdepth, degs, floats

    POOL = ('c1', 'c2', 'c3')
    FLOATS = ('2.5', '0.5', '-1.25', '1.5', '-0.25', '0.75', '3.0', '-2.0')

    def fresh(self):
        """a Constant name never used elsewhere (in this generator)"""
        self.k = getattr(self, 'k', 0) + 1
        return 'b%d' % self.k

    def cst(self):
        """mostly a Constant of a small pool shared by all generators: a repeated one meets itself in
        products, which sympy turns into powers (c1*(c1*u) = c1**2*u, the shape of the former finding
        C19-coef-pow); sometimes a fresh one"""
        return self.rng.choice(self.POOL) if self.rng.random() < 0.75 else self.fresh()

    def coef(self, depth=0):
        """constant coefficient.  Exponents of pool Constants are numbers, so that products of powers of
        one Constant stay a Pow of (Constant, number) — c**e * c = c**(e + 1) has a sum as exponent, which
        neither sympde.calculus.core.is_constant nor the exterior calculus calls a constant; a Constant
        exponent is only given to a fresh base, which cannot merge with anything"""
        r = self.rng
        if self.floats:
            k = r.random()
            if k < 0.35:      # a floating-point number: 2.5*u (python float), Float('0.5')*u
                return ('flt', r.choice(self.FLOATS))
            if k < 0.5:       # a floating-point multiple of a Constant: 0.5*c
                return ('fmul', r.choice(self.FLOATS), self.cst())
        k = r.random()
        if k < 0.25:
            return ('int', r.choice([-3, -2, -1, 2, 3, 5]))
        if k < 0.35:
            return ('rat', r.choice([1, -1, 3, 5]), r.choice([2, 4, 8] if self.floats else [2, 3, 7]))
        if k < 0.55:
            return ('cst', self.cst())
        if k < 0.67:      # product of two: c*2, c*e, c*c (= c**2)
            a = self.cst()
            return ('cc', a, r.choice([2, -1, self.cst(), a]))
        if k < 0.85:      # explicit power of a Constant: c**2, c**3, c**-1, c**-2, sqrt(c), c**(3/2)
            return ('pow', self.cst(), r.choice([('int', 2), ('int', 2), ('int', 3), ('int', -1), ('int', -2),
                                                  ('rat', 1, 2), ('rat', 3, 2)]))
        if k < 0.9:       # fresh base, Constant exponent: b**c
            return ('pow', self.fresh(), ('cst', self.cst()))
        if depth < 1:     # power of a composite coefficient: (2*c)**2 = 4*c**2, (c*e)**3 = c**3*e**3
            inner = self.coef(depth + 1)
            if not (inner[0] == 'pow' and inner[2][0] == 'cst'):   # (b**c)**2 = b**(2*c): product as exponent
                return ('npow', inner, r.choice([2, 2, 3]))
        return ('cst', self.cst())

    def form(self, k=None):
        r = self.rng
        if k is None:
            k = r.choice(self.degs) if self.degs else r.randint(0, self.n)
        # the name encodes degree and dimension: DifferentialForm compares by name only (a
        # same-named form of another dimension met earlier in the interpreter would be
        # substituted by sympy's cache — that history leak is a C12 matter, kept out of C19)
        return ('form', '%s%d_%d' % (r.choice('uvwz'), k, self.n), k)

    def prog(self, depth=0):
        r = self.rng
        if depth >= self.maxdepth or r.random() < 0.12 + 0.08 * depth:
            return self.form()
        k = r.random()
        if k < 0.2:
            return ('add', [self.prog(depth + 1) for _ in range(r.choice([2, 2, 3]))])
        if k < 0.4:
            return ('cmul', self.coef(), self.prog(depth + 1))
        if k < 0.58:
            return ('d', self.prog(depth + 1))
        if k < 0.72:
            return ('delta', self.prog(depth + 1))
        if k < 0.88:
            return ('hodge', self.prog(depth + 1))
        return ('wedge', self.prog(depth + 1), self.prog(depth + 1))

    def chain(self):
        """a word of 2..4 operators over a linear combination of forms of the extreme degrees (0 and n,
        where d resp. delta have their short-cuts): the degree of every intermediate expression is
        reached through the operators only and differs from the degree of the form atoms inside —
        d(hodge(u_n)), delta(hodge(z_0)), d(c*delta(u_n + 2*v_n)), hodge(d(hodge(u_n))); sometimes with
        a coefficient between two operators and a summand of the same degree next to the argument of the
        last operator (d(hodge(u_n) + wedge(f_0, g_0)): a lost term stays unnoticed in the sum)"""
        r = self.rng
        k0 = r.choice([self.n, self.n, 0])
        p = self.lin(lambda k: k == k0)
        ops = [r.choice(['hodge', 'hodge', 'delta' if k0 else 'd'])]
        for _ in range(r.choice([1, 1, 2, 3])):
            ops.append(r.choice([o for o in ('d', 'delta', 'hodge') if o != ops[-1] or o == 'hodge']))
        for i, op in enumerate(ops):
            if i and r.random() < 0.3:
                p = ('cmul', self.coef(), p)
            if i == len(ops) - 1 and r.random() < 0.35:
                k = degree(p, self.n)
                if k != 'refused' and 0 <= k <= self.n:
                    j = r.randint(0, k)
                    other = self.form(k) if r.random() < 0.4 else ('wedge', self.form(j), self.form(k - j))
                    p = ('add', [p, other])
            p = (op, p)
        return p

    def lin(self, pred, terms=None):
        """linear combination of forms whose degree satisfies pred"""
        r = self.rng
        ks = [k for k in range(self.n + 1) if pred(k)]
        ts = []
        for _ in range(terms or r.choice([1, 2, 3])):
            f = self.form(r.choice(ks))
            ts.append(f if r.random() < 0.3 else ('cmul', self.coef(), f))
        if len(ts) == 1:
            return ts[0]
        p = ('add', ts)
        if r.random() < 0.3:
            p = ('cmul', self.coef(), p)
        return p


class Runner:
    """evaluates programs with the real API and records every operator application"""

    def __init__(self, n):
        self.m = _mods()
        self.n = n
        self.apps = []    # (op, [args], result | exception name)

    def coef(self, c):
        m = self.m
        if c[0] == 'int':
            return m['Integer'](c[1])
        if c[0] == 'rat':
            return m['Rational'](c[1], c[2])
        if c[0] == 'cst':
            return m['Constant'](c[1])
        if c[0] == 'flt':
            return m['Float'](c[1])
        if c[0] == 'fmul':
            return m['Float'](c[1]) * m['Constant'](c[2])
        if c[0] == 'pow':
            return m['Constant'](c[1]) ** self.coef(c[2])
        if c[0] == 'npow':
            return self.coef(c[1]) ** c[2]
        b = m['Constant'](c[2]) if isinstance(c[2], str) else m['Integer'](c[2])
        return m['Constant'](c[1]) * b

    def apply(self, op, *args):
        m = self.m
        cls = {'d': m['ExteriorDerivative'], 'delta': m['AdjointExteriorDerivative'],
               'hodge': m['Hodge'], 'wedge': m['ExteriorProduct']}[op]
        from sympy import sympify
        r = sympify(cls(*args))      # the API returns the Python int 0 in several branches
        self.apps.append((op, args, r))
        return r

    def run(self, p):
        m = self.m
        h = p[0]
        if h == 'form':
            return m['DifferentialForm'](p[1], p[2], self.n)
        if h == 'add':
            return m['Add'](*[self.run(a) for a in p[1]])
        if h == 'cmul':
            return self.coef(p[1]) * self.run(p[2])
        if h in ('d', 'delta', 'hodge'):
            return self.apply(h, self.run(p[1]))
        if h == 'wedge':
            return self.apply('wedge', self.run(p[1]), self.run(p[2]))
        raise ValueError(h)


def degree(p, n):
    """independent degree arithmetic on the user-level program: an int in 0..6, or 'refused'
    (a sum of different degrees, or a degree outside the registry 0..6 somewhere inside)"""
    h = p[0]
    if h == 'form':
        return p[2]
    if h == 'add':
        ds = {degree(a, n) for a in p[1]}
        if 'refused' in ds or len(ds) != 1:
            return 'refused'
        return ds.pop()
    if h == 'cmul':
        return degree(p[2], n)
    if h == 'wedge':
        a, b = degree(p[1], n), degree(p[2], n)
        if 'refused' in (a, b):
            return 'refused'
        r = a + b
    else:
        a = degree(p[1], n)
        if a == 'refused':
            return a
        r = {'d': a + 1, 'delta': a - 1, 'hodge': n - a}[h]
    return r if 0 <= r <= 6 else 'refused'


def coef_str(c):
    if c[0] == 'int':
        return str(c[1])
    if c[0] == 'rat':
        return '(%d/%d)' % (c[1], c[2])
    if c[0] == 'cst':
        return c[1]
    if c[0] == 'flt':
        return 'Float(%s)' % c[1]
    if c[0] == 'fmul':
        return 'Float(%s)*%s' % (c[1], c[2])
    if c[0] == 'pow':
        return '%s**%s' % (c[1], coef_str(c[2]))
    if c[0] == 'npow':
        return '(%s)**%d' % (coef_str(c[1]), c[2])
    return '%s*%s' % (c[1], c[2])


def prog_str(p):
    h = p[0]
    if h == 'form':
        return p[1]
    if h == 'add':
        return '(' + ' + '.join(prog_str(a) for a in p[1]) + ')'
    if h == 'cmul':
        return '%s*%s' % (coef_str(p[1]), prog_str(p[2]))
    if h == 'wedge':
        return 'wedge(%s, %s)' % (prog_str(p[1]), prog_str(p[2]))
    return '%s(%s)' % (h, prog_str(p[1]))


def defloat(e, m):
    """every Float replaced by the rational it is exactly (2.5 -> 5/2); operator nodes are rebuilt
    unevaluated, so nothing the implementation left unevaluated gets evaluated on the way"""
    from sympy import Float, Rational, sympify
    e = sympify(e)
    if isinstance(e, Float):
        return Rational(e)
    if not e.args or not e.atoms(Float):
        return e
    args = [defloat(a, m) for a in e.args]
    if isinstance(e, (m['ExteriorDerivative'], m['AdjointExteriorDerivative'], m['Hodge'], m['ExteriorProduct'])):
        return type(e)(*args, evaluate=False)
    return e.func(*args)


def has_float(p):
    """the program has a floating-point coefficient"""
    return isinstance(p, (tuple, list)) and (p[:1] in (('flt',), ('fmul',)) or any(has_float(a) for a in p))


# programs with floating-point coefficients (fixed corpus of the oracle and of the correspondence run)
_U13, _W13 = ('form', 'u1_3', 1), ('form', 'w1_3', 1)
FLOAT_CORPUS = [
    (3, ('cmul', ('flt', '2.5'), _U13)),
    (3, ('d', ('cmul', ('flt', '2.5'), _U13))),
    (3, ('delta', ('cmul', ('flt', '0.5'), ('form', 'w2_3', 2)))),
    (2, ('hodge', ('cmul', ('flt', '-1.25'), ('form', 'u1_2', 1)))),
    (3, ('cmul', ('flt', '-1.25'), ('add', [_U13, _W13]))),
    (3, ('cmul', ('fmul', '0.5', 'c'), _U13)),
    (3, ('d', ('cmul', ('flt', '2.5'), ('d', _U13)))),
    (3, ('add', [('cmul', ('flt', '2.5'), ('d', _U13)), ('cmul', ('flt', '0.5'), ('form', 'w2_3', 2))])),
    (4, ('wedge', ('cmul', ('flt', '2.5'), ('form', 'u1_4', 1)), ('cmul', ('fmul', '0.5', 'c'), ('form', 'w2_4', 2)))),
    (3, ('hodge', ('d', ('cmul', ('flt', '0.75'), ('hodge', ('form', 'u3_3', 3)))))),
]


def correspondence(ctx):
    c = Corr()
    ser = Ser()
    m = ser.m
    nprog = 600 if ctx.thorough else 120
    maxdepth = 7 if ctx.thorough else 5
    cases = []     # (kind, line, payload)
    seen = set()
    # fixed corpus first: every operator twice on each program with floating-point coefficients
    corpus = [(n, (op, (op, p))) for n, p in FLOAT_CORPUS for op in ('d', 'delta', 'hodge')]
    for i in range(-len(corpus), nprog):
        if i < 0:
            n, p = corpus[i]
        n = ctx.rng.randint(1, 6) if i >= 0 else n
        # every fourth program has floating-point coefficients (dyadic, so a Float is exactly the rational
        # the model gets for it; the real output is compared after the same replacement)
        g = Gen(ctx.rng, n, maxdepth, floats=(i % 4 == 3))
        p = g.prog() if i >= 0 else p
        r = Runner(n)
        try:
            v = r.run(p)
        except Exception as e:   # the real API refused a program of the language
            c.disagreements.append({'input': prog_str(p), 'impl': 'raised %r' % (e,), 'model': 'total', 'note': 'run'})
            continue
        for op, args, res in r.apps:
            sargs = [ser.ser(a) for a in args]
            if op == 'wedge':
                line = 'C19 wedge %s %s' % (dumps(sargs[0]), dumps(sargs[1]))
            else:
                line = 'C19 eval %s %s' % (op, dumps(sargs[0]))
            if line in seen:
                continue
            seen.add(line)
            cases.append(('eval', line, (op, args, res, sargs)))
            if op in ('d', 'delta'):
                cases.append(('glue', 'C19 preds %s %s' % (op, dumps(sargs[0])), (op, args, res, 'in')))
                cases.append(('glue', 'C19 preds %s %s' % (op, dumps(ser.ser(res))), (op, args, res, 'out')))
            # degree inference on the result and on the (unevaluated) node
            for val in (res,):
                try:
                    t = m['infere_type'](val)
                    impl = 'ok None' if t is None else 'ok %d' % t.index
                except Exception as e:
                    impl = 'err ' + type(e).__name__
                l2 = 'C19 infer %s' % dumps(ser.ser(val))
                if l2 not in seen:
                    seen.add(l2)
                    cases.append(('infer', l2, impl))
    outs = ctx.driver.run([x[1] for x in cases])
    glue_in = {}
    for (kind, line, payload), out in zip(cases, outs):
        c.evaluations += 1
        c.count('kind:' + kind)
        if kind == 'eval':
            op, args, res, sargs = payload
            c.count('op:' + op)
            head = str(sargs[0][0])
            c.count('arg:' + head)
            if '(other "Pow"' in line:
                c.count('arg-has-coef-power')
            if any(a.atoms(m['Float']) for a in args):
                c.count('arg-has-float-coef')
            if not out.startswith('ok '):
                c.disagreements.append({'input': line, 'impl': str(res), 'model': out, 'note': 'model refused'})
                continue
            mres = ser.build(loads_all(out[3:])[0])
            if mres != defloat(res, m):
                c.disagreements.append({'input': line, 'impl': str(res), 'model': str(mres), 'note': 'value'})
            # non-trivial: result is not just the unevaluated node around the argument
            cls = type(res).__name__
            wrapped = (op != 'wedge' and cls == OPS[op] and res.args[0] == args[0]) or \
                      (op == 'wedge' and cls == 'ExteriorProduct' and res.args == tuple(args))
            if not wrapped:
                c.nontrivial.add(line)
            if len(c.samples) < 6 and not wrapped:
                c.samples.append({'request': line, 'impl': str(res), 'model': out})
        elif kind == 'glue':
            op, args, res, which = payload
            vals = loads_all(out[3:])[0] if out.startswith('ok ') else None
            if vals is None:
                c.disagreements.append({'input': line, 'impl': '', 'model': out, 'note': 'preds refused'})
                continue
            iz, img, wf = [str(x) == 'true' for x in vals]
            if which == 'in':
                glue_in[(op, id(res))] = wf
            else:
                if glue_in.get((op, id(res))) and not img:
                    c.disagreements.append({'input': line, 'impl': str(res), 'model': 'isImg=false',
                                            'note': 'glue: real output of %s on a well-formed argument is not a canonical image' % op})
                c.count('glue:img' if img else 'glue:not-wf-arg')
        else:
            if out != payload:
                c.disagreements.append({'input': line, 'impl': payload, 'model': out, 'note': 'infer'})
            c.count('infer:' + payload.split()[0] + ':' + (payload.split()[1] if payload.startswith('err') else ''))
            if payload != 'ok None':
                c.nontrivial.add(line)
    return c


def renorm(e, m):
    """re-apply every operator node bottom-up (so lazily un-normalised results are forgiven), then expand"""
    from sympy import Add, Mul
    if not getattr(e, 'args', None) or isinstance(e, m['DifferentialForm']):
        return e
    args = [renorm(a, m) for a in e.args]
    if isinstance(e, (m['ExteriorDerivative'], m['AdjointExteriorDerivative'], m['Hodge'], m['ExteriorProduct'])):
        return type(e)(*args)
    return e.func(*args)


def renorm_fix(e, m):
    from sympy import expand, sympify
    e = sympify(e)
    for _ in range(8):
        e2 = expand(renorm(e, m))
        if e2 == e:
            break
        e = e2
    return e


def same(a, b, m):
    from sympy import expand
    return expand(renorm_fix(a, m) - renorm_fix(b, m)) == 0


def deg_value(v, n, m):
    """independent degree arithmetic on a returned expression: int in 0..6 or 'refused'"""
    from sympy import Add, Mul
    if isinstance(v, m['DifferentialForm']):
        r = int(v.index.index)
    elif isinstance(v, Add):
        ds = {deg_value(a, n, m) for a in v.args}
        if 'refused' in ds or len(ds) != 1:
            return 'refused'
        return ds.pop()
    elif isinstance(v, Mul):
        # the spec's own notion of a constant factor: it contains no differential form at all
        # (numbers, Constants, any power / function of those) — independent of the registry test
        vs = [a for a in v.args if a.atoms(m['DifferentialForm'])]
        if len(vs) != 1:
            return None
        return deg_value(vs[0], n, m)
    elif isinstance(v, m['ExteriorProduct']):
        a, b = deg_value(v.args[0], n, m), deg_value(v.args[1], n, m)
        if 'refused' in (a, b) or None in (a, b):
            return 'refused' if 'refused' in (a, b) else None
        r = a + b
    elif isinstance(v, (m['ExteriorDerivative'], m['AdjointExteriorDerivative'], m['Hodge'])):
        a = deg_value(v.args[0], n, m)
        if a == 'refused' or a is None:
            return a
        r = a + 1 if isinstance(v, m['ExteriorDerivative']) else (a - 1 if isinstance(v, m['AdjointExteriorDerivative']) else n - a)
    else:
        return None
    return r if 0 <= r <= 6 else 'refused'


class Outside(Exception):
    """the expression is outside the language the concrete model interprets"""


class Concrete:
    """An explicit model of the exterior algebra, the ground truth of the `concrete:` cases.

    Every DifferentialForm symbol `name` of degree k stands for one fixed k-form on R^n whose
    components are polynomials (a dict: increasing index tuple I -> polynomial, a polynomial being a
    dict: exponent tuple -> Fraction); every Constant stands for a fixed positive rational (a perfect
    square, so that c**(1/2), c**(3/2) stay rational).  d (sum_i dx_i ^ d/dx_i), the Euclidean Hodge
    star (dx_I -> sign(I, J) dx_J with J the complement), delta = (-1)^(n(k+1)+1) * d * on the
    k-component and the wedge product are computed by hand on these dicts, component by component
    (so sums of different degrees need no special care).  Nothing of sympde is used except the
    classes of the returned expression tree, which `interp` reads.

    The laws sympde applies (d d = 0, delta delta = 0, d of an n-form, delta of a 0-form,
    ** = (-1)^(k(n-k)), linearity over constants, bilinearity of the wedge) hold exactly in this model,
    so a correct evaluation never differs; the arithmetic is exact (Fractions), so there is no
    tolerance.  A value that is 0 in the model only because the polynomials ran out of degree costs
    sensitivity, never soundness; the degrees are chosen so that 5 nested derivatives survive."""

    def __init__(self, n, m):
        self.n, self.m = n, m
        self.forms, self.consts, self.memo = {}, {}, {}

    # --- polynomials -------------------------------------------------------------------------
    @staticmethod
    def padd(p, q, s=1):
        out = dict(p)
        for e, c in q.items():
            v = out.get(e, 0) + s * c
            if v:
                out[e] = v
            else:
                out.pop(e, None)
        return out

    @staticmethod
    def pmul(p, q):
        out = {}
        for e, c in p.items():
            for f, b in q.items():
                g = tuple(x + y for x, y in zip(e, f))
                v = out.get(g, 0) + c * b
                if v:
                    out[g] = v
                else:
                    out.pop(g, None)
        return out

    @staticmethod
    def pdiff(p, i):
        out = {}
        for e, c in p.items():
            if e[i]:
                out[e[:i] + (e[i] - 1,) + e[i + 1:]] = c * e[i]
        return out

    @staticmethod
    def sign(seq):
        s = 1
        for i in range(len(seq)):
            for j in range(i + 1, len(seq)):
                if seq[i] > seq[j]:
                    s = -s
        return s

    # --- forms ---------------------------------------------------------------------------------
    def put(self, out, I, p, s=1):
        q = self.padd(out.get(I, {}), p, s)
        if q:
            out[I] = q
        else:
            out.pop(I, None)

    def add(self, *fs):
        out = {}
        for f in fs:
            for I, p in f.items():
                self.put(out, I, p)
        return out

    def scale(self, c, f):
        return {I: {e: c * v for e, v in p.items()} for I, p in f.items()} if c else {}

    def d(self, f):
        out = {}
        for I, p in f.items():
            for i in range(self.n):
                if i in I:
                    continue
                dp = self.pdiff(p, i)
                if dp:
                    self.put(out, tuple(sorted(I + (i,))), dp, self.sign((i,) + I))
        return out

    def hodge(self, f):
        out = {}
        for I, p in f.items():
            J = tuple(i for i in range(self.n) if i not in I)
            self.put(out, J, p, self.sign(I + J))
        return out

    def delta(self, f):
        out = {}
        for I, p in f.items():
            g = self.hodge(self.d(self.hodge({I: p})))
            for J, q in g.items():
                self.put(out, J, q, (-1) ** (self.n * (len(I) + 1) + 1))
        return out

    def wedge(self, f, g):
        out = {}
        for I, p in f.items():
            for J, q in g.items():
                if set(I) & set(J):
                    continue
                self.put(out, tuple(sorted(I + J)), self.pmul(p, q), self.sign(I + J))
        return out

    def generic(self, name, k):
        """the k-form a DifferentialForm symbol stands for: every component has the monomial
        (x1*...*xn)**E (so no partial derivative of it vanishes) and two random ones; fixed by
        (name, k, n) alone"""
        import random
        from fractions import Fraction
        from itertools import combinations
        key = (name, k)
        if key not in self.forms:
            rng = random.Random('C19/concrete/%s/%d/%d' % (name, k, self.n))
            E = max(2, 7 - self.n)
            f = {}
            for I in combinations(range(self.n), k):
                p = {(E,) * self.n: Fraction(rng.randint(1, 5))}
                for _ in range(2):
                    e = tuple(rng.randint(0, E) for _ in range(self.n))
                    p[e] = p.get(e, 0) + Fraction(rng.randint(1, 5))
                f[I] = p
            self.forms[key] = f
        return self.forms[key]

    def const(self, e):
        """value of a factor without differential forms: Constants -> 4, 9, 16, ... (in the order they
        are met), then sympy's own arithmetic on numbers"""
        from fractions import Fraction
        from sympy import Symbol, Integer, Float, Rational, sympify
        e = sympify(e)
        # a floating-point number is the rational it is exactly (2.5 = 5/2): the arithmetic stays exact
        e = e.xreplace({f: Rational(f) for f in e.atoms(Float)})
        for s in sorted(e.atoms(Symbol), key=str):
            if s not in self.consts:
                self.consts[s] = Integer((len(self.consts) + 2) ** 2)
        v = e.xreplace(self.consts)
        if not v.is_Rational:
            raise Outside(str(e))
        return Fraction(int(v.p), int(v.q))

    def interp(self, e):
        """the form an expression returned by (or passed to) the API denotes"""
        from sympy import Add, Mul, sympify
        m = self.m
        e = sympify(e)
        if e in self.memo:
            return self.memo[e]
        if e == 0:
            r = {}
        elif isinstance(e, m['DifferentialForm']):
            if int(e.dim) != self.n:
                raise Outside(str(e))
            r = self.generic(str(e.name), int(e.index.index))
        elif isinstance(e, m['ExteriorDerivative']):
            r = self.d(self.interp(e.args[0]))
        elif isinstance(e, m['AdjointExteriorDerivative']):
            r = self.delta(self.interp(e.args[0]))
        elif isinstance(e, m['Hodge']):
            r = self.hodge(self.interp(e.args[0]))
        elif isinstance(e, m['ExteriorProduct']):
            r = self.wedge(self.interp(e.args[0]), self.interp(e.args[1]))
        elif isinstance(e, Add):
            r = self.add(*[self.interp(a) for a in e.args])
        elif isinstance(e, Mul):
            vs = [a for a in e.args if a.atoms(m['DifferentialForm'])]
            if len(vs) != 1:
                raise Outside(str(e))
            r = self.scale(self.const(Mul(*[a for a in e.args if a is not vs[0]])), self.interp(vs[0]))
        else:
            raise Outside(str(e))
        self.memo[e] = r
        return r

    def show(self, f):
        """short description of a form of the model"""
        if not f:
            return '0'
        ks = sorted({len(I) for I in f})
        I = min(f)
        mono = ' + '.join('%s*%s' % (c, '*'.join('x%d^%d' % (i + 1, x) for i, x in enumerate(e) if x) or '1')
                          for e, c in sorted(f[I].items(), reverse=True)[:3])
        return 'a nonzero form of degree %s with %d component(s), e.g. the coefficient of %s is %s%s' % (
            '/'.join(map(str, ks)), len(f), '^'.join('dx%d' % (i + 1) for i in I) or '1', mono,
            ' + ...' if len(f[I]) > 3 else '')


def concrete_selftest(m):
    """the model against identities the implementation does not use (Leibniz rule, graded commutativity) and
    against the laws it does; a failure is an error of the harness (the oracle crashes: exit 2), never a verdict"""
    for n in range(1, 5):
        cm = Concrete(n, m)
        for k in range(n + 1):
            f, g = cm.generic('u', k), cm.generic('v', k)
            assert cm.d(cm.d(f)) == {} and cm.delta(cm.delta(f)) == {}
            assert cm.hodge(cm.hodge(f)) == cm.scale((-1) ** (k * (n - k)), f)
            assert (cm.d(f) != {}) == (k < n) and (cm.delta(f) != {}) == (k > 0)
            assert cm.d(cm.add(cm.scale(3, f), g)) == cm.add(cm.scale(3, cm.d(f)), cm.d(g))
            for l in range(n + 1 - k):
                h = cm.generic('w', l)
                assert cm.d(cm.wedge(f, h)) == cm.add(cm.wedge(cm.d(f), h), cm.scale((-1) ** k, cm.wedge(f, cm.d(h))))
                assert cm.wedge(f, h) == cm.scale((-1) ** (k * l), cm.wedge(h, f))


def concrete_check(o, n, apps, m, label=''):
    """every recorded operator application (op, args, result) against the concrete model:
    op_model(interp(args)) == interp(result).  One failing application = one failing input."""
    cm = Concrete(n, m)
    for op, args, res in apps:
        try:
            vals = [cm.interp(a) for a in args]
            got = cm.interp(res)
        except Outside:
            o.count('concrete:outside-language')
            continue
        want = getattr(cm, op)(*vals)
        o.count('concrete:' + op)
        o.count('concrete:value-' + ('nonzero' if want else 'zero'))
        if want != got:
            call = '%s(%s)' % (op, ', '.join(str(a) for a in args))
            o.fail('concrete:%d:%s' % (n, call),
                   '%s (dim %d) returned %s, which is not the value of the expression: with every form symbol read '
                   'as an explicit polynomial form on R^%d, %s is %s, the returned expression is %s%s'
                   % (call, n, res, n, call, cm.show(want), cm.show(got), label),
                   dim=n, call=call, returned=str(res))


def oracle(ctx, factor, seeds):
    o = Oracle()
    m = _mods()
    from sympy import expand, Integer
    nprog = (400 if ctx.thorough else 80) * factor
    maxdepth = 7 if ctx.thorough else 5
    D, DL, H, W = m['ExteriorDerivative'], m['AdjointExteriorDerivative'], m['Hodge'], m['ExteriorProduct']
    fixed = [  # regression corpus: shapes that failed before the fix commit
        (3, ('cmul', ('int', 2), ('form', 'u1_3', 1))),
        (3, ('d', ('cmul', ('int', 2), ('form', 'u1_3', 1)))),
        (3, ('cmul', ('cst', 'c'), ('add', [('form', 'u1_3', 1), ('form', 'w1_3', 1)]))),
        (2, ('hodge', ('cmul', ('rat', 1, 2), ('form', 'u1_2', 1)))),
    ]
    fixed += [  # shapes of the fixed finding C19-coef-pow: coefficients that are powers of Constants
        (3, ('cmul', ('cst', 'c'), ('cmul', ('cst', 'c'), ('form', 'u1_3', 1)))),
        (3, ('cmul', ('pow', 'c', ('int', 2)), ('add', [('form', 'u1_3', 1), ('form', 'w1_3', 1)]))),
        (3, ('d', ('cmul', ('pow', 'c', ('int', 3)), ('form', 'u1_3', 1)))),
        (2, ('hodge', ('cmul', ('npow', ('cc', 'c', 2), 2), ('form', 'u1_2', 1)))),
        (3, ('add', [('cmul', ('pow', 'c', ('int', 2)), ('d', ('form', 'u1_3', 1))),
                     ('cmul', ('pow', 'c', ('int', 2)), ('form', 'w1_3', 1))])),
        (4, ('wedge', ('cmul', ('pow', 'c', ('int', -1)), ('form', 'u1_4', 1)),
             ('cmul', ('pow', 'c', ('rat', 1, 2)), ('form', 'w2_4', 2)))),
    ]
    # operators whose argument reaches its degree only through other operators, over forms of the
    # extreme degrees n and 0 (where d resp. delta have a short-cut that is right for the forms themselves
    # and for their linear combinations only): d(hodge(u_n)) is d of a 0-form, delta(hodge(z_0)) is delta of
    # an n-form, d(delta(u_n)), delta(d(z_0)) — none of them is 0.  Judged by the concrete model.
    def F(ch, k, n):
        return ('form', '%s%d_%d' % (ch, k, n), k)
    for n in (1, 2, 3, 4, 6):
        fixed += [(n, ('d', ('hodge', F('u', n, n)))), (n, ('delta', ('hodge', F('z', 0, n))))]
    for n in (2, 3):
        un, vn, z0, w0 = F('u', n, n), F('v', n, n), F('z', 0, n), F('w', 0, n)
        fixed += [
            (n, ('d', ('cmul', ('cst', 'c'), ('hodge', un)))),
            (n, ('d', ('hodge', ('add', [un, ('cmul', ('int', 3), vn)])))),
            (n, ('d', ('delta', un))),
            (n, ('hodge', ('d', ('hodge', un)))),
            (n, ('d', ('add', [('hodge', un), ('wedge', z0, w0)]))),
            (n, ('d', ('add', [('cmul', ('pow', 'c', ('int', 2)), ('hodge', un)), ('delta', F('v', 1, n))]))),
            (n, ('delta', ('d', z0))),
            (n, ('delta', ('cmul', ('rat', 1, 2), ('hodge', ('add', [z0, w0]))))),
            (n, ('delta', ('add', [('hodge', z0), ('wedge', un, w0)]))),
            (n, ('d', ('d', ('hodge', un)))),          # these two are 0
            (n, ('d', ('add', [('cmul', ('int', 2), un), vn]))),
        ]
    # floating-point coefficients (python floats, sympy Floats, a Float times a Constant): constants like any
    # other.  All of them dyadic, so the laws hold exactly (no rounding anywhere).
    fixed += FLOAT_CORPUS
    progs = list(fixed)
    concrete_selftest(m)
    # witness of the finding C19-coef-pow (fixed by 5022685: a power of a Constant was not recognised as
    # a coefficient); kept under its key, so the violation is reported if the behaviour returns
    c = m['Constant']('c')
    u13 = m['DifferentialForm']('u1_3', 1, 3)
    w13 = m['DifferentialForm']('w1_3', 1, 3)
    t33 = m['DifferentialForm']('t3_3', 3, 3)
    z03 = m['DifferentialForm']('z0_3', 0, 3)
    o.evaluations += 1
    o.count('witness:coef-pow')
    if H(H(c * (c * u13))) != c ** 2 * u13:
        o.fail('coef-pow:hodge(hodge(c*(c*u1_3)))', 'hodge(hodge(c**2*u)) stays unevaluated: a power of a Constant is not recognised as a constant coefficient (same for d/delta linearity)',
               got=str(H(H(c * (c * u13)))))
    for key, got, want in (
            ('coef-pow:d(c**2*(u+w))', lambda: D(c ** 2 * (u13 + w13)), c ** 2 * (D(u13) + D(w13))),
            ('coef-pow:delta(c**2*(u+w))', lambda: DL(c ** 2 * (u13 + w13)), c ** 2 * (DL(u13) + DL(w13))),
            ('coef-pow:hodge(c**2*(u+w))', lambda: H(c ** 2 * (u13 + w13)), c ** 2 * (H(u13) + H(w13))),
            ('coef-pow:d(c**2*top)', lambda: D(c ** 2 * t33), 0),
            ('coef-pow:delta(c**2*z0)', lambda: DL(c ** 2 * z03), 0),
            ('coef-pow:wedge(c**2*u,c**3*w)', lambda: W(c ** 2 * u13, c ** 3 * w13), c ** 5 * W(u13, w13, evaluate=False)),
            ('coef-pow:infer(c**2*u)', lambda: m['infere_type'](c ** 2 * u13).index, 1)):
        o.evaluations += 1
        o.count('witness:coef-pow')
        try:
            g_ = got()
        except Exception as e:
            g_ = type(e).__name__
        if g_ != want:
            o.fail(key, '%s: got %s, expected %s (a power of a Constant is a constant coefficient)' % (key, g_, want), got=str(g_))
    # floating-point coefficients, direct witnesses with stable keys: the expected value is written down from
    # the law with unevaluated operator nodes around the bare form (seeded change C19-10 made the coefficient
    # test reject every Number that is not Rational, Floats included)
    from sympy import Float, sympify
    ca = m['Constant']('a')
    u23 = m['DifferentialForm']('u2_3', 2, 3)
    N = lambda cls, *a: cls(*a, evaluate=False)
    for key, got, want in (
            ('coef-float:d(2.5*u)', lambda: D(2.5 * u13), 2.5 * N(D, u13)),
            ('coef-float:delta(Float(0.5)*u)', lambda: DL(Float('0.5') * u13), Float('0.5') * N(DL, u13)),
            ('coef-float:hodge(-1.25*u)', lambda: H(-1.25 * u13), -1.25 * N(H, u13)),
            ('coef-float:d(0.5*a*(u+w))', lambda: D(0.5 * ca * (u13 + w13)), 0.5 * ca * N(D, u13) + 0.5 * ca * N(D, w13)),
            ('coef-float:d(d(2.5*u))', lambda: D(D(2.5 * u13)), 0),
            ('coef-float:delta(delta(2.5*u2))', lambda: DL(DL(2.5 * u23)), 0),
            ('coef-float:d(2.5*d(u))', lambda: D(2.5 * N(D, u13)), 0),
            ('coef-float:d(2.5*top)', lambda: D(2.5 * t33), 0),
            ('coef-float:delta(0.5*z0)', lambda: DL(0.5 * z03), 0),
            ('coef-float:hodge(hodge(2.5*u))', lambda: H(H(2.5 * u13)), 2.5 * u13),
            ('coef-float:hodge(hodge(0.5*a*u2))', lambda: H(H(0.5 * ca * u23)), 0.5 * ca * u23),
            ('coef-float:wedge(2.5*u,0.5*w)', lambda: W(2.5 * u13, 0.5 * w13), 1.25 * N(W, u13, w13)),
            ('coef-float:infer(d(2.5*u))', lambda: m['infere_type'](D(2.5 * u13)).index, 2),
            ('coef-float:infer(delta(0.5*a*u))', lambda: m['infere_type'](DL(0.5 * ca * u13)).index, 0),
            ('coef-float:infer(hodge(-1.25*u))', lambda: m['infere_type'](H(-1.25 * u13)).index, 2)):
        o.evaluations += 1
        o.count('witness:coef-float')
        try:
            g_ = got()
            ok = expand(sympify(g_) - want) == 0
        except Exception as e:
            g_, ok = type(e).__name__, False
        if not ok:
            o.fail(key, '%s: got %s, expected %s (a floating-point number is a constant coefficient)' % (key, g_, want), got=str(g_))
    # a wedge with a factor that vanishes by the laws (d d = 0, delta delta = 0, d of a top-degree form,
    # delta of a 0-form) is 0 — whichever zero object (int 0 or S.Zero) the operators return for it
    # (seeded change C19-6 tested `is S.Zero`)
    for key, got in (
            ('wedge-zero:wedge(d(d(u)),w)', lambda: W(D(D(u13)), w13)),
            ('wedge-zero:wedge(w,delta(delta(u)))', lambda: W(w13, DL(DL(u13)))),
            ('wedge-zero:wedge(d(top),w)', lambda: W(D(t33), w13)),
            ('wedge-zero:wedge(delta(z0),2*w)', lambda: W(DL(z03), 2 * w13)),
            ('wedge-zero:wedge(2*w,d(c*top))', lambda: W(2 * w13, D(c * t33)))):
        o.evaluations += 1
        o.count('witness:wedge-zero')
        try:
            g_ = got()
        except Exception as e:
            g_ = type(e).__name__
        if g_ != 0:
            o.fail(key, '%s: got %r, expected 0' % (key, g_), got=str(g_))
    for i in range(nprog):
        n = ctx.rng.randint(1, 6)
        progs.append((n, Gen(ctx.rng, n, maxdepth).prog()))
    for i in range(nprog // 4):
        # the same shapes at random: operator words over extreme-degree forms, and whole random programs
        # whose forms all have degree n, all degree 0, or one of the two
        n = ctx.rng.randint(1, 6)
        if i % 2:
            progs.append((n, Gen(ctx.rng, n, maxdepth).chain()))
        else:
            progs.append((n, Gen(ctx.rng, n, maxdepth, degs=ctx.rng.choice([[n], [n], [0], [0, n]])).prog(1)))
    for i in range(nprog // 5):
        # programs with floating-point coefficients (about every second coefficient; all dyadic): random
        # programs, operator words, and an operator (twice) on a linear combination of forms
        n = ctx.rng.randint(1, 6)
        g = Gen(ctx.rng, n, maxdepth, floats=True)
        if i % 3 == 0:
            p = g.prog()
        elif i % 3 == 1:
            p = g.chain()
        else:
            p = g.lin(lambda k: True)
            for _ in range(ctx.rng.choice([1, 2])):
                p = (ctx.rng.choice(['d', 'delta', 'hodge']), p)
        progs.append((n, p))
    # operator applications on which model and implementation disagreed in the correspondence run (only
    # in the failing-input search): judged by the concrete model like every other application
    ser = Ser()
    for line in seeds or []:
        try:
            parts = str(line).split(' ', 3)
            if parts[:2] == ['C19', 'eval']:
                op, trees = parts[2], loads_all(parts[3])
            elif parts[:2] == ['C19', 'wedge']:
                op, trees = 'wedge', loads_all(str(line).split(' ', 2)[2])
            else:
                continue
            args = [ser.build(t) for t in trees]
            dims = {int(f.dim) for a in args for f in a.atoms(m['DifferentialForm'])}
            if len(dims) != 1:
                continue
            rr = Runner(dims.pop())
            rr.apply(op, *args)
        except Exception:
            o.count('concrete:seed-not-rebuilt')
            continue
        o.evaluations += 1
        o.count('concrete:seed-from-correspondence')
        concrete_check(o, rr.n, rr.apps, m, ' [argument taken from a correspondence disagreement]')
    for n, p in progs:
        fl = has_float(p)
        g = Gen(ctx.rng, n, 3, floats=fl)   # beside floats only dyadic coefficients: all arithmetic exact
        g.k = 100     # constants of the auxiliary programs never coincide with those of p
        r = Runner(n)
        try:
            v = r.run(p)
        except Exception as e:
            o.fail('run:' + prog_str(p), 'the API raised %s on %s' % (type(e).__name__, prog_str(p)), dim=n)
            continue
        o.evaluations += 1
        ps = prog_str(p)
        from sympy import Pow, sympify
        if sympify(v).atoms(Pow):
            o.count('value-has-coef-power')
        if fl:
            o.count('program-has-float-coef')
        if sympify(v).atoms(Float):
            o.count('value-has-float-coef')
        if len(o.samples) < 4:
            o.samples.append({'dim': n, 'program': ps, 'value': str(v)})
        # every operator application of the program against the explicit model of the exterior algebra
        concrete_check(o, n, r.apps, m, ' [program %s]' % ps)
        if any(op == 'd' and not isinstance(a[0], m['DifferentialForm']) and sympify(a[0]).atoms(m['DifferentialForm'])
               and all(int(f.index.index) == n for f in a[0].atoms(m['DifferentialForm'])) for op, a, _ in r.apps):
            o.count('shape:d-of-composite-over-top-forms')
        if any(op == 'delta' and not isinstance(a[0], m['DifferentialForm']) and sympify(a[0]).atoms(m['DifferentialForm'])
               and all(int(f.index.index) == 0 for f in a[0].atoms(m['DifferentialForm'])) for op, a, _ in r.apps):
            o.count('shape:delta-of-composite-over-0-forms')
        # nilpotency: literal zero
        for name, op in (('d', D), ('delta', DL)):
            r2 = op(op(v))
            o.count('nilpotent:' + name)
            if r2 != 0:
                o.fail('%s%s:%d:%s' % (name, name, n, ps), '%s(%s(x)) is not 0 for x = %s (dim %d): got %s' % (name, name, ps, n, r2),
                       dim=n, program=ps, got=str(r2))
        # linearity over constants
        q = g.prog()
        w = Runner(n).run(q)
        cf = r.coef(g.coef())
        for name, op in (('d', D), ('delta', DL), ('hodge', H)):
            lhs, rhs = op(cf * v + w), cf * op(v) + op(w)
            o.count('linear:' + name)
            if not same(lhs, rhs, m):
                o.fail('lin:%s:%d:%s|%s|%s' % (name, n, cf, ps, prog_str(q)),
                       '%s(c*a+b) != c*%s(a)+%s(b) for c=%s a=%s b=%s' % (name, name, name, cf, ps, prog_str(q)),
                       lhs=str(lhs), rhs=str(rhs))
        g3 = Gen(ctx.rng, n, 3, floats=fl)
        g3.k = 200
        tv3 = Runner(n).run(g3.prog())
        lhs, rhs = W(cf * v + w, tv3), cf * W(v, tv3) + W(w, tv3)
        o.count('linear:wedge-left')
        if not same(lhs, rhs, m):
            o.fail('lin:wedgeL:%d:%s|%s|%s|%s' % (n, cf, ps, prog_str(q), tv3), 'wedge(c*a+b, t) != c*wedge(a,t) + wedge(b,t) for c=%s a=%s b=%s t=%s' % (cf, ps, prog_str(q), tv3), lhs=str(lhs), rhs=str(rhs))
        lhs, rhs = W(tv3, cf * v + w), cf * W(tv3, v) + W(tv3, w)
        o.count('linear:wedge-right')
        if not same(lhs, rhs, m):
            o.fail('lin:wedgeR:%d:%s|%s|%s|%s' % (n, cf, ps, prog_str(q), tv3), 'wedge(t, c*a+b) != c*wedge(t,a) + wedge(t,b) for c=%s a=%s b=%s t=%s' % (cf, ps, prog_str(q), tv3), lhs=str(lhs), rhs=str(rhs))
        # top forms / 0-forms
        t = g.lin(lambda k: k == n)
        tv = Runner(n).run(t)
        o.count('d-top')
        if D(tv) != 0:
            o.fail('dtop:%d:%s' % (n, prog_str(t)), 'd of the top-degree combination %s (dim %d) is %s, not 0' % (prog_str(t), n, D(tv)))
        z = g.lin(lambda k: k == 0)
        zv = Runner(n).run(z)
        o.count('delta-zero')
        if DL(zv) != 0:
            o.fail('delta0:%d:%s' % (n, prog_str(z)), 'delta of the 0-form combination %s is %s, not 0' % (prog_str(z), DL(zv)))
        # hodge hodge on linear combinations of forms
        l = g.lin(lambda k: True)
        lv = Runner(n).run(l)

        def signed(pp):
            if pp[0] == 'form':
                return Integer((-1) ** (pp[2] * (n - pp[2]))) * m['DifferentialForm'](pp[1], pp[2], n)
            if pp[0] == 'cmul':
                return r.coef(pp[1]) * signed(pp[2])
            return m['Add'](*[signed(a) for a in pp[1]])
        hh = H(H(lv))
        o.count('hodge-hodge')
        if expand(hh - signed(l)) != 0:
            o.fail('hh:%d:%s' % (n, prog_str(l)), 'hodge(hodge(x)) != sum of (-1)^(k(n-k)) terms for x = %s (dim %d): got %s' % (prog_str(l), n, hh))
        # degree inference against independent arithmetic on the returned expression
        if v == 0:
            o.count('infer:zero-value')
            continue
        dg = deg_value(v, n, m)
        if dg is None:
            o.count('infer:outside-language')
            continue
        try:
            t = m['infere_type'](v)
            got = None if t is None else t.index
        except Exception as e:
            got = type(e).__name__
        if isinstance(dg, int):
            o.count('infer:typed')
            if got != dg:
                o.fail('infer:%d:%s' % (n, v), 'infere_type(%s) = %s, expected %s (dim %d)' % (v, got, dg, n), program=ps)
        else:
            o.count('infer:refused')
            if got != 'ValueError':
                o.fail('infer-refuse:%d:%s' % (n, v), 'a sum of forms of different degree (or a degree outside 0..6) was not refused: infere_type(%s) = %s' % (v, got), program=ps)
    return o


def replay(ctx, path):
    import sys
    from harness.common import generic_replay
    return generic_replay(sys.modules[__name__], ctx, path)
