"""C07 — interface integrals split conservatively into same-side and mixed-side kernels."""
import sympy
from sympy import expand, S

from harness.common import Corr, Oracle, Timeout, time_limit
from harness.inst import InstPair, same_value
from harness.sexp import A, dumps, loads_all

PID = 'C07'
PROPS_MODULE = 'SympdeModel.Props.C07'
RULE = ('random bilinear and linear forms integrated over the interface of a two-patch domain (2D and 3D, scalar and vector '
        'arguments), integrands built from jump, minus/plus restrictions, the normal vector, constants, coordinates and '
        'restricted coefficient fields (penalty / consistency / symmetry type terms), restrictions of products of three or '
        'four non-constant factors (coordinates, coefficient field, the argument or its normal derivative); also systems (two or three trial / test '
        'functions, scalar and vector valued, in any order) and forms lowered a second time with the roles of their '
        'arguments exchanged; a case is one form; non-trivial = at least two pieces non-empty; distinct by printed form')
ASSUMPTIONS = [
    'restrictions to the two sides are ring homomorphisms commuting with derivatives along the interface data; '
    'jump(w) = minus(w) - plus(w); on the plus face the kernel is written with that face\'s outward normal (= minus the '
    'interface normal)',
    'NormalDerivative (Dn) is outside the generated fragment: its sign convention on the plus face is not fixed by the repo',
    'avg is outside the fragment (the splitter does not expand it)',
]


def _api():
    from sympde.topology import (Square, Cube, ScalarFunctionSpace, VectorFunctionSpace, element_of, Union, Domain,
                                 NormalVector)
    from sympde.topology.space import ScalarFunction, VectorFunction, IndexedVectorFunction
    from sympde.calculus import grad, dot, inner, div, jump, minus, plus
    from sympde.calculus.core import MinusInterfaceOperator, PlusInterfaceOperator
    from sympde.expr.expr import BilinearForm, LinearForm, integral
    from sympde.expr.evaluation import (TerminalExpr, _unpack_functions, BoundaryExpression, InterfaceExpression,
                                        DomainExpression)
    from sympde.core import Constant
    from sympde.topology import NormalVector
    return locals()


class World:
    def __init__(self, dim, tag, axis=0, ext_minus=1, ext_plus=-1):
        m = _api()
        self.m, self.dim = m, dim
        mk = m['Square'] if dim == 2 else m['Cube']
        # every glued pair of faces is used: any axis, any pair of sides (also two faces with the same ext —
        # added after seeded change C07-1, which only misbehaved there)
        sfx = '%s%d_%d%s%s' % (tag, dim, axis, 'p' if ext_minus > 0 else 'm', 'p' if ext_plus > 0 else 'm')
        A_, B_ = mk('A' + sfx), mk('B' + sfx, bounds1=(1, 2))
        self.domain = m['Domain'].join([A_, B_], [((0, axis, ext_minus), (1, axis, ext_plus), 1 if dim == 2 else (1, 1, 1))], 'AB' + sfx)
        self.I = self.domain.interfaces
        self.V = m['ScalarFunctionSpace']('V' + sfx, self.domain)
        self.W = m['VectorFunctionSpace']('W' + sfx, self.domain)
        e = m['element_of']
        self.u, self.v, self.f = [e(self.V, name=n) for n in ('u', 'v', 'f')]
        self.U, self.Vt = [e(self.W, name=n) for n in ('U', 'Vt')]
        # second pair of scalar arguments (systems)
        self.p, self.q = [e(self.V, name=n) for n in ('p', 'q')]
        self.kappa = m['Constant']('kappa')
        self.nn = m['NormalVector']('nn')
        self.coords = list(self.domain.coordinates)


SIDES = ('minus', 'plus')


def part(rng, w, fun, vec):
    """a factor linear in `fun`, with the side(s) it lives on: ('jump'|'minus'|'plus', expr, kind s/v)"""
    m = w.m
    k = rng.random()
    op = rng.choice(['jump', 'jump', 'minus', 'plus'])
    r = {'jump': m['jump'], 'minus': m['minus'], 'plus': m['plus']}[op]
    if vec:
        if k < 0.5:
            return op, m['dot'](r(fun), w.nn), 's'
        return op, r(fun), 'v'
    if k < 0.6:
        return op, r(fun), 's'
    if op != 'jump' and k < 0.75:
        # the restriction of a PRODUCT of three or four non-constant factors, the function (or its normal flux)
        # among them: weights taken from the coordinates and the coefficient field (added after seeded change
        # C07-10, which left the tail of such a product unevaluated inside the restriction)
        ws = rng.sample(list(w.coords) + [w.f], rng.choice([2, 2, 3]))
        # the flux is written Dn(fun): the restriction of dot(grad(fun), nn) with an explicit normal is NOT
        # generated — minus(dot(grad(u), nn)) stays unevaluated on the unchanged repo and is split wrongly
        # (reported as a suspected defect, see notes/C07.md)
        from sympde.calculus import Dn
        core = fun if rng.random() < 0.7 else Dn(fun)
        return op, r(sympy.Mul(*ws) * core), 's'
    if op == 'jump':
        return op, m['dot'](m['grad'](m['minus'](fun)), w.nn) - m['dot'](m['grad'](m['plus'](fun)), w.nn), 's'
    return op, m['dot'](m['grad'](r(fun)), w.nn), 's'


def coef(rng, w, sides):
    m = w.m
    k = rng.random()
    if k < 0.35:
        return S.One
    if k < 0.6:
        return w.kappa
    if k < 0.75:
        return rng.choice([2, sympy.Rational(1, 2), -1])
    # a restricted coefficient field: only when the term lives on one definite pair of sides, and on the same side as
    # one of its factors (a restricted field in the *other* side's boundary kernel loses its restriction: open finding)
    if 'jump' in sides or sides[0] != sides[1]:
        if 'jump' in sides:
            return w.kappa
        return rng.choice([m['minus'], m['plus']])(w.f)
    return {'minus': m['minus'], 'plus': m['plus']}[sides[0]](w.f)


def gen_form(rng, w):
    m = w.m
    vec = rng.random() < 0.4
    bil = rng.random() < 0.7
    u, v = (w.U, w.Vt) if vec else (w.u, w.v)
    e = S.Zero
    for _ in range(rng.choice([1, 2, 3])):
        if bil:
            for _ in range(10):
                su, eu, ku = part(rng, w, u, vec)
                sv, ev, kv = part(rng, w, v, vec)
                if ku == kv:
                    break
            else:
                continue
            t = eu * ev if ku == 's' else m['dot'](eu, ev)
            e += coef(rng, w, (su, sv)) * t
        else:
            sv, ev, kv = part(rng, w, v, vec)
            if kv == 'v':
                ev = m['dot'](ev, w.nn)
            e += coef(rng, w, (sv, sv)) * ev
    if e == 0:
        return None
    if bil:
        return 'bilinear', u, v, e, m['BilinearForm']((u, v), m['integral'](w.I, e))
    return 'linear', None, v, e, m['LinearForm'](v, m['integral'](w.I, e))


def as_tuple(a):
    if a is None:
        return ()
    return tuple(a) if isinstance(a, (tuple, list, sympy.Tuple)) else (a,)


def roles_text(kind, u, v):
    """'' for a form with one (trial, test) pair in the usual order, else the declared arguments"""
    if kind == 'bilinear':
        if len(as_tuple(u)) == 1 and len(as_tuple(v)) == 1 and str(as_tuple(u)[0]) in ('u', 'U'):
            return ''
        return ' in (%s; %s)' % (', '.join(map(str, as_tuple(u))), ', '.join(map(str, as_tuple(v))))
    if len(as_tuple(v)) == 1:
        return ''
    return ' in (%s)' % ', '.join(map(str, as_tuple(v)))


def make_form(w, kind, u, v, e):
    m = w.m
    if kind == 'bilinear':
        return m['BilinearForm']((u, v), m['integral'](w.I, e))
    return m['LinearForm'](v, m['integral'](w.I, e))


def gen_system(rng, w):
    """a SYSTEM: two or three trial and test functions (scalar and vector valued, the test functions in an order of
    their own), a few terms each coupling one trial with one test function (diagonal and off-diagonal blocks, with
    and without the normal vector).  Added after seeded change C07-7: the plus-face kernel is accumulated over the
    (trial, test) pairs, and only a form with several pairs shows what happens to the pieces collected earlier."""
    m = w.m
    bil = rng.random() < 0.7
    pool = [(w.u, w.v, False), (w.p, w.q, False), (w.U, w.Vt, True)]
    chosen = rng.sample(pool, rng.choice([2, 2, 3]))
    trials = [(c[0], c[2]) for c in chosen]
    tests = [(c[1], c[2]) for c in chosen]
    rng.shuffle(tests)

    def scalar_part(fun, vec):
        op, ex, k = part(rng, w, fun, vec)
        return op, (m['dot'](ex, w.nn) if k == 'v' else ex), k

    e = S.Zero
    nterms = rng.choice([2, 3, 3, 4])
    for it in range(nterms):
        # the first terms walk through the declared functions (every block row / column is met), the others are free
        tv, tvec = tests[it] if it < len(tests) else rng.choice(tests)
        if bil:
            tu, uvec = rng.choice(trials)
            su, eu, ku = part(rng, w, tu, uvec)
            sv, ev, kv = part(rng, w, tv, tvec)
            if ku == kv == 'v':
                t = m['dot'](eu, ev)
            else:
                t = (m['dot'](eu, w.nn) if ku == 'v' else eu) * (m['dot'](ev, w.nn) if kv == 'v' else ev)
            e += coef(rng, w, (su, sv)) * t
        else:
            sv, ev, kv = scalar_part(tv, tvec)
            e += coef(rng, w, (sv, sv)) * ev
    if e == 0:
        return None
    us = tuple(t[0] for t in trials)
    vs = tuple(t[0] for t in tests)
    if bil:
        return 'bilinear', us, vs, e, m['BilinearForm']((us, vs), m['integral'](w.I, e))
    return 'linear', None, vs, e, m['LinearForm'](vs, m['integral'](w.I, e))


def occurrences(e, funs, side=None, out=None):
    """{(function, side)}: where the functions `funs` occur in the kernel `e`, the side being that of the innermost
    enclosing minus / plus restriction (None: unrestricted).  A walk over the expression tree, nothing of sympde's
    own machinery."""
    from sympde.calculus.core import MinusInterfaceOperator, PlusInterfaceOperator
    if out is None:
        out = set()
    if isinstance(e, MinusInterfaceOperator):
        return occurrences(e.args[0], funs, 0, out)
    if isinstance(e, PlusInterfaceOperator):
        return occurrences(e.args[0], funs, 1, out)
    for f in funs:
        if e == f:
            out.add((f, side))
            return out
    if isinstance(e, sympy.MatrixBase):
        for a in e:
            occurrences(a, funs, side, out)
        return out
    for a in getattr(e, 'args', ()):
        occurrences(a, funs, side, out)
    return out


def tag_problems(m, k, trials, tests):
    """what is wrong with the (trial, test) tags of the mixed kernel k of a bilinear form: each tag must be a
    restriction of a declared trial (test) function, and inside the kernel the trial (test) functions must occur
    exactly there: this function, on this side"""
    sides = {m['MinusInterfaceOperator']: 0, m['PlusInterfaceOperator']: 1}
    out = []
    for role, tag, funs in (('trial', k.trial, trials), ('test', k.test, tests)):
        if type(tag) not in sides or not any(tag.args[0] == f for f in funs):
            out.append('the %s tag %s is not a restriction of a declared %s function (%s)'
                       % (role, tag, role, ', '.join(map(str, funs))))
            continue
        want = {(str(tag.args[0]), sides[type(tag)])}
        got = {(str(f), s) for f, s in occurrences(k.expr, funs)}
        if got != want:
            out.append('the %s tag is %s, but in the kernel the %s function(s) occur as %s (function, side; 0 = minus, '
                       '1 = plus)' % (role, tag, role, sorted(got, key=str)))
    return out


class Inst2(InstPair):
    """InstPair + normal vector + plain (unrestricted) functions read on a chosen side"""

    def __init__(self, rng, dim, coords, nn):
        super().__init__(rng, dim, coords)
        self.nn = nn
        self.side = None      # None: an unrestricted function is an error; 0 / 1: read on that side
        self.nsign = 1

    def inst(self, e):
        from sympy.tensor import Indexed
        from sympde.topology import NormalVector
        # every normal vector, whatever its name (nn, the 'n' that Dn produces) and also when it sits inside a
        # restriction (MinusNormalVector / PlusNormalVector are made by minus(Dn(w)) / plus(Dn(w))), is THE
        # normal of the interface: Dn(w) on a side is grad(w on that side) . n; a plus-face kernel is read
        # with nsign = -1 (the outward normal of that face)
        if isinstance(e, Indexed) and isinstance(e.base, NormalVector):
            v = self.nsign * self.n[int(e.indices[0])]
            return (v, v)
        if isinstance(e, NormalVector):
            v = sympy.Matrix([self.nsign * x for x in self.n])
            return (v, v)
        cc = self.cc
        if isinstance(e, (cc.Dot,)):
            a, b = self.inst(e.args[0]), self.inst(e.args[1])
            return (self.m.dot(a[0], b[0]), self.m.dot(a[1], b[1]))
        if isinstance(e, cc.Grad):
            a = self.inst(e.args[0])
            return (self.m.grad(a[0]), self.m.grad(a[1]))
        if isinstance(e, sympy.MatrixBase):
            vs = [self.inst(t) for t in e]
            return (sympy.Matrix(e.shape[0], e.shape[1], [v[0] for v in vs]),
                    sympy.Matrix(e.shape[0], e.shape[1], [v[1] for v in vs]))
        if type(e) in self.m.pd:
            a = self.inst(e.args[0])
            x = self.m.pd[type(e)]
            return (sympy.diff(a[0], x), sympy.diff(a[1], x))
        return super().inst(e)

    def on_side(self, e, side, nsign):
        """value of a same-side kernel: every function is read on `side`, the normal has sign nsign"""
        old = self.nsign
        self.nsign = nsign
        try:
            v = self.inst(e)
        finally:
            self.nsign = old
        return v[side]


def corpus(w):
    """fixed witnesses: (key, kind, u, v, integrand)"""
    m = w.m
    out = []
    if w.dim == 2:
        # open finding: a coefficient restricted to the minus side ends up, unrestricted, in the plus face's kernel
        out.append(('corpus:jump(v)*minus(f)', 'linear', None, w.v, m['jump'](w.v) * m['minus'](w.f)))
        # open finding: a restriction applied to the written-out normal derivative dot(grad(u), nn) stays
        # unevaluated (the splitter finds no minus(u) in it): spurious plus-face and (plus u, minus v) kernels
        out.append(('corpus:minus(dot(grad(u),nn))*jump(v)', 'bilinear', w.u, w.v,
                    m['minus'](m['dot'](m['grad'](w.u), w.nn)) * m['jump'](w.v)))
        # repaired by 548b25b: the plus-side piece of a linear form did not reverse the normal
        out.append(('corpus:linear dot(grad(plus(v)),nn)', 'linear', None, w.v,
                    m['dot'](m['grad'](m['minus'](w.v)), w.nn) - m['dot'](m['grad'](m['plus'](w.v)), w.nn)))
        # a number AND a Constant inside an explicit restriction (seeded change C07-6 lost the number)
        from sympde.calculus import Dn
        out.append(('corpus:minus(-kappa*Dn(u))*jump(v)', 'bilinear', w.u, w.v,
                    m['minus'](-w.kappa * Dn(w.u)) * m['jump'](w.v)))
        out.append(('corpus:x*jump(u)*plus(2*kappa*v)', 'bilinear', w.u, w.v,
                    w.coords[0] * m['jump'](w.u) * m['plus'](2 * w.kappa * w.v)))
        out.append(('corpus:linear minus(-kappa*Dn(v))+plus(3*kappa*v)', 'linear', None, w.v,
                    w.coords[1] * m['minus'](-w.kappa * Dn(w.v)) + m['plus'](3 * w.kappa * w.v)))
        # an explicit normal named 'n' next to the normal produced by Dn (fixed ab99c06: the plus-side sign
        # depended on the hash seed), and a normal with another name (seeded change C07-5)
        n1 = m['NormalVector']('n')
        out.append(('corpus:dot(jump(f),n)*jump(Dn(v))', 'bilinear', w.U, w.v, m['dot'](m['jump'](w.U), n1) * m['jump'](Dn(w.v))))
        out.append(('corpus:dot(jump(f),nn)*jump(v)', 'bilinear', w.U, w.v, m['dot'](m['jump'](w.U), w.nn) * m['jump'](w.v)))
        # ---- systems: the face kernels are accumulated over the (trial, test) pairs; a block with the normal
        # to an odd power FOLLOWED (trial-major order) by another block with a plus-side piece, in both orders
        # of declaration, scalar / vector (Stokes-like) and linear (seeded change C07-7 reversed the normal of
        # the pieces collected earlier a second time)
        x, y = w.coords[0], w.coords[1]
        jump, dot, minus, plus = m['jump'], m['dot'], m['minus'], m['plus']
        u, v, p, q, U, Vt, nn, kappa = w.u, w.v, w.p, w.q, w.U, w.Vt, w.nn, w.kappa
        nitsche = kappa * jump(p) * jump(q) - jump(Dn(u)) * jump(v)
        out.append(('corpus:system (u,p;v,q) kappa*jump(p)*jump(q)-jump(Dn(u))*jump(v)', 'bilinear', (u, p), (v, q), nitsche))
        out.append(('corpus:system (p,u;q,v) kappa*jump(p)*jump(q)-jump(Dn(u))*jump(v)', 'bilinear', (p, u), (q, v), nitsche))
        out.append(('corpus:system (u,p;q,v) sipg+jump(p)*jump(q)+minus(u)*plus(q)', 'bilinear', (u, p), (q, v),
                    -jump(Dn(u)) * jump(v) - jump(u) * jump(Dn(v)) + kappa * jump(u) * jump(v) + x * jump(p) * jump(q)
                    + minus(u) * plus(q)))
        stokes = dot(jump(U), jump(Vt)) + jump(p) * dot(jump(Vt), nn) + dot(jump(U), nn) * jump(q)
        out.append(('corpus:system (U,p;Vt,q) stokes-like', 'bilinear', (U, p), (Vt, q), stokes))
        out.append(('corpus:system (p,U;q,Vt) stokes-like', 'bilinear', (p, U), (q, Vt), stokes))
        out.append(('corpus:system linear (v,q) y*jump(Dn(v))+jump(q)', 'linear', None, (v, q), y * jump(Dn(v)) + jump(q)))
        out.append(('corpus:system linear (q,v) y*jump(Dn(v))+jump(q)', 'linear', None, (q, v), y * jump(Dn(v)) + jump(q)))
        out.append(('corpus:system linear (Vt,q) dot(jump(Vt),nn)+x*plus(q)', 'linear', None, (Vt, q),
                    dot(jump(Vt), nn) + x * plus(q)))
        # ---- history: one integrand, lowered one form after the other with different roles of its functions:
        # the transposed form, and a form whose trial function was a coefficient of the form before (seeded
        # change C07-8 kept the pieces of the first lowering, tags included)
        sipg = kappa * jump(u) * jump(v) - jump(Dn(u)) * jump(v) - jump(u) * jump(Dn(v))
        out.append(('corpus:history sipg (u;v)', 'bilinear', u, v, sipg))
        out.append(('corpus:history sipg transposed (v;u)', 'bilinear', v, u, sipg))
        one_sided = -minus(Dn(u)) * jump(v) + x * jump(u) * plus(v)
        out.append(('corpus:history one-sided flux (v;u)', 'bilinear', v, u, one_sided))
        out.append(('corpus:history one-sided flux transposed (u;v)', 'bilinear', u, v, one_sided))
        trilin = y * minus(p) * minus(u) * jump(v) + plus(p) * plus(u) * plus(v)
        out.append(('corpus:history trilinear (u;v), p a coefficient', 'bilinear', u, v, trilin))
        out.append(('corpus:history trilinear (p;v), u a coefficient', 'bilinear', p, v, trilin))
        vecf = dot(jump(U), nn) * jump(v) + dot(minus(U), nn) * plus(v)
        out.append(('corpus:history vector flux (U;v)', 'bilinear', U, v, vecf))
        out.append(('corpus:history vector flux transposed (v;U)', 'bilinear', v, U, vecf))
        # ---- a restriction applied to a product of three or more non-constant factors (coordinates, the
        # coefficient field, the trial / test function or its normal derivative): the restriction of a product is
        # the product of the restrictions, whatever the number of factors (seeded change C07-10 kept the tail of
        # such a product unevaluated, and the splitter no longer found the restricted function in it)
        f = w.f
        out.append(('corpus:product minus(x*y*u)*jump(v)', 'bilinear', u, v, minus(x * y * u) * jump(v)))
        out.append(('corpus:product kappa*plus(f*y*u)*jump(v)', 'bilinear', u, v, kappa * plus(f * y * u) * jump(v)))
        out.append(('corpus:product minus(f*x*Dn(u))*jump(v)', 'bilinear', u, v, minus(f * x * Dn(u)) * jump(v)))
        out.append(('corpus:product jump(u)*plus(x*y*f*v)', 'bilinear', u, v, jump(u) * plus(x * y * f * v)))
        out.append(('corpus:product minus(x*y*u)*plus(f*x*Dn(v))', 'bilinear', u, v,
                    minus(x * y * u) * plus(f * x * Dn(v))))
        out.append(('corpus:product linear minus(x*y*v)-plus(f*x*v)', 'linear', None, v,
                    minus(x * y * v) - plus(f * x * v)))
        out.append(('corpus:product linear plus(f*y*Dn(v))', 'linear', None, v, plus(f * y * Dn(v))))
        out.append(('corpus:product system (u,p;q,v) minus(x*y*u)*jump(q)+plus(f*x*p)*jump(v)', 'bilinear', (u, p), (q, v),
                    minus(x * y * u) * jump(q) + plus(f * x * p) * jump(v)))
        out.append(('corpus:product dot(plus(x*y*U),nn)*jump(v)', 'bilinear', U, v, dot(plus(x * y * U), nn) * jump(v)))
    return out


def analyse(ctx, w, o, c_lines, fixed=None, system=False):
    """one form: lowered, its pieces checked (oracle) and/or queued for the model (correspondence).
    fixed = (key or None, kind, trial(s), test(s), integrand); returns (kind, trial(s), test(s), integrand)"""
    rng = ctx.rng
    m = w.m
    key = None
    if fixed is not None:
        key, kind, u, v, e = fixed
        form = make_form(w, kind, u, v, e)
    else:
        g = (gen_system if system else gen_form)(rng, w)
        if g is None:
            return None
        kind, u, v, e, form = g
    case = (kind, u, v, e)
    trials, tests = as_tuple(u), as_tuple(v)
    name = '%s form%s over the interface, integrand %s' % (kind, roles_text(kind, u, v), e)
    try:
        with time_limit(60):
            ks = m['TerminalExpr'](form, w.domain)
    except Timeout:
        return case
    except Exception as ex:
        if o is not None:
            o.fail('lower:' + name, 'TerminalExpr raised %s on the %s' % (type(ex).__name__, name))
        return case
    iface = w.I
    minus_face, plus_face = iface.minus, iface.plus
    pieces = {}
    for k in ks:
        if isinstance(k, m['InterfaceExpression']):
            st = 0 if isinstance(k.trial, m['MinusInterfaceOperator']) else 1
            tt = 0 if isinstance(k.test, m['MinusInterfaceOperator']) else 1
            pieces.setdefault(('I', st, tt), []).append(k.expr)
        elif isinstance(k, m['BoundaryExpression']):
            s = 0 if k.target == minus_face else 1 if k.target == plus_face else None
            pieces.setdefault(('B', s, s), []).append(k.expr)
        else:
            pieces.setdefault(('D', None, None), []).append(k.expr)
    if o is not None:
        o.evaluations += 1
        o.count('kind:' + kind + (' system' if len(trials) > 1 or len(tests) > 1 else ''))
        if len(o.samples) < 3:
            o.samples.append({'form': name[:300], 'pieces': sorted(str(k) for k in pieces)})
        if any(k[0] == 'D' or k[1] is None for k in pieces):
            o.fail('targets:' + name, 'an interface integral produced a kernel on a region that is neither side of the interface: %s' % [str(x.target) for x in ks])
            return case
        if kind == 'bilinear' and any(k[0] == 'I' and k[1] == k[2] for k in pieces):
            o.fail('tags:' + name, 'an interface kernel is tagged with the same side for trial and test')
            return case
        # ---- the tags of a mixed kernel name the declared trial / test function and the side on which it
        # really stands in that kernel (added after seeded change C07-8: a form lowered after another one with
        # the same integrand but other roles got the first form's tags)
        if kind == 'bilinear':
            for k in ks:
                if isinstance(k, m['InterfaceExpression']):
                    pb = tag_problems(m, k, trials, tests)
                    if pb:
                        o.fail((key + ':tags') if key else ('tags:' + name),
                               'the %s: a mixed kernel carries wrong (trial, test) tags: %s' % (name, '; '.join(pb)),
                               kernel=str(k.expr)[:300], trial_tag=str(k.trial), test_tag=str(k.test))
                        return case
        # ---- conservation: sum of the pieces (same-side pieces read on their side, plus-side normal reversed) = integrand
        ins = Inst2(rng, w.dim, w.coords, w.nn)
        try:
            with time_limit(40):
                truth = ins.inst(e)[0]
                total = 0
                for (kk, s, t), exprs in pieces.items():
                    for ex in exprs:
                        flat = sum(sympy.flatten(ex), S.Zero) if isinstance(ex, sympy.MatrixBase) else ex
                        if kk == 'B':
                            total = total + ins.on_side(flat, s, 1 if s == 0 else -1)
                        else:
                            total = total + ins.inst(flat)[0]
                ok = same_value(sympy.sympify(total), sympy.sympify(truth), w.coords, rng)
        except (NotImplementedError, Timeout) as ex:
            o.count('skipped:' + type(ex).__name__)
            return case
        if ok is False:
            o.fail(key or ('conserve:' + name), 'the pieces of the %s do not add up to the integrand' % name,
                   pieces={str(k): [str(x)[:200] for x in v2] for k, v2 in pieces.items()})
    if c_lines is not None:
        # tagged monomials of the jump-expanded integrand: sides of trial and test
        ee = e
        from sympde.calculus.core import Jump
        for j in list(e.atoms(Jump)):
            a = j.args[0]
            ee = ee.subs(j, m['minus'](a) - m['plus'](a))
        monos = list(expand(ee).args) if isinstance(expand(ee), sympy.Add) else [expand(ee)]

        def side_of(mono, funs):
            hit = set()
            for at in mono.atoms(m['MinusInterfaceOperator'], m['PlusInterfaceOperator']):
                if at.has(*funs):
                    hit.add(0 if isinstance(at, m['MinusInterfaceOperator']) else 1)
            return hit
        tags = []
        okk = True
        for mm in monos:
            st = side_of(mm, trials) if trials else {0}
            tt = side_of(mm, tests)
            if len(st) != 1 or len(tt) != 1:
                okk = False
                break
            tags.append((list(tt)[0], list(st)[0]))     # (test, trial) as the model's (row, column)
        if okk and monos:
            ms = [[k2, t, s] for k2, (t, s) in enumerate(tags)]
            if kind == 'bilinear':
                c_lines.append(('C06 blocks 2 2 %s' % dumps(ms), name, pieces, monos, kind))
            else:
                c_lines.append(('C06 blocksLin 2 %s' % dumps([[k2, t, A('none')] for k2, (t, s) in enumerate(tags)]), name, pieces, monos, kind))
    return case


def run(ctx, n, c, o):
    worlds = {}
    lines = [] if c is not None else None
    if o is not None:
        w2 = World(2, 'ik')
        for fx in corpus(w2):
            analyse(ctx, w2, o, None, fixed=fx)
    for it in range(n):
        dim = ctx.rng.choice([2, 2, 3])
        key = (dim, ctx.rng.randrange(dim), ctx.rng.choice([1, -1]), ctx.rng.choice([1, -1]))
        if key not in worlds:
            worlds[key] = World(dim, 'i', *key[1:])
        # one case in four is a system (several trial / test functions)
        case = analyse(ctx, worlds[key], o, lines, system=ctx.rng.random() < 0.25)
        # history: the same integrand on the same interface is lowered again with the roles of its arguments
        # exchanged (the transposed form); nothing of the first lowering may leak into the second
        if case is not None and case[0] == 'bilinear' and ctx.rng.random() < 0.25:
            kind, u, v, e = case
            analyse(ctx, worlds[key], o, lines, fixed=(None, kind, v, u, e))
    if c is None:
        return
    outs = ctx.driver.run([x[0] for x in lines])
    for (line, name, pieces, monos, kind), out in zip(lines, outs):
        c.evaluations += 1
        c.count('kind:' + kind)
        if not out.startswith('ok '):
            c.disagreements.append({'input': line[:300], 'impl': '', 'model': out, 'note': 'model refused'})
            continue
        res = loads_all(out[3:])[0]
        # which pieces are non-empty (and do not cancel) according to the model
        model_nonempty = set()
        if kind == 'bilinear':
            for t in (0, 1):
                for s in (0, 1):
                    ids = [int(x) for x in res[t][s]]
                    if ids and expand(sum((monos[k2] for k2 in ids), S.Zero)) != 0:
                        model_nonempty.add(('B' if s == t else 'I', s, t))
        else:
            for t in (0, 1):
                ids = [int(x) for x in res[t]]
                if ids and expand(sum((monos[k2] for k2 in ids), S.Zero)) != 0:
                    model_nonempty.add(('B', t, t))
        impl_nonempty = {k for k, v in pieces.items() if any(x != 0 and not (isinstance(x, sympy.MatrixBase) and x.is_zero_matrix) for x in v)}
        if model_nonempty != impl_nonempty:
            c.disagreements.append({'input': line[:300], 'impl': sorted(map(str, impl_nonempty)), 'model': sorted(map(str, model_nonempty)),
                                    'note': 'pieces of ' + name[:200]})
        elif len(model_nonempty) >= 2:
            c.nontrivial.add(line)
            if len(c.samples) < 5:
                c.samples.append({'form': name[:200], 'pieces': sorted(map(str, model_nonempty))})


def correspondence(ctx):
    c = Corr()
    run(ctx, 400 if ctx.thorough else 70, c, None)
    return c


class World3:
    """three squares in a row, two interfaces (added after seeded change C07-4: a form over several
    interfaces at once kept the boundary pieces of the last interface only)"""

    def __init__(self, tag):
        m = _api()
        self.m, self.dim = m, 2
        sfx = tag + '3p'
        P = [m['Square'](n + sfx, bounds1=(i, i + 1)) for i, n in enumerate('ABC')]
        self.domain = m['Domain'].join(P, [((0, 0, 1), (1, 0, -1), 1), ((1, 0, 1), (2, 0, -1), 1)], 'ABC' + sfx)
        self.I = self.domain.interfaces                       # the union of both
        self.ifaces = list(self.I.args) if hasattr(self.I, 'args') and not hasattr(self.I, 'minus') else [self.I]
        self.V = m['ScalarFunctionSpace']('V' + sfx, self.domain)
        self.W = m['VectorFunctionSpace']('W' + sfx, self.domain)
        e = m['element_of']
        self.u, self.v, self.f = [e(self.V, name=n) for n in ('u', 'v', 'f')]
        self.U, self.Vt = [e(self.W, name=n) for n in ('U', 'Vt')]
        self.kappa = m['Constant']('kappa')
        self.nn = m['NormalVector']('nn')
        self.coords = list(self.domain.coordinates)


def kernel_table(m, ks):
    """{(kind, target, trial side, test side): expanded kernel}"""
    import sympy
    out = {}
    for k in ks:
        if isinstance(k, m['InterfaceExpression']):
            key = ('I', str(k.target), type(k.trial).__name__, type(k.test).__name__)
        elif isinstance(k, m['BoundaryExpression']):
            key = ('B', str(k.target), '', '')
        else:
            key = ('D', str(k.target), '', '')
        e = k.expr
        e = sympy.Matrix(e) if hasattr(e, 'shape') else sympy.Matrix([[e]])
        out[key] = (out[key] + e) if key in out else e
    return {k: v.applyfunc(sympy.expand) for k, v in out.items()}


def multi_interface_cases(ctx, o, n):
    """lowering a form over all interfaces of a three-patch domain gives, interface by interface,
    exactly the kernels of the same integrand integrated over that interface alone (each of which
    is checked by the two-patch cases): nothing is lost, moved or duplicated"""
    rng = ctx.rng
    w = World3('c7')
    m = w.m
    for i in range(n):
        g = gen_form(rng, w)
        if g is None:
            continue
        kind, u, v, e, form = g
        name = '%s form over both interfaces of A|B|C: %s' % (kind, e)
        o.evaluations += 1
        try:
            with time_limit(90):
                whole = kernel_table(m, m['TerminalExpr'](form, w.domain))
                parts = {}
                for I in w.ifaces:
                    f1 = (m['BilinearForm']((u, v), m['integral'](I, e)) if kind == 'bilinear'
                          else m['LinearForm'](v, m['integral'](I, e)))
                    for k_, val in kernel_table(m, m['TerminalExpr'](f1, w.domain)).items():
                        parts[k_] = (parts[k_] + val).applyfunc(__import__('sympy').expand) if k_ in parts else val
        except Timeout:
            o.count('timeout:multi')
            continue
        except Exception as ex:
            o.fail('multi:raised:%s' % name[:200], 'lowering %s raised %s' % (name, type(ex).__name__))
            continue
        o.count('multi-interface:' + kind)
        zero = lambda M_: all(x == 0 for x in M_)
        keys = set(k_ for k_, v_ in whole.items() if not zero(v_)) | set(k_ for k_, v_ in parts.items() if not zero(v_))
        bad = [k_ for k_ in keys if k_ not in whole or k_ not in parts or whole[k_] != parts[k_]]
        if bad:
            o.fail('multi:%s' % name[:220],
                   '%s: the kernels on %s differ from those of the integrals over the single interfaces (lost, moved or duplicated pieces)'
                   % (name, sorted(map(str, bad))[:4]))


def oracle(ctx, factor, seeds):
    o = Oracle()
    run(ctx, (300 if ctx.thorough else 60) * factor, None, o)
    multi_interface_cases(ctx, o, (40 if ctx.thorough else 8) * factor)
    return o


def replay(ctx, path):
    import sys
    from harness.common import generic_replay
    return generic_replay(sys.modules[__name__], ctx, path)
