"""C17 — derivative atoms: correspondence with Model/Atoms.lean and independent oracle (full
traversal of the real tree; pairwise comparison of SymbolicExpr symbols) on the real code."""
import json

from harness.common import Corr, Oracle
from harness.sexp import A, dumps, loads
from harness.exprser import Ser
from harness.genexpr import Env

PID = 'C17'
PROPS_MODULE = 'SympdeModel.Props.C17'
RULE = ('kernels in dimension 1-3 over 3 scalar and 3 vector functions: sums of products of derivative chains '
        '(0-4 derivatives, physical or logical, 12 % mixing both kinds in blocks) of functions / vector components '
        'with numeric, Constant and coordinate coefficients, integer / Constant / chain-valued exponents, '
        'sin/cos/exp of sub-kernels, matrices (square and non-square: 1xn, nx1, 2x3, 3x2, ...) and tuples of kernels; '
        'the oracle additionally assembles matrices of every shape up to 4x4 / tuples / lists from explicit entry '
        'descriptions and compares shape and every entry with a result assembled from the descriptions alone, and '
        '(outside the Lean model, which has unary functions only) checks get_max_* / SymbolicExpr on kernels with chains in '
        'every argument of atan2, undefined functions, besselj, Heaviside, Piecewise, Max, Min against the recorded multi-indices.  '
        'One case = one call of SymbolicExpr, '
        'get_max_(logical_)partial_derivatives (overall and per function), get_index_(logical_)derivatives_atom or '
        'sort_partial_derivatives; non-trivial = the kernel holds at least one derivative chain; distinct by request line')
ASSUMPTIONS = [
    'function names are hygienic in the generated kernels (no name is another name followed by "_" and a component / '
    'derivative code); the two un-hygienic collisions are fixed witnesses of open findings',
    'functions are identified by name (sympy equality); generated names carry the dimension, so equality and identity coincide',
    'interface operators (minus/plus), mapping components M[i] and unevaluated derivatives of non-functions are outside '
    'the generated fragment; the model predicate `canon` is asserted on every generated kernel',
    'sympy Add/Mul/Pow canonicalisation is applied to the model output before comparison (symbols are commutative)',
]
MIN_NONTRIVIAL = 40


def mods():
    import sympy
    from sympy import Matrix, ImmutableDenseMatrix, Tuple, Symbol, sin, cos, exp, S, Rational
    from sympde.topology import derivatives as dv
    from sympde.topology.mapping import SymbolicExpr
    from sympde.topology.space import ScalarFunction, VectorFunction, IndexedVectorFunction
    return locals()


PHYS = ('x', 'y', 'z')
LOGI = ('x1', 'x2', 'x3')


class Gen:
    def __init__(self, rng, env, m, multi=False):
        # multi: also functions of 2-3 arguments (oracle only: the Lean AST has unary functions, `fn f a`)
        self.rng, self.env, self.m, self.multi = rng, env, m, multi
        dv = m['dv']
        self.ops = {'x': dv.dx, 'y': dv.dy, 'z': dv.dz, 'x1': dv.dx1, 'x2': dv.dx2, 'x3': dv.dx3}

    def atom(self):
        r, env = self.rng, self.env
        if r.random() < 0.55:
            return r.choice(env.sf)
        return r.choice(env.vf)[r.randrange(env.dim)]

    def chain_spec(self, mixed_ok=True):
        """list of blocks, innermost first: (logical?, [coordinate names in application order])"""
        r, d = self.rng, self.env.dim
        n = r.choice([0, 1, 1, 1, 2, 2, 3, 4])
        if n == 0:
            return []
        lg = r.random() < 0.45
        names = (LOGI if lg else PHYS)[:d]
        blocks = [(lg, [r.choice(names) for _ in range(n)])]
        if mixed_ok and r.random() < 0.12:
            lg2 = not lg
            names2 = (LOGI if lg2 else PHYS)[:d]
            blocks.append((lg2, [r.choice(names2) for _ in range(r.choice([1, 1, 2]))]))
            if r.random() < 0.3:
                blocks.append((lg, [r.choice(names) for _ in range(r.choice([1, 2]))]))
        return blocks

    def apply(self, a, blocks):
        for lg, cs in blocks:
            for c in cs:
                a = self.ops[c](a)
        return a

    def chain(self):
        return self.apply(self.atom(), self.chain_spec())

    def coef(self):
        r, env = self.rng, self.env
        k = r.random()
        S, Rational = self.m['S'], self.m['Rational']
        if k < 0.4:
            return r.choice([S(2), S(3), S(-1), Rational(1, 2), S(5)])
        if k < 0.7:
            return r.choice(env.cst)
        return r.choice(env.coords)

    def term(self, depth):
        r, m = self.rng, self.m
        fs = []
        for _ in range(r.choice([1, 1, 2, 2, 3])):
            if self.multi and r.random() < 0.025:
                fs.append(self.multi_fn(depth))
                continue
            k = r.random()
            if k < 0.62 or depth >= 3:
                f = self.chain()
            elif k < 0.74:
                f = self.chain() ** r.choice([2, 3, -1, r.choice(self.env.cst)])
            elif k < 0.79:
                f = self.chain() ** self.chain()
            elif k < 0.82:
                f = r.choice([2, 3]) ** self.chain()
            elif k < 0.93:
                f = r.choice([m['sin'], m['cos'], m['exp']])(self.scalar(depth + 1))
            else:
                f = self.scalar(depth + 1) ** r.choice([2, -1])
            fs.append(f)
        if r.random() < 0.6:
            fs.append(self.coef())
        return m['sympy'].Mul(*fs)

    def multi_fn(self, depth):
        """a sympy `Function` of 2-3 arguments that SymbolicExpr translates argument by argument"""
        r, sympy = self.rng, self.m['sympy']
        arg = (lambda: self.chain()) if depth >= 2 else (lambda: self.chain() if r.random() < 0.5 else self.scalar(depth + 1))
        h = r.choice(['atan2', 'atan2', 'phi', 'besselj', 'Heaviside'])
        if h == 'phi':
            return sympy.Function('phi')(*[arg() for _ in range(r.choice([2, 3]))])
        if h == 'besselj':
            return sympy.besselj(r.choice([0, 1, 2]), arg())
        return getattr(sympy, h)(arg(), arg())

    def scalar(self, depth=0):
        r, m = self.rng, self.m
        n = r.choice([1, 1, 2, 2, 3])
        return m['sympy'].Add(*[self.term(depth + 1) for _ in range(n)])

    def kernel(self):
        r, m = self.rng, self.m
        k = r.random()
        if k < 0.72:
            return self.scalar()
        if k < 0.9:
            nr, nc = r.choice([(1, 2), (2, 1), (2, 2), (1, 3), (3, 1), (2, 3), (3, 2), (3, 3)])
            cls = m['Matrix'] if r.random() < 0.5 else m['ImmutableDenseMatrix']
            return cls(nr, nc, [self.scalar(1) for _ in range(nr * nc)])
        return m['Tuple'](*[self.scalar(1) for _ in range(r.choice([1, 2, 3]))])


def triple(d, keys):
    return [int(d[k]) for k in keys]


def fun_atoms(e, m):
    out = []
    for cls in (m['ScalarFunction'], m['IndexedVectorFunction']):
        out += sorted(e.atoms(cls), key=str)
    return out


def call(f, *a, **k):
    try:
        return ('ok', f(*a, **k))
    except Exception as e:   # noqa
        return ('err', e)


# --------------------------------------------------------------------------- correspondence

def correspondence(ctx):
    m = mods()
    c = Corr()
    rng = ctx.rng
    ser = Ser()
    dv, SE = m['dv'], m['SymbolicExpr']
    nk = 5000 if ctx.thorough else 800
    cases = []    # (kind, line, impl, info)
    envs = {d: Env(d, tag='c17') for d in (1, 2, 3)}
    for i in range(nk):
        dim = rng.choice([1, 2, 2, 3, 3])
        g = Gen(rng, envs[dim], m)
        K = g.kernel()
        try:
            sK = ser.ser(K)
        except Exception as e:
            c.count('unserialisable')
            continue
        sk = dumps(sK)
        has_chain = bool(dv.find_partial_derivatives(K)) or 'pd ' in sk
        info = {'dim': dim, 'kernel': str(K)[:300], 'chains': has_chain}
        cases.append(('canon', 'C17 canon ' + sk, 'ok true', info))
        r = call(SE, K)
        cases.append(('symb', 'C17 symb ' + sk, r, info))
        r = call(dv.sort_partial_derivatives, K)
        impl = 'ok ' + dumps([ser.ser(x) for x in r[1]]) if r[0] == 'ok' else 'err ' + type(r[1]).__name__
        cases.append(('find', 'C17 find ' + sk, impl, info))
        fs = fun_atoms(K, m)
        targets = [None] + rng.sample(fs, min(len(fs), 2))
        if rng.random() < 0.15:
            targets.append(rng.choice(envs[dim].sf + [v[0] for v in envs[dim].vf] + envs[dim].vf))
        for lg, fmax, fidx, keys in ((False, dv.get_max_partial_derivatives, dv.get_index_derivatives_atom, PHYS),
                                     (True, dv.get_max_logical_partial_derivatives, dv.get_index_logical_derivatives_atom, LOGI)):
            for F in targets:
                r = call(fmax, K) if F is None else call(fmax, K, F)
                impl = 'ok ' + dumps(triple(r[1], keys)) if r[0] == 'ok' else 'err ' + type(r[1]).__name__
                fs_ = A('None') if F is None else ser.ser(F)
                cases.append(('max', 'C17 max %s %s %s' % (dumps(lg), sk, dumps(fs_)), impl, info))
                if F is not None:
                    r = call(fidx, K, F)
                    impl = 'ok ' + dumps([triple(d, keys) for d in r[1]]) if r[0] == 'ok' else 'err ' + type(r[1]).__name__
                    cases.append(('index', 'C17 index %s %s %s' % (dumps(lg), sk, dumps(fs_)), impl, info))
    outs = ctx.driver.run([x[1] for x in cases])
    for (kind, line, impl, info), out in zip(cases, outs):
        c.evaluations += 1
        c.count('kind:' + kind)
        if kind == 'symb':
            if impl[0] == 'err':
                agree = out == 'err ' + type(impl[1]).__name__
                shown = 'err ' + type(impl[1]).__name__
            else:
                shown = str(impl[1])[:300]
                agree = False
                if out.startswith('ok '):
                    try:
                        built = ser.build(loads(out[3:]))
                        agree = same_value(built, impl[1], m)
                    except Exception as e:
                        out = out + '  (rebuild failed: %r)' % (e,)
            c.count('symb:' + ('ok' if impl[0] == 'ok' else shown))
        else:
            agree = out == impl
            shown = impl
        if kind == 'max' and agree and impl not in ('ok (0 0 0)',):
            c.count('max:nonzero')
        if not agree:
            c.disagreements.append({'input': {'line': line[:1500], 'kernel': info['kernel'], 'dim': info['dim'], 'op': kind},
                                    'impl': shown[:600], 'model': out[:600], 'note': kind})
        if info['chains']:
            c.nontrivial.add(line)
        c.count('dim:%d' % info['dim'])
        if kind == 'symb' and len(c.samples) < 5 and info['chains'] and len(line) < 700 and impl[0] == 'ok':
            c.samples.append({'kernel': info['kernel'], 'SymbolicExpr': shown, 'model': out[:400]})
    return c


def same_value(a, b, m):
    Mat = (m['Matrix'], m['ImmutableDenseMatrix'])
    if isinstance(a, Mat) or isinstance(b, Mat):
        if not (isinstance(a, Mat) and isinstance(b, Mat)) or a.shape != b.shape:
            return False
        return all(same_value(a[i, j], b[i, j], m) for i in range(a.shape[0]) for j in range(a.shape[1]))
    if isinstance(a, (tuple, m['Tuple'])) or isinstance(b, (tuple, m['Tuple'])):
        if not (isinstance(a, (tuple, m['Tuple'])) and isinstance(b, (tuple, m['Tuple']))) or len(a) != len(b):
            return False
        return all(same_value(x, y, m) for x, y in zip(a, b))
    return a == b


# --------------------------------------------------------------------------- oracle

def all_chains(e, m):
    """independent full traversal: every maximal derivative chain as (innermost atom, {coord: count}, blocks)"""
    dv = m['dv']
    D = {dv.dx: 'x', dv.dy: 'y', dv.dz: 'z', dv.dx1: 'x1', dv.dx2: 'x2', dv.dx3: 'x3'}
    out = []

    def walk(x):
        if type(x) in D:
            cnt = {k: 0 for k in PHYS + LOGI}
            blocks = []      # outermost first: [logical?, {coord: n}]
            y = x
            while type(y) in D:
                cname = D[type(y)]
                cnt[cname] += 1
                lg = cname in LOGI
                if not blocks or blocks[-1][0] != lg:
                    blocks.append([lg, {}])
                blocks[-1][1][cname] = blocks[-1][1].get(cname, 0) + 1
                y = y.args[0]
            out.append((y, cnt, blocks))
            walk(y)
            return
        if isinstance(x, (m['Matrix'], m['ImmutableDenseMatrix'])):
            for v in x:
                walk(v)
            return
        if isinstance(x, (list, tuple, m['Tuple'])):
            for v in x:
                walk(v)
            return
        for a in getattr(x, 'args', ()):
            walk(a)

    walk(e)
    return out


def is_fun_atom(a, m):
    return isinstance(a, (m['ScalarFunction'], m['IndexedVectorFunction']))


def true_max(chains, keys, m, F=None):
    d = [0, 0, 0]
    for atom, cnt, _ in chains:
        if not is_fun_atom(atom, m):
            continue
        if F is not None and atom != F:
            continue
        for i, k in enumerate(keys):
            d[i] = max(d[i], cnt[k])
    return d


def expected_name(atom, blocks, m):
    """the statement's naming: base, then one `_code` per block of derivatives of one kind, innermost block first"""
    if isinstance(atom, m['IndexedVectorFunction']):
        base = '%s_%d' % (atom.base.name, int(atom.indices[0]))
    else:
        base = str(atom.name)
    for lg, cnt in reversed(blocks):
        base += '_' + ''.join(k * cnt.get(k, 0) for k in (LOGI if lg else PHYS))
    return base


def chain_id(atom, blocks):
    return (str(atom), tuple((lg, tuple(sorted(cnt.items()))) for lg, cnt in blocks))


# ---- matrices / sequences assembled from explicit descriptions (JSON-able, so a failure can be replayed)
#   chain  = {'f': ['s', i] | ['v', i, comp], 'lg': bool, 'cs': [coordinate names, innermost first]}
#   entry  = {'form': ..., 'c': int, 'ch': [chain, chain]}
#   mspec  = {'dim': d, 'cls': 'Matrix' | 'ImmutableDenseMatrix' | 'Tuple' | 'tuple' | 'list', 'shape': [r, c], 'rows': [[entry]]}

FORMS = ('chain', 'prod', 'sum', 'sinsq', 'pow', 'coord', 'number')
SHAPES = [(1, 2), (2, 1), (1, 3), (3, 1), (2, 3), (3, 2), (1, 4), (4, 1), (2, 4), (4, 2), (3, 4), (4, 3),
          (1, 1), (2, 2), (3, 3), (4, 4)]


def spec_atom(env, f):
    return env.sf[f[1]] if f[0] == 's' else env.vf[f[1]][f[2]]


def spec_chain_real(env, ops, ch):
    a = spec_atom(env, ch['f'])
    for c in ch['cs']:
        a = ops[c](a)
    return a


def spec_chain_symbol(env, m, ch):
    """the statement's naming, from the description alone: name[_component][_sorted code]"""
    f = ch['f']
    name = str(env.sf[f[1]].name) if f[0] == 's' else '%s_%d' % (env.vf[f[1]].name, f[2])
    order = LOGI if ch['lg'] else PHYS
    code = ''.join(k * ch['cs'].count(k) for k in order)
    return m['Symbol'](name + ('_' + code if code else ''))


def spec_entry(env, m, e, f):
    """the entry built with f = real chain or f = expected symbol"""
    a, b = f(e['ch'][0]), f(e['ch'][1])
    c = m['S'](e['c'])
    form = e['form']
    if form == 'chain':
        return a
    if form == 'prod':
        return c * a * b
    if form == 'sum':
        return a + c * b
    if form == 'sinsq':
        return 2 * a * b + m['sin'](a) ** 2
    if form == 'pow':
        return a ** 2 + b
    if form == 'coord':
        return env.coords[e['c'] % env.dim] * a + env.cst[e['c'] % 2]
    return c


def gen_mspec(rng, dim, shape=None, cls=None):
    def chain():
        lg = rng.random() < 0.4
        names = (LOGI if lg else PHYS)[:dim]
        f = ['s', rng.randrange(3)] if rng.random() < 0.55 else ['v', rng.randrange(3), rng.randrange(dim)]
        return {'f': f, 'lg': lg, 'cs': [rng.choice(names) for _ in range(rng.choice([0, 1, 1, 1, 2, 2, 3]))]}
    if cls is None:
        cls = rng.choice(['Matrix', 'Matrix', 'ImmutableDenseMatrix', 'ImmutableDenseMatrix', 'Tuple', 'tuple', 'list'])
    if cls in ('Matrix', 'ImmutableDenseMatrix'):
        nr, nc = shape or rng.choice(SHAPES[:12] * 2 + SHAPES[12:])
    else:
        nr, nc = 1, (shape or (1, rng.choice([1, 2, 3, 4, 5])))[1]
    rows = [[{'form': rng.choice(FORMS), 'c': rng.choice([2, 3, -1, 5, 7]), 'ch': [chain(), chain()]} for _ in range(nc)] for _ in range(nr)]
    return {'dim': dim, 'cls': cls, 'shape': [nr, nc], 'rows': rows}


def check_mspec(m, envs, spec):
    """None when SymbolicExpr keeps the shape and converts every entry in place, else (key, what)"""
    env = envs[spec['dim']]
    dv, SE = m['dv'], m['SymbolicExpr']
    ops = {'x': dv.dx, 'y': dv.dy, 'z': dv.dz, 'x1': dv.dx1, 'x2': dv.dx2, 'x3': dv.dx3}
    real = [[spec_entry(env, m, e, lambda ch: spec_chain_real(env, ops, ch)) for e in row] for row in spec['rows']]
    want = [[spec_entry(env, m, e, lambda ch: spec_chain_symbol(env, m, ch)) for e in row] for row in spec['rows']]
    nr, nc = spec['shape']
    cls = spec['cls']
    key = 'matrix:%s:%dx%d:%s' % (cls, nr, nc, str(real)[:300])
    Mat = (m['Matrix'], m['ImmutableDenseMatrix'])
    if cls in ('Matrix', 'ImmutableDenseMatrix'):
        M = m[cls](real)
        r = call(SE, M)
        if r[0] == 'err':
            return key, 'SymbolicExpr raises %s(%s) on the %dx%d %s %s' % (type(r[1]).__name__, r[1], nr, nc, cls, str(real)[:300])
        got = r[1]
        if not isinstance(got, Mat):
            return key, 'SymbolicExpr(%dx%d %s) is not a matrix: %s' % (nr, nc, cls, str(got)[:300])
        if tuple(got.shape) != (nr, nc):
            return key, 'SymbolicExpr changes the shape of a matrix: input %s %s of shape %s -> result %s of shape %s' % (
                cls, str(real)[:300], (nr, nc), str(got)[:300], tuple(got.shape))
        if type(got) is not type(M):
            return key, 'SymbolicExpr(%s) returns a %s' % (cls, type(got).__name__)
        for i in range(nr):
            for j in range(nc):
                if got[i, j] != want[i][j]:
                    return key, 'entry (%d,%d) of SymbolicExpr(%s %s) is %s, expected the conversion of entry (%d,%d) = %s' % (
                        i, j, cls, str(real)[:300], got[i, j], i, j, want[i][j])
                if got[i, j] != SE(M[i, j]):
                    return key, 'entry (%d,%d) of SymbolicExpr(M) is %s but SymbolicExpr(M[%d,%d]) = %s (M = %s %s)' % (
                        i, j, got[i, j], i, j, SE(M[i, j]), cls, str(real)[:300])
        return None
    seq = {'Tuple': lambda x: m['Tuple'](*x), 'tuple': tuple, 'list': list}[cls](real[0])
    r = call(SE, seq)
    if r[0] == 'err':
        return key, 'SymbolicExpr raises %s(%s) on the %s %s' % (type(r[1]).__name__, r[1], cls, str(real)[:300])
    got = r[1]
    if not isinstance(got, m['Tuple']) or len(got) != nc:
        return key, 'SymbolicExpr(%s of %d kernels %s) = %s: expected a Tuple of %d conversions' % (cls, nc, str(real)[:300], str(got)[:300], nc)
    for j in range(nc):
        if got[j] != want[0][j]:
            return key, 'item %d of SymbolicExpr(%s %s) is %s, expected %s' % (j, cls, str(real)[:300], got[j], want[0][j])
    return None


def fixed_mspecs():
    """deterministic layouts of every non-square shape (both matrix classes) and of the three sequence types"""
    import random
    rng = random.Random(1717)
    out = []
    for dim in (3, 2):
        for shape in SHAPES[:12] if dim == 3 else [(1, 2), (2, 1), (2, 2)]:
            for cls in ('Matrix', 'ImmutableDenseMatrix'):
                out.append(gen_mspec(rng, dim, shape, cls))
    for cls in ('Tuple', 'tuple', 'list'):
        for n in (1, 3):
            out.append(gen_mspec(rng, 3, (1, n), cls))
    return out


# ---- kernels with functions of several arguments, assembled from explicit descriptions (JSON-able)
#   chain = {'f': ['s', i] | ['v', i, comp], 'cs': [coordinate names, innermost first; both kinds allowed]}
#   node  = {'t': 'ch', 'ch': chain} | {'t': 'num', 'v': int} | {'t': 'coord', 'i': i} | {'t': 'cst', 'i': i}
#         | {'t': 'add' | 'mul', 'a': [node]} | {'t': 'pow', 'a': [base, exponent]}
#         | {'t': 'fn', 'h': head, 'a': [node]}         head: ONE_ARG (1 argument) or MULTI_ARG (2-3 arguments)
#         | {'t': 'pw', 'a': [[node, cond | None]]}     Piecewise; cond = {'rel': '>' | '<' | '>=', 'l': node, 'r': node}
#         | {'t': 'mat', 'shape': [r, c], 'a': [node]} | {'t': 'tup', 'a': [node]}
#   kspec = {'dim': d, 'root': node}
# The ground truth of get_max_* is the maximum of the multi-indices *recorded in the description* (per function):
# nothing of the real tree is traversed for it.

ONE_ARG = ('sin', 'cos', 'exp', 'log', 'tanh')
MULTI_FUNCTION = ('atan2', 'phi', 'besselj', 'Heaviside')     # sympy `Function` subclasses taking several arguments
MULTI_OTHER = ('Max', 'Min')                                   # several arguments, not `Function` subclasses
MULTI_ARG = MULTI_FUNCTION + MULTI_OTHER


def k_chains(node, out=None):
    """the chain descriptions of a node, in order of appearance"""
    out = [] if out is None else out
    t = node['t']
    if t == 'ch':
        out.append(node['ch'])
    elif t == 'pw':
        for e, cnd in node['a']:
            k_chains(e, out)
            if cnd:
                k_chains(cnd['l'], out)
                k_chains(cnd['r'], out)
    else:
        for a in node.get('a', ()):
            k_chains(a, out)
    return out


def k_heads(node, out=None):
    out = set() if out is None else out
    t = node['t']
    if t == 'fn':
        out.add(node['h'])
    elif t in ('pw', 'mat', 'tup'):
        out.add(t)
    if t == 'pw':
        for e, cnd in node['a']:
            k_heads(e, out)
            if cnd:
                k_heads(cnd['l'], out)
                k_heads(cnd['r'], out)
    else:
        for a in node.get('a', ()):
            k_heads(a, out)
    return out


def k_truth(chs, keys, F=None):
    """maximal order per direction of `keys` over the recorded multi-indices (of the function F = ['s', i] / ['v', i, c])"""
    d = [0, 0, 0]
    for ch in chs:
        if F is not None and list(ch['f']) != list(F):
            continue
        for i, k in enumerate(keys):
            d[i] = max(d[i], ch['cs'].count(k))
    return d


def k_chain_symbol(env, m, ch):
    """name[_component] + one `_sorted code` per block of derivatives of one kind, innermost block first"""
    f = ch['f']
    name = str(env.sf[f[1]].name) if f[0] == 's' else '%s_%d' % (env.vf[f[1]].name, f[2])
    blocks = []
    for c in ch['cs']:
        lg = c in LOGI
        if not blocks or blocks[-1][0] != lg:
            blocks.append([lg, []])
        blocks[-1][1].append(c)
    for lg, cs in blocks:
        name += '_' + ''.join(k * cs.count(k) for k in (LOGI if lg else PHYS))
    return m['Symbol'](name)


def k_build(env, m, node, leaf):
    """the kernel of a description; leaf(chain) = the real chain, or its expected symbol"""
    sympy = m['sympy']
    t = node['t']
    rec = lambda n: k_build(env, m, n, leaf)   # noqa
    if t == 'ch':
        return leaf(node['ch'])
    if t == 'num':
        return m['S'](node['v'])
    if t == 'coord':
        return env.coords[node['i'] % env.dim]
    if t == 'cst':
        return env.cst[node['i'] % len(env.cst)]
    if t == 'add':
        return sympy.Add(*[rec(a) for a in node['a']])
    if t == 'mul':
        return sympy.Mul(*[rec(a) for a in node['a']])
    if t == 'pow':
        return sympy.Pow(rec(node['a'][0]), rec(node['a'][1]))
    if t == 'fn':
        h = node['h']
        head = sympy.Function('phi') if h == 'phi' else getattr(sympy, h)
        return head(*[rec(a) for a in node['a']])
    if t == 'pw':
        rel = {'>': sympy.Gt, '<': sympy.Lt, '>=': sympy.Ge}
        pairs = []
        for e, cnd in node['a']:
            pairs.append((rec(e), True if cnd is None else rel[cnd['rel']](rec(cnd['l']), rec(cnd['r']))))
        return sympy.Piecewise(*pairs)
    if t == 'mat':
        return m['Matrix'](node['shape'][0], node['shape'][1], [rec(a) for a in node['a']])
    if t == 'tup':
        return m['Tuple'](*[rec(a) for a in node['a']])
    raise ValueError('unknown node %r' % (t,))


class KGen:
    """descriptions of kernels in which derivative chains sit in every argument position of functions of 2-3 arguments"""

    def __init__(self, rng, dim):
        self.rng, self.dim = rng, dim

    def chain(self, nmin=0):
        r, d = self.rng, self.dim
        f = ['s', r.randrange(3)] if r.random() < 0.55 else ['v', r.randrange(3), r.randrange(d)]
        lg = r.random() < 0.4
        names = (LOGI if lg else PHYS)[:d]
        cs = [r.choice(names) for _ in range(max(nmin, r.choice([0, 1, 1, 1, 2, 2, 3, 4])))]
        if cs and r.random() < 0.1:      # a block of the other kind on top
            other = (PHYS if lg else LOGI)[:d]
            cs += [r.choice(other) for _ in range(r.choice([1, 1, 2]))]
        return {'t': 'ch', 'ch': {'f': f, 'cs': cs}}

    def num(self):
        return {'t': 'num', 'v': self.rng.choice([1, 2, 3, -1, 5])}

    def small(self, depth):
        """an argument of a function"""
        r = self.rng
        k = r.random()
        if k < 0.5:
            return self.chain()
        if k < 0.58:
            return {'t': 'add', 'a': [self.num(), {'t': 'pow', 'a': [self.chain(1), {'t': 'num', 'v': 2}]}]}
        if k < 0.66:
            return {'t': 'mul', 'a': [r.choice([self.num(), {'t': 'cst', 'i': r.randrange(2)}, {'t': 'coord', 'i': r.randrange(3)}]), self.chain()]}
        if k < 0.72:
            return {'t': 'mul', 'a': [self.chain(), self.chain(1)]}
        if k < 0.78:
            return {'t': 'add', 'a': [self.chain(), self.chain(1)]}
        if k < 0.84:
            return {'t': 'fn', 'h': r.choice(ONE_ARG), 'a': [self.chain(1)]}
        if k < 0.92 and depth < 2:
            return self.multi(depth + 1)
        return r.choice([self.num(), {'t': 'coord', 'i': r.randrange(3)}, {'t': 'cst', 'i': r.randrange(2)}])

    def cond(self, depth):
        r = self.rng
        k = r.random()
        left = self.chain() if k < 0.6 else ({'t': 'coord', 'i': r.randrange(3)} if k < 0.85 else self.small(depth + 1))
        return {'rel': r.choice(['>', '<', '>=']), 'l': left, 'r': {'t': 'num', 'v': r.choice([0, 0, 1, -1])}}

    def multi(self, depth=0):
        """one node with several arguments"""
        r = self.rng
        h = r.choice(['atan2', 'atan2', 'atan2', 'pw', 'pw', 'phi', 'phi', 'besselj', 'Heaviside', 'Max', 'Min'])
        if h == 'pw':
            n = r.choice([2, 2, 3])
            return {'t': 'pw', 'a': [[self.small(depth), self.cond(depth)] for _ in range(n - 1)] + [[self.small(depth), None]]}
        if h == 'besselj':
            return {'t': 'fn', 'h': h, 'a': [{'t': 'num', 'v': r.choice([0, 1, 2])}, self.small(depth)]}
        n = 2 if h in ('atan2', 'Heaviside') else r.choice([2, 3])
        return {'t': 'fn', 'h': h, 'a': [self.small(depth) for _ in range(n)]}

    def root(self):
        r = self.rng
        k = r.random()
        if k < 0.4:
            return self.multi()
        if k < 0.55:
            return {'t': 'fn', 'h': r.choice(ONE_ARG), 'a': [self.multi()]}
        if k < 0.8:
            terms = [{'t': 'mul', 'a': [self.chain(), self.multi()]}] + [self.small(1) for _ in range(r.choice([0, 1, 2]))]
            r.shuffle(terms)
            return {'t': 'add', 'a': terms} if len(terms) > 1 else terms[0]
        if k < 0.87:
            pair = [self.multi(), r.choice([{'t': 'num', 'v': 2}, self.chain(1)])]
            if r.random() < 0.5:
                pair.reverse()
            return {'t': 'pow', 'a': pair}
        if k < 0.95:
            nr, nc = r.choice([(1, 2), (2, 1), (2, 2), (1, 3)])
            ent = [self.small(1) for _ in range(nr * nc)]
            ent[r.randrange(nr * nc)] = self.multi()
            return {'t': 'mat', 'shape': [nr, nc], 'a': ent}
        ent = [self.small(1) for _ in range(r.choice([2, 3]))]
        ent[r.randrange(len(ent))] = self.multi()
        return {'t': 'tup', 'a': ent}

    def kspec(self):
        return {'dim': self.dim, 'root': self.root()}


def fixed_kspecs():
    """(stable label, kspec): chains in the second / third argument of functions of several arguments, with controls"""
    def ch(f, *cs):
        return {'t': 'ch', 'ch': {'f': list(f), 'cs': list(cs)}}

    def fn(h, *a):
        return {'t': 'fn', 'h': h, 'a': list(a)}

    def num(v):
        return {'t': 'num', 'v': v}

    def add(*a):
        return {'t': 'add', 'a': list(a)}

    def mul(*a):
        return {'t': 'mul', 'a': list(a)}

    def pw(*pairs):
        return {'t': 'pw', 'a': [list(p) for p in pairs]}

    def gt(l, v=0):
        return {'rel': '>', 'l': l, 'r': num(v)}
    u, v, w = ('s', 0), ('s', 1), ('s', 2)
    F0, F1, G2 = ('v', 0, 0), ('v', 0, 1), ('v', 1, 2)
    sq = lambda a: {'t': 'pow', 'a': [a, num(2)]}   # noqa
    out = [
        # controls: one argument, first argument, non-Function heads
        ('control:sin(dx(u)*dy(dy(v)))+dz(u)', 3, add(fn('sin', mul(ch(u, 'x'), ch(v, 'y', 'y'))), ch(u, 'z'))),
        ('control:atan2(dx(dx(u)),v)', 3, fn('atan2', ch(u, 'x', 'x'), ch(v))),
        ('control:Max(dx(u),dy(dy(v)))', 3, fn('Max', ch(u, 'x'), ch(v, 'y', 'y'))),
        ('control:Min(u,dx(F[0]),dz(dz(v)))', 3, fn('Min', ch(u), ch(F0, 'x'), ch(v, 'z', 'z'))),
        # functions of two / three arguments
        ('atan2(dy(u),dx(u))', 3, fn('atan2', ch(u, 'y'), ch(u, 'x'))),
        ('atan2(dy(u),dx(u)):2d', 2, fn('atan2', ch(u, 'y'), ch(u, 'x'))),
        ('atan2(u,dx(u)):1d', 1, fn('atan2', ch(u), ch(u, 'x'))),
        ('v*atan2(dx(u),dz(dy(dy(v))))+dx(v)', 3, add(mul(ch(v), fn('atan2', ch(u, 'x'), ch(v, 'y', 'y', 'z'))), ch(v, 'x'))),
        ('atan2(dx(F[0]),dz(dz(F[1])))', 3, fn('atan2', ch(F0, 'x'), ch(F1, 'z', 'z'))),
        ('atan2(dx1(u),dx3(dx2(dx2(v))))', 3, fn('atan2', ch(u, 'x1'), ch(v, 'x2', 'x2', 'x3'))),
        ('atan2(dx(u),dx(dx1(v)))', 3, fn('atan2', ch(u, 'x'), ch(v, 'x1', 'x'))),
        ('exp(atan2(dx(u),1+dy(u)**2))', 3, fn('exp', fn('atan2', ch(u, 'x'), add(num(1), sq(ch(u, 'y')))))),
        ('sin(atan2(u,dy(dy(G[2]))))*dx(u)', 3, mul(fn('sin', fn('atan2', ch(u), ch(G2, 'y', 'y'))), ch(u, 'x'))),
        ('atan2(dx(u),atan2(dy(u),dz(dz(u))))', 3, fn('atan2', ch(u, 'x'), fn('atan2', ch(u, 'y'), ch(u, 'z', 'z')))),
        ('dx(u)**atan2(v,dy(dy(v)))', 3, {'t': 'pow', 'a': [ch(u, 'x'), fn('atan2', ch(v), ch(v, 'y', 'y'))]}),
        ('Matrix([[atan2(dx(u),dy(dy(v))),dx(w)]])', 3, {'t': 'mat', 'shape': [1, 2], 'a': [fn('atan2', ch(u, 'x'), ch(v, 'y', 'y')), ch(w, 'x')]}),
        ('(u,atan2(v,dz(v)))', 3, {'t': 'tup', 'a': [ch(u), fn('atan2', ch(v), ch(v, 'z'))]}),
        ('phi(u,dx(u),dx(dx(F[1])))', 3, fn('phi', ch(u), ch(u, 'x'), ch(F1, 'x', 'x'))),
        ('phi(dx1(u),dx2(dx2(v)))', 2, fn('phi', ch(u, 'x1'), ch(v, 'x2', 'x2'))),
        ('besselj(2,dy(dy(v)))', 3, fn('besselj', num(2), ch(v, 'y', 'y'))),
        ('besselj(0,dx1(u))*u', 2, mul(fn('besselj', num(0), ch(u, 'x1')), ch(u))),
        ('Heaviside(dx(u),dy(dy(u)))', 3, fn('Heaviside', ch(u, 'x'), ch(u, 'y', 'y'))),
        # Piecewise: every branch after the first, and conditions
        ('Piecewise((dx(u),u>0),(dy(dy(u)),True))', 3, pw((ch(u, 'x'), gt(ch(u))), (ch(u, 'y', 'y'), None))),
        ('Piecewise((dx(u),u>0),(dx1(F[1]),v>1),(dy(dy(v)),True))', 3,
         pw((ch(u, 'x'), gt(ch(u))), (ch(F1, 'x1'), gt(ch(v), 1)), (ch(v, 'y', 'y'), None))),
        ('Piecewise((u,dx(dx(v))>0),(dy(u),True))', 3, pw((ch(u), gt(ch(v, 'x', 'x'))), (ch(u, 'y'), None))),
        ('exp(Piecewise((dx1(u),x>0),(dx2(dx2(u)),True)))', 2, fn('exp', pw((ch(u, 'x1'), gt({'t': 'coord', 'i': 0})), (ch(u, 'x2', 'x2'), None)))),
    ]
    return [(label, {'dim': dim, 'root': root}) for label, dim, root in out]


def check_kspec(m, envs, spec, label=None, extra_F=None):
    """list of (key, what, op) — empty when get_max_* (overall, per function) equal the recorded maxima and SymbolicExpr
    converts every chain in place; the second value is the number of calls made, the third a histogram tag"""
    env = envs[spec['dim']]
    dv, SE = m['dv'], m['SymbolicExpr']
    ops = {'x': dv.dx, 'y': dv.dy, 'z': dv.dz, 'x1': dv.dx1, 'x2': dv.dx2, 'x3': dv.dx3}
    root = spec['root']
    try:
        K = k_build(env, m, root, lambda c: spec_chain_real(env, ops, c))
    except (ValueError, TypeError):      # sympy refuses the arguments (Max / Min of a Constant: 'not comparable')
        return [], 0, 'skipped:refused-by-sympy'
    except Exception as ex:              # the derivative constructors themselves fail (RecursionError, ...): a finding, not a crash
        tag = 'fixed:' + label if label else json.dumps(root, sort_keys=True)[:300]
        return [('multiarg-build-raises:%s' % tag, 'building the kernel %s raised %s' % (tag, type(ex).__name__), 'build')], 1, 'build-raises'
    chs = k_chains(root)
    heads = k_heads(root)
    funs = []
    for c in chs:
        if list(c['f']) not in funs:
            funs.append(list(c['f']))
    targets = [None] + funs[:3] + ([list(extra_F)] if extra_F else [])
    # sympy may have cancelled / merged terms: the recorded chains must be the chains of the tree that was built
    trav = all_chains(K, m)
    for keys in (PHYS, LOGI):
        for F in targets:
            Fa = None if F is None else spec_atom(env, F)
            if k_truth(chs, keys, F) != true_max(trav, keys, m, Fa):
                return [], 0, 'skipped:rewritten-by-sympy'
    tag = 'fixed:' + label if label else str(K)[:300]
    bad, calls = [], 0
    for lg, fmax, keys in ((False, dv.get_max_partial_derivatives, PHYS), (True, dv.get_max_logical_partial_derivatives, LOGI)):
        for F in targets:
            Fa = None if F is None else spec_atom(env, F)
            want = k_truth(chs, keys, F)
            r = call(fmax, K) if F is None else call(fmax, K, Fa)
            calls += 1
            got = triple(r[1], keys) if r[0] == 'ok' else repr(r[1])
            if got != want:
                bad.append(('multiarg-max:%s:%s:%s' % ('logical' if lg else 'physical', Fa, tag),
                            '%s(%s%s) = %s, but the derivative chains put into the kernel give %s (chains: %s)' % (
                                fmax.__name__, str(K)[:300], '' if F is None else ', F=%s' % Fa, got, want,
                                ', '.join('%s:%s' % (spec_atom(env, c['f']), ''.join(c['cs']) or '-') for c in chs)[:300]), 'max'))
    if not (heads & {'pw', 'Max', 'Min'}):      # Piecewise / Max / Min are not translated by SymbolicExpr (NotImplementedError)
        want = k_build(env, m, root, lambda c: k_chain_symbol(env, m, c))
        r = call(SE, K)
        calls += 1
        if r[0] == 'err':
            bad.append(('multiarg-symb:' + tag, 'SymbolicExpr raises %s(%s) on %s' % (type(r[1]).__name__, r[1], str(K)[:300]), 'hom'))
        elif not same_value(r[1], want, m):
            bad.append(('multiarg-symb:' + tag, 'SymbolicExpr(%s) = %s, expected %s (every chain replaced by its symbol, in place)' % (
                str(K)[:300], str(r[1])[:300], str(want)[:300]), 'hom'))
    kind = 'piecewise' if 'pw' in heads else ('function' if heads & set(MULTI_FUNCTION) else ('max-min' if heads & set(MULTI_OTHER) else 'one-argument'))
    return bad, calls, 'multiarg:' + kind


def oracle(ctx, factor, seeds):
    m = mods()
    o = Oracle()
    rng = ctx.rng
    dv, SE = m['dv'], m['SymbolicExpr']
    sympy = m['sympy']
    envs = {d: Env(d, tag='c17') for d in (1, 2, 3)}
    E3 = envs[3]
    f, g = E3.sf[0], E3.sf[1]
    Fv = E3.vf[0]

    # ---- fixed corpus: witnesses of the repaired findings and of the open (hygiene) findings
    def fixed_max(key, what, K, want, logical=False, F=None):
        o.evaluations += 1
        fn = dv.get_max_logical_partial_derivatives if logical else dv.get_max_partial_derivatives
        r = call(fn, K) if F is None else call(fn, K, F)
        keys = LOGI if logical else PHYS
        got = triple(r[1], keys) if r[0] == 'ok' else repr(r[1])
        if got != want:
            o.fail(key, what + ': reported %s, true maximum %s' % (got, want), kernel=str(K), op='max')
        else:
            o.count('fixed-corpus:' + key.split(':')[0])

    fixed_max('max-in-function:sin(dx(dx(f)))+dx(f)', 'get_max_partial_derivatives(sin(dx(dx(f))) + dx(f)) ignores the chain inside sin',
              m['sin'](dv.dx(dv.dx(f))) + dv.dx(f), [2, 0, 0])
    fixed_max('max-in-exponent:dx(f)**dy(dy(g))', 'get_max_partial_derivatives(dx(f)**dy(dy(g))) ignores the chain in the exponent',
              dv.dx(f) ** dv.dy(dv.dy(g)), [1, 2, 0])
    fixed_max('max-in-matrix:Matrix([[dx(dx(f))]])', 'get_max_partial_derivatives(Matrix([[dx(dx(f))]])) ignores matrix entries',
              m['Matrix']([[dv.dx(dv.dx(f))]]), [2, 0, 0])
    fixed_max('max-mixed:dx(dx1(f))', 'get_max_partial_derivatives(dx(dx1(f))) ignores a chain mixing physical and logical derivatives',
              dv.dx(dv.dx1(f)), [1, 0, 0])
    fixed_max('max-mixed-logical:dx(dx1(f))', 'get_max_logical_partial_derivatives(dx(dx1(f))) ignores a chain mixing physical and logical derivatives',
              dv.dx(dv.dx1(f)), [1, 0, 0], logical=True)
    o.evaluations += 3
    if SE(dv.dx(dv.dx1(f))) == SE(dv.dx1(f)):
        o.fail('name-mixed:dx(dx1(f))', 'SymbolicExpr(dx(dx1(f))) == SymbolicExpr(dx1(f)) = %s: the outer physical derivative is lost' % SE(dv.dx1(f)),
               op='name')
    else:
        o.count('fixed-corpus:name-mixed')
    if SE(dv.dx1(dv.dx(f))) == SE(dv.dx(f)):
        o.fail('name-mixed:dx1(dx(f))', 'SymbolicExpr(dx1(dx(f))) == SymbolicExpr(dx(f)) = %s: the outer logical derivative is lost' % SE(dv.dx(f)),
               op='name')
    else:
        o.count('fixed-corpus:name-mixed')
    r = SE(dv.dx(f) ** dv.dy(g))
    if r.atoms(dv.dx, dv.dy):
        o.fail('hom-exponent:dx(f)**dy(g)', 'SymbolicExpr(dx(f)**dy(g)) = %s still contains a derivative atom (the exponent is not converted)' % r, op='hom')
    else:
        o.count('fixed-corpus:hom-exponent')
    # open findings: un-hygienic names
    from sympde.topology import element_of
    u = element_of(E3.V, name='uc17')
    u_x = element_of(E3.V, name='uc17_x')
    o.evaluations += 2
    if SE(dv.dx(u)) == SE(u_x):
        o.fail('hygiene:u_x', 'SymbolicExpr(dx(u)) == SymbolicExpr(u_x) for a function literally named u_x', op='name')
    F_0 = element_of(E3.V, name=str(Fv.name) + '_0')
    if SE(Fv[0]) == SE(F_0):
        o.fail('hygiene:F_0', 'SymbolicExpr(F[0]) == SymbolicExpr(F_0) for a scalar function literally named F_0', op='name')

    # ---- matrices of every shape and sequences: shape kept, entry (i,j) = conversion of entry (i,j)
    mspecs = fixed_mspecs()
    for i in range((1500 if ctx.thorough else 250) * factor):
        mspecs.append(gen_mspec(rng, rng.choice([1, 2, 2, 3, 3])))
    for spec in mspecs:
        o.evaluations += 1
        bad = check_mspec(m, envs, spec)
        if bad:
            o.fail(bad[0], bad[1], mspec=spec, op='matrix')
        else:
            nr, nc = spec['shape']
            o.count('matrix:%s:%s' % (spec['cls'], 'square' if nr == nc else ('row' if nr == 1 else ('column' if nc == 1 else 'rectangular')))
                    if spec['cls'] in ('Matrix', 'ImmutableDenseMatrix') else 'sequence:' + spec['cls'])
    # a non-square matrix inside a tuple keeps its shape as well
    o.evaluations += 1
    Mx = m['Matrix']([[dv.dx(f), dv.dy(f), dv.dx(dv.dy(g))]])
    r = call(SE, (Mx, dv.dx(g)))
    if r[0] == 'err' or not isinstance(r[1], m['Tuple']) or len(r[1]) != 2 or tuple(getattr(r[1][0], 'shape', ())) != (1, 3) \
            or list(r[1][0]) != [m['Symbol'](f.name + '_x'), m['Symbol'](f.name + '_y'), m['Symbol'](g.name + '_xy')] \
            or r[1][1] != m['Symbol'](g.name + '_x'):
        o.fail('matrix-in-tuple:1x3', 'SymbolicExpr((Matrix 1x3 [dx(f), dy(f), dx(dy(g))], dx(g))) = %s' % (r[1],), op='matrix')
    else:
        o.count('matrix:in-tuple')

    # ---- functions of several arguments (atan2, Piecewise, undefined functions, besselj, Heaviside, Max, Min):
    #      chains in every argument position; truth = the multi-indices recorded in the description
    kspecs = [(label, sp, None) for label, sp in fixed_kspecs()]
    for i in range((1200 if ctx.thorough else 200) * factor):
        dim = rng.choice([1, 2, 2, 3, 3])
        extra = None
        if rng.random() < 0.15:     # sometimes also a function that need not occur
            extra = ['s', rng.randrange(3)] if rng.random() < 0.5 else ['v', rng.randrange(3), rng.randrange(dim)]
        kspecs.append((None, KGen(rng, dim).kspec(), extra))
    for label, sp, extra in kspecs:
        bad, calls, tag = check_kspec(m, envs, sp, label, extra)
        o.evaluations += max(calls, 1)
        if label and tag.startswith('skipped'):
            o.count('multiarg:fixed-case-not-built')
        for key, what, op in bad:
            o.fail(key, what, kspec=sp, label=label, extra_F=extra, op=op)
        if not bad:
            o.count(tag, max(calls, 1))
            if label and not tag.startswith('skipped'):
                o.count('fixed-corpus:multiarg')

    # ---- bookkeeping on random kernels
    nk = (4000 if ctx.thorough else 700) * factor
    kernels = []
    for s in seeds or []:
        pass
    for i in range(nk):
        dim = rng.choice([1, 2, 2, 3, 3])
        try:
            kernels.append((dim, Gen(rng, envs[dim], m, multi=True).kernel()))
        except (RecursionError, AttributeError, KeyError, IndexError) as ex:
            # the derivative constructors themselves fail while the kernel is assembled: a finding, not a crash
            o.evaluations += 1
            o.fail('kernel-build-raises:%d:%d' % (dim, i), 'assembling random kernel no. %d (dim %d) from dx/dy/dz/dx1.. raised %s' % (i, dim, type(ex).__name__),
                   op='build', dim=dim)
    for dim, K in kernels:
        chains = all_chains(K, m)
        if any(not is_fun_atom(a, m) for a, _, _ in chains):
            o.count('skipped:non-canonical-chain')
            continue
        fs = fun_atoms(K, m)
        targets = [None] + fs[:3]
        if any(len(x.args) > 1 for x in getattr(K, 'atoms', lambda *a: ())(sympy.Function)):
            o.count('max:kernel-with-function-of-several-arguments')
        for lg, fmax, keys in ((False, dv.get_max_partial_derivatives, PHYS), (True, dv.get_max_logical_partial_derivatives, LOGI)):
            for F in targets:
                o.evaluations += 1
                r = call(fmax, K) if F is None else call(fmax, K, F)
                want = true_max(chains, keys, m, F)
                got = triple(r[1], keys) if r[0] == 'ok' else repr(r[1])
                if got != want:
                    o.fail('max:%s:%s:%s' % ('logical' if lg else 'physical', F, str(K)[:400]),
                           '%s(%s%s) = %s, true maximum over all derivative chains %s' % (
                               fmax.__name__, str(K)[:300], '' if F is None else ', F=%s' % F, got, want),
                           kernel=str(K), F=str(F), op='max', dim=dim)
                else:
                    o.count('max:%s:%s' % ('logical' if lg else 'physical', 'overall' if F is None else 'per-function'))
                    if want != [0, 0, 0]:
                        o.count('max:nonzero')
        if len(o.samples) < 3 and len(chains) >= 3 and len(str(K)) < 200:
            o.samples.append({'kernel': str(K), 'max': str(dv.get_max_partial_derivatives(K)), 'logical': str(dv.get_max_logical_partial_derivatives(K))})
        # homomorphism on the kernel's own structure
        o.evaluations += 1
        r = call(SE, K)
        if r[0] == 'err':
            o.fail('symb-raises:' + str(K)[:300], 'SymbolicExpr raises %s(%s) on the kernel %s' % (type(r[1]).__name__, r[1], str(K)[:300]), kernel=str(K), op='hom')
            continue
        left = all_chains(r[1], m)
        if left or any(getattr(r[1], 'atoms', lambda *a: set())(m['ScalarFunction'], m['VectorFunction'])):
            o.fail('symb-incomplete:' + str(K)[:300], 'SymbolicExpr(%s) = %s still contains functions or derivative atoms' % (str(K)[:300], str(r[1])[:300]), kernel=str(K), op='hom')
        else:
            o.count('hom:terminal-free')

    # ---- homomorphism: sums, products, powers, functions, matrices
    nh = (2000 if ctx.thorough else 300) * factor
    for i in range(nh):
        dim = rng.choice([1, 2, 3])
        gen = Gen(rng, envs[dim], m)
        a, b = gen.scalar(1), gen.scalar(1)
        sa, sb = SE(a), SE(b)
        checks = [('add', SE(a + b), sa + sb), ('mul', SE(a * b), sa * sb), ('pow-int', SE(a ** 3), sa ** 3),
                  ('pow-expr', SE(a ** b), sa ** sb), ('sin', SE(m['sin'](a)), m['sin'](sa)),
                  ('matrix', SE(m['Matrix']([[a, b], [b, 1]])), m['Matrix']([[sa, sb], [sb, 1]])),
                  ('tuple', SE(m['Tuple'](a, b)), m['Tuple'](sa, sb))]
        for name, got, want in checks:
            o.evaluations += 1
            if not same_value(got, want, m):
                o.fail('hom:%s:%s|%s' % (name, str(a)[:200], str(b)[:200]),
                       'SymbolicExpr does not commute with %s: got %s, expected %s (a=%s, b=%s)' % (name, str(got)[:200], str(want)[:200], str(a)[:200], str(b)[:200]),
                       a=str(a), b=str(b), op='hom')
            else:
                o.count('hom:' + name)

    # ---- naming: order invariance and injectivity on pools of chains
    npool = (800 if ctx.thorough else 120) * factor
    for i in range(npool):
        dim = rng.choice([1, 2, 3, 3])
        gen = Gen(rng, envs[dim], m)
        pool = {}
        for j in range(14):
            atom = gen.atom()
            blocks = gen.chain_spec()
            for rep in range(2):   # two orders of application inside every block
                bl = [(lg, rng.sample(cs, len(cs))) for lg, cs in blocks]
                e = gen.apply(atom, bl)
                ch = all_chains(e, m)
                o.evaluations += 1
                if not blocks:
                    ident, exp = (str(atom), ()), expected_name(atom, [], m)
                else:
                    if len(ch) != 1 or ch[0][0] != atom:
                        o.count('skipped:chain-not-kept')
                        continue
                    ident, exp = chain_id(atom, ch[0][2]), expected_name(atom, ch[0][2], m)
                r = call(SE, e)
                if r[0] == 'err' or not isinstance(r[1], m['Symbol']):
                    o.fail('name-type:%s' % e, 'SymbolicExpr(%s) is not a symbol: %r' % (e, r[1]), chain=str(e), op='name')
                    continue
                name = r[1].name
                if name != exp:
                    o.fail('name:%s' % e, 'SymbolicExpr(%s) = %s, expected %s (name, component, sorted code per block)' % (e, name, exp), chain=str(e), op='name')
                else:
                    o.count('name:expected' + (':mixed' if len(ident[1]) > 1 else ''))
                pool.setdefault(ident, set()).add(name)
        # same identity -> one symbol; different identities -> different symbols
        seen = {}
        for ident, names in pool.items():
            o.evaluations += 1
            if len(names) != 1:
                o.fail('order:%s' % (ident,), 'the chain %s gets different symbols in different orders of differentiation: %s' % (ident, sorted(names)), op='name')
                continue
            n = next(iter(names))
            if n in seen and seen[n] != ident:
                o.fail('collision:%s|%s' % (seen[n], ident), 'two different chains %s and %s get the same symbol %s' % (seen[n], ident, n), op='name')
            else:
                o.count('name:injective')
            seen[n] = ident
    return o


def replay(ctx, path):
    """re-evaluates the fixed corpus and the recorded kernel family on the real code"""
    d = json.load(open(path))
    print(json.dumps(d, indent=1)[:3500])
    key = d.get('key', '')
    spec = (d.get('detail') or {}).get('mspec')
    if spec:
        m = mods()
        envs = {dd: Env(dd, tag='c17') for dd in (1, 2, 3)}
        bad = check_mspec(m, envs, spec)
        if bad:
            print('REPLAY: still failing:', bad[1])
            return 1
        print('REPLAY: the recorded matrix / sequence is converted entry by entry again')
        return 0

    kspec = (d.get('detail') or {}).get('kspec')
    if kspec:
        m = mods()
        envs = {dd: Env(dd, tag='c17') for dd in (1, 2, 3)}
        bad, calls, tag = check_kspec(m, envs, kspec, d['detail'].get('label'), d['detail'].get('extra_F'))
        still = [b for b in bad if b[0] == key] or bad
        if still:
            print('REPLAY: still failing:', still[0][1])
            return 1
        print('REPLAY: the recorded kernel (%s) now gives the recorded maxima (%d calls)' % (tag, calls))
        return 0

    class C:
        pass
    import random
    c2 = C()
    c2.rng = random.Random(0)
    c2.thorough = False
    o = oracle(c2, 0, [])
    still = [f for f in o.failures if f['key'] == key]
    if still:
        print('REPLAY: still failing:', still[0]['what'])
        return 1
    fixed = [f['key'] for f in o.failures]
    if key.split(':')[0] in ('max', 'hom', 'name', 'collision', 'order', 'symb-raises', 'symb-incomplete', 'name-type', 'matrix'):
        print('REPLAY: random kernel; re-run `VERIF_SEED=%s ./check C17 --tier %s` to regenerate it; fixed corpus now fails on: %s' % (
            d.get('seed'), d.get('tier'), fixed))
        return 0
    print('REPLAY: the recorded witness no longer fails')
    return 0
