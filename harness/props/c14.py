"""C14 — unions of domains behave as canonical finite sets.

correspondence: Model/Union.lean (mkUnion / complement / render / iteration machine) against
`sympde.topology.basic.Union` on random families, nestings and operation sequences.
oracle: Python frozenset semantics on the member names, evaluated on the real code only; for families with members
that print alike and for sessions re-using names in other dimensions: set semantics on object identity (id()).
"""
import itertools
import json

from harness.common import Corr, Oracle
from harness.sexp import A, dumps

PID = 'C14'
PROPS_MODULE = 'SympdeModel.Props.C14'
RULE = ('random families of real sympde objects (InteriorDomain with/without dim, NCubeInterior, Boundary faces of plain '
        'and mapped patches, Interface, Domain; hygienic unique names, 1D-3D) combined by random nested Union(...) programs '
        '(None members, duplicates, equal copies, nested unions up to depth 3, a stream with mixed dimensions and '
        'non-domain arguments; a stream of sessions re-using the same names for members of another dimension, also several times inside one call); every real Union(...) call is one case (arguments serialised as the constructor sees them), '
        'plus per resulting Union object: random operation sequences iter()/next() on several live iterators '
        '(random interleavings and nested-for / zip shaped sequences), complement()/__sub__ with None / member / non-member / '
        'Union / list / int arguments, str(). Non-trivial = the call flattens a Union argument, drops a None or a duplicate, '
        'is refused, or the sequence has >= 2 live iterators / the complement removes something; distinct by request line')
ASSUMPTIONS = [
    'name hygiene: str() is injective on the members that meet in one union (sympde objects compare by class and name; '
    'identity by name is property C12) - hypothesis KeyInj/Hygienic of the theorems, guaranteed by the generators of the '
    'correspondence run (the oracle additionally checks unions with members that print alike, as sets of objects)',
    'Python str comparison = Lean String order (both lexicographic on code points); Python set()/sorted() modelled by '
    'dedup + stable insertion sort (checked by the correspondence run on every case)',
    'a Union object handed to Union(...) or complement(...) was itself produced by Union.__new__ (members of one dimension)',
]

LETTERS = 'abzAMZq_0éΩ'


def _mods():
    from sympde.topology import Domain, Line, Square, Cube, Mapping
    from sympde.topology.basic import Union, InteriorDomain, Boundary, Interface, BasicDomain
    return locals()


# --------------------------------------------------------------------------- object pools

class Pool:
    """real sympde objects of one dimension with unique, hygienic names"""

    counter = 0

    def __init__(self, rng, dim, m, rich=True):
        Pool.counter += 1
        self.tag = 'k%d' % Pool.counter
        self.dim = dim
        self.objs = []
        self.j = 0
        I = m['InteriorDomain']
        if dim is None:
            for _ in range(rng.randint(2, 5)):
                self.objs.append(I(self.name(rng)))
            return
        for _ in range(rng.randint(2, 5)):
            self.objs.append(I(self.name(rng), dim=dim))
        if rich:
            mk = {1: lambda n, lo: m['Line'](n, bounds=(lo, lo + 1)),
                  2: lambda n, lo: m['Square'](n, bounds1=(lo, lo + 1)),
                  3: lambda n, lo: m['Cube'](n, bounds1=(lo, lo + 1))}[dim]
            P, Q = mk(self.name(rng), 0), mk(self.name(rng), 1)
            self.objs += [P.interior, Q.interior]
            self.objs += list(P.boundary.args) + list(Q.boundary.args)[:2]
            ornt = {1: (), 2: (rng.choice([1, -1]),), 3: ((1, rng.choice([1, -1]), -1),)}[dim]
            J = m['Domain'].join([P, Q], [((0, 0, 1), (1, 0, -1)) + ornt], self.name(rng))
            self.objs += [J, J.interfaces]       # (P itself prints like P.interior: not hygienic)
            if rng.random() < 0.5:
                M = m['Mapping']('F' + self.tag, dim=dim)
                MP = M(mk(self.name(rng), 2))
                self.objs += list(MP.boundary.args)[:3] + [MP.interior]
        keys = [str(o) for o in self.objs]
        assert len(set(keys)) == len(keys), keys

    def name(self, rng):
        self.j += 1
        return ''.join(rng.choice(LETTERS) for _ in range(rng.randint(1, 2))) + '%s_%d' % (self.tag, self.j)


def dimtok(d):
    return A('None') if d is None else int(d)


def ser_atom(o):
    return [A('a'), str(o), dimtok(o.dim)]


def ser_arg(o, m):
    if o is None:
        return A('none')
    if isinstance(o, m['Union']):
        return [A('u')] + [ser_atom(x) for x in o.args]
    if isinstance(o, m['BasicDomain']):
        return ser_atom(o)
    return A('bad')


def ser_res(r, m):
    if isinstance(r, BaseException):
        return 'err ' + type(r).__name__
    if r is None:
        return 'ok null'
    if isinstance(r, m['Union']):
        return 'ok ' + dumps([A('union')] + [ser_atom(x) for x in r.args])
    return 'ok ' + dumps([A('single'), ser_atom(r)])


def members_sexp(U):
    return dumps([A('members')] + [ser_atom(x) for x in U.args])


# --------------------------------------------------------------------------- programs

def gen_prog(rng, pool, depth=0, other=None, bad_p=0.0):
    """a nested Union program: ('u', [children]); children: ('o', obj) | ('n',) | ('b', value) | program"""
    n = rng.choice([0, 1, 1, 2, 2, 3, 3, 4, 5, 6]) if depth else rng.choice([1, 2, 2, 3, 3, 4, 5, 7])
    ch = []
    for _ in range(n):
        k = rng.random()
        if k < 0.12:
            ch.append(('n',))
        elif k < 0.32 and depth < 3:
            ch.append(gen_prog(rng, pool, depth + 1, other, bad_p))
        elif 0.32 <= k < 0.32 + bad_p:
            ch.append(('b', rng.choice([3, 'Omega', 2.5, (1, 2)])))
        elif other is not None and 0.32 + bad_p <= k < 0.40 + bad_p:
            ch.append(('o', rng.choice(other.objs)))
        else:
            ch.append(('o', rng.choice(pool.objs)))
    return ('u', ch)


def prog_str(p):
    if p[0] == 'o':
        return str(p[1])
    if p[0] == 'n':
        return 'None'
    if p[0] == 'b':
        return 'BAD:%r' % (p[1],)
    return 'Union(' + ', '.join(prog_str(c) for c in p[1]) + ')'


class Raised(Exception):
    def __init__(self, exc):
        self.exc = exc


def run_prog(p, m, calls=None):
    """evaluate bottom-up with the real constructor; every call is recorded in `calls`"""
    if p[0] == 'o':
        return p[1]
    if p[0] == 'n':
        return None
    if p[0] == 'b':
        return p[1]
    args = [run_prog(c, m, calls) for c in p[1]]
    try:
        r = m['Union'](*args)
    except Exception as e:
        if calls is not None:
            calls.append((args, e))
        raise Raised(e)
    if calls is not None:
        calls.append((args, r))
    return r


def nested_for_ops(n, rng):
    """op sequence of `for a in U: for b in U: pass` (+ optional early break of the inner loop)"""
    ops = [A('iter')]
    outer, k = 0, 1
    for _ in range(n + 1):
        ops.append([A('next'), outer])
        ops.append(A('iter'))
        inner = k
        k += 1
        for _ in range(rng.choice([n + 1, n + 1, rng.randint(0, n)])):
            ops.append([A('next'), inner])
    return ops


def zip_ops(n):
    ops = [A('iter'), A('iter')]
    for _ in range(n + 1):
        ops += [[A('next'), 0], [A('next'), 1]]
    return ops


def random_ops(rng, n, maxlen):
    ops, k = [A('iter')], 1
    for _ in range(rng.randint(1, maxlen)):
        if rng.random() < 0.2 and k < 6:
            ops.append(A('iter'))
            k += 1
        else:
            ops.append([A('next'), rng.randrange(k)])
    return ops


def run_ops(U, ops):
    its, evs = [], []
    for op in ops:
        if str(op) == 'iter' and not isinstance(op, list):
            its.append(iter(U))
            evs.append([A('made'), len(its) - 1])
        else:
            try:
                x = next(its[int(op[1])])
                evs.append([A('elem'), ser_atom(x)])
            except StopIteration:
                evs.append(A('stop'))
    return evs


def correspondence(ctx):
    c = Corr()
    m = _mods()
    rng = ctx.rng
    nprog = 1500 if ctx.thorough else 260
    maxops = 60 if ctx.thorough else 30
    cases = []          # (kind, line, expected, nontrivial)
    seen = set()
    unions = {}

    def add(kind, line, exp, nt):
        if line in seen:
            return
        seen.add(line)
        cases.append((kind, line, exp, nt))

    for i in range(nprog):
        dim = rng.choice([1, 2, 2, 3, 3, None])
        try:
            pool = Pool(rng, dim, m, rich=rng.random() < 0.6)
        except Exception as e:
            c.disagreements.append({'input': 'object pool of dimension %s' % dim, 'impl': 'raised %r' % (e,), 'model': 'n/a',
                                    'note': 'building sympde objects (which uses Union internally) raised'})
            continue
        other = None
        bad_p = 0.0
        k = rng.random()
        if k < 0.12:
            other = Pool(rng, rng.choice([d for d in (1, 2, 3, None) if d != dim]), m, rich=False)
            c.count('stream:mixed-dim')
        elif k < 0.2:
            bad_p = 0.08
            c.count('stream:non-domain')
        else:
            c.count('stream:valid')
        p = gen_prog(rng, pool, 0, other, bad_p)
        calls = []
        try:
            run_prog(p, m, calls)
        except Raised:
            pass
        for args, r in calls:
            sargs = [ser_arg(a, m) for a in args]
            line = 'C14 union ' + ' '.join(dumps(s) for s in sargs)
            flat = [x for a in args if isinstance(a, m['BasicDomain']) for x in (a.args if isinstance(a, m['Union']) else [a])]
            nt = (any(a is None or isinstance(a, m['Union']) for a in args) or isinstance(r, BaseException)
                  or len(set(flat)) != len(flat))
            add('union', line, ser_res(r, m), nt)
            if isinstance(r, m['Union']):
                unions[members_sexp(r)] = (r, pool.objs + (other.objs if other is not None else []))
    # sessions in which the same names come back with another dimension (the constructor must not remember earlier calls)
    for i in range(200 if ctx.thorough else 40):
        for step in gen_session(rng, prefix='g'):
            calls = []
            run_step(step, m, calls)
            c.count('stream:name-reuse')
            for args, r in calls:
                line = 'C14 union ' + ' '.join(dumps(ser_arg(a, m)) for a in args)
                add('union', line, ser_res(r, m), any(a is None or isinstance(a, m['Union']) for a in args) or isinstance(r, BaseException))
    # operations on the resulting Union objects
    for ms, (U, objs) in list(unions.items()):
        n = len(U.args)
        for ops in (random_ops(rng, n, maxops), random_ops(rng, n, maxops),
                    nested_for_ops(n, rng) if n <= 6 else random_ops(rng, n, maxops), zip_ops(n)):
            line = 'C14 iter %s %s' % (ms, dumps(ops))
            nit = sum(1 for o in ops if not isinstance(o, list))
            add('iter', line, 'ok ' + dumps(run_ops(U, ops)), nit >= 2)
        add('str', 'C14 str ' + ms, 'ok ' + dumps(str(U)), False)
        outsiders = [o for o in objs if o not in U.args and o.dim == U.dim]
        for _ in range(3):
            k = rng.random()
            some = rng.sample(list(U.args), rng.randint(0, n)) + rng.sample(outsiders, min(len(outsiders), rng.randint(0, 2)))
            rng.shuffle(some)
            if k < 0.1:
                arg, sarg = None, A('none')
            elif k < 0.3:
                arg = rng.choice(list(U.args) + outsiders)
                sarg = ser_atom(arg)
            elif k < 0.7:
                try:
                    arg = m['Union'](*some)
                except Exception as e:
                    c.disagreements.append({'input': 'Union(%s)' % ', '.join(str(x) for x in some), 'impl': 'raised %r' % (e,),
                                            'model': 'n/a', 'note': 'a union of objects of one dimension was refused'})
                    continue
                sarg = ser_arg(arg, m)
            elif k < 0.9:
                arg = list(some) if rng.random() < 0.5 else tuple(some)
                sarg = [A('seq')] + [ser_atom(x) for x in some]
            else:
                arg, sarg = rng.choice([3, 2.5]), A('bad')
            try:
                r = U.complement(arg) if rng.random() < 0.5 else U - arg
            except Exception as e:
                r = e
            rem = isinstance(r, BaseException) or r is None or not isinstance(r, m['Union']) or len(r.args) != n
            add('compl', 'C14 compl %s %s' % (ms, dumps(sarg)), ser_res(r, m), rem)
    outs = ctx.driver.run([x[1] for x in cases])
    for (kind, line, exp, nt), out in zip(cases, outs):
        c.evaluations += 1
        c.count('kind:' + kind)
        c.count('%s:%s' % (kind, exp.split()[0] + (' ' + exp.split()[1] if exp.startswith('err') else
                                                  (':' + exp[3:].split()[0].strip('()') if kind != 'iter' and kind != 'str' else ''))))
        if out != exp:
            c.disagreements.append({'input': line, 'impl': exp, 'model': out, 'note': kind})
        if nt:
            c.nontrivial.add(line)
            if len(c.samples) < 6 and len(line) < 600 and kind in ('union', 'iter', 'compl') and \
                    sum(1 for s in c.samples if s['kind'] == kind) < 2:
                c.samples.append({'kind': kind, 'request': line, 'impl': exp, 'model': out})
    return c


# --------------------------------------------------------------------------- oracle

def leaves(p):
    """independent semantics of a program: the frozenset of the leaf objects' names"""
    if p[0] == 'o':
        return frozenset([str(p[1])])
    if p[0] in ('n',):
        return frozenset()
    if p[0] == 'b':
        raise ValueError('bad leaf')
    out = frozenset()
    for ch in p[1]:
        out |= leaves(ch)
    return out


def shuffled(p, rng):
    if p[0] != 'u':
        return p
    ch = [shuffled(x, rng) for x in p[1]]
    rng.shuffle(ch)
    return ('u', ch)


def names_of(r, m):
    if r is None:
        return frozenset()
    if isinstance(r, m['Union']):
        return frozenset(str(x) for x in r.args)
    return frozenset([str(r)])


def check_value(o, r, exp, m, what, ps):
    """r must be the canonical representation of the name set `exp`"""
    U = m['Union']
    if names_of(r, m) != exp:
        o.fail('members:%s:%s' % (what, ps), '%s: members of %s are %s, expected the set %s' % (what, ps, sorted(names_of(r, m)), sorted(exp)))
        return False
    if len(exp) == 0 and r is not None:
        o.fail('empty-not-null:%s:%s' % (what, ps), '%s: the empty union %s is %r, not None' % (what, ps, r))
        return False
    if len(exp) == 1 and isinstance(r, U):
        o.fail('single-wrapped:%s:%s' % (what, ps), '%s: the one-member union %s is wrapped: %r' % (what, ps, r))
        return False
    if len(exp) > 1:
        if not isinstance(r, U):
            o.fail('not-union:%s:%s' % (what, ps), '%s: %s is %r' % (what, ps, r))
            return False
        keys = [str(x) for x in r.args]
        if len(r.args) != len(exp) or len(r) != len(exp) or any(isinstance(x, U) for x in r.args):
            o.fail('dup-or-nested:%s:%s' % (what, ps), '%s: %s has args %s (duplicates or nested unions kept)' % (what, ps, keys))
            return False
        if keys != sorted(keys):
            o.fail('unsorted:%s:%s' % (what, ps), '%s: args of %s are not sorted by str: %s' % (what, ps, keys))
            return False
        if tuple(r.as_tuple()) != tuple(r.args):
            o.fail('as_tuple:%s:%s' % (what, ps), 'as_tuple() differs from args for %s' % ps)
            return False
    return True


def same(a, b):
    """equality, hash and printing agree"""
    return (a is None and b is None) or (a is not None and b is not None and a == b and hash(a) == hash(b) and str(a) == str(b))


def check_iteration(o, U, rng, ps):
    n = len(U.args)
    ref = list(U.args)
    o.count('iteration')
    l1, l2 = list(U), [x for x in U]
    if l1 != ref or l2 != ref:
        o.fail('iter-repeat:%s' % ps, 'two successive iterations over %s give %s and %s, members are %s' % (ps, l1, l2, ref))
        return
    pairs = [(a, b) for a in U for b in U]
    if pairs != list(itertools.product(ref, ref)):
        o.fail('iter-nested:%s' % ps, 'nested iteration `for a in U: for b in U` over %s (%d members) yields %d pairs instead of %d'
               % (ps, n, len(pairs), n * n), pairs=[(str(a), str(b)) for a, b in pairs])
        return
    z = list(zip(U, U))
    if z != [(a, a) for a in ref]:
        o.fail('iter-zip:%s' % ps, 'zip(U, U) over %s yields %s' % (ps, [(str(a), str(b)) for a, b in z]))
        return
    # early exit of one iteration must not disturb the next one
    for x in U:
        break
    if any(x is ref[0] for x in []) or list(U) != ref or sum(1 for _ in U) != n or len(U) != n:
        o.fail('iter-after-break:%s' % ps, 'iteration after an abandoned iteration over %s does not visit every member once' % ps)
        return
    # random interleaving of several live iterators
    k = rng.randint(2, 4)
    its = [iter(U) for _ in range(k)]
    got = [[] for _ in range(k)]
    live = list(range(k))
    while live:
        i = rng.choice(live)
        try:
            got[i].append(next(its[i]))
        except StopIteration:
            live.remove(i)
        if rng.random() < 0.1 and len(its) < 8:
            its.append(iter(U))
            got.append([])
            live.append(len(its) - 1)
    if any(g != ref for g in got):
        o.fail('iter-interleaved:%s' % ps, 'interleaved iterators over %s yield %s instead of %s each'
               % (ps, [[str(x) for x in g] for g in got], [str(x) for x in ref]))


def check_complement(o, U, pool, rng, m, ps):
    Un = m['Union']
    ref = list(U.args)
    outsiders = [x for x in pool.objs if x not in ref]
    for _ in range(3):
        o.count('complement')
        S = rng.sample(ref, rng.randint(0, len(ref))) + rng.sample(outsiders, min(len(outsiders), rng.randint(0, 2)))
        rng.shuffle(S)
        form = rng.choice(['union', 'union', 'single', 'none'])
        if form == 'single' and S:
            S = S[:1]
            arg = S[0]
        elif form == 'none' or not S:
            S, arg = [], None
        else:
            arg = Un(*S)
        r = U.complement(arg) if rng.random() < 0.5 else U - arg
        exp = frozenset(str(x) for x in ref) - frozenset(str(x) for x in S)
        what = '%s - {%s}' % (ps, ', '.join(sorted(str(x) for x in S)))
        if not check_value(o, r, exp, m, 'complement', what):
            return
        if arg is None and r is not U and r != U:
            o.fail('complement-none:%s' % ps, 'U.complement(None) is not U for %s' % ps)


def expect_raises(o, f, exc, key, what):
    try:
        r = f()
    except exc:
        return
    except Exception as e:
        o.fail(key, '%s raised %s instead of %s' % (what, type(e).__name__, exc.__name__))
        return
    o.fail(key, '%s was not refused (%s expected): returned %r' % (what, exc.__name__, r))


def check_program(o, p, pool, other, rng, m):
    Un = m['Union']
    ps = prog_str(p)
    exp = leaves(p)
    r = run_prog(p, m)
    o.count('program')
    if not check_value(o, r, exp, m, 'construct', ps):
        return
    if len(exp) == 1:
        obj = [x[1] for x in iter_leaves(p)][0]
        if r != obj:
            o.fail('single-identity:%s' % ps, 'the one-member union %s is not the member itself' % ps)
    # argument order (at every level of nesting)
    for _ in range(2):
        q = shuffled(p, rng)
        r2 = run_prog(q, m)
        o.count('permutation')
        if not same(r, r2):
            o.fail('perm:%s|%s' % (ps, prog_str(q)), 'argument order matters: %s gives %s but %s gives %s (==, hash or str differ)' % (ps, r, prog_str(q), r2))
            return
    # flattening / duplicates / idempotence
    objs = [x[1] for x in iter_leaves(p)]
    o.count('flatten')
    if not same(r, Un(*objs)):
        o.fail('flatten:%s' % ps, 'nested %s differs from the flat union of its leaves %s' % (ps, Un(*objs)))
        return
    if not same(r, Un(*(objs + objs[::-1]))):
        o.fail('duplicates:%s' % ps, 'giving every member twice changes %s' % ps)
        return
    o.count('idempotence')
    if not same(r, Un(r, r)) or not same(r, Un(r)) or not same(r, Un(None, r, None)):
        o.fail('idem:%s' % ps, 'Union(U, U) / Union(U) / Union(None, U, None) differ from U = %s: %s, %s' % (ps, Un(r, r), Un(r)))
        return
    # associativity on a random 3-partition of the arguments
    ch = list(p[1])
    if len(ch) >= 2:
        i = rng.randint(0, len(ch))
        j = rng.randint(i, len(ch))
        a, b, c_ = run_prog(('u', ch[:i]), m), run_prog(('u', ch[i:j]), m), run_prog(('u', ch[j:]), m)
        o.count('associativity')
        l, rr = Un(Un(a, b), c_), Un(a, Un(b, c_))
        if not (same(l, rr) and same(l, r)):
            o.fail('assoc:%s:%d:%d' % (ps, i, j), 'Union(Union(a,b),c) = %s, Union(a,Union(b,c)) = %s, Union(a,b,c) = %s for the split %d,%d of %s' % (l, rr, r, i, j, ps))
            return
    if isinstance(r, Un):
        check_iteration(o, r, rng, ps)
        check_complement(o, r, pool, rng, m, ps)
    # refusals
    if other is not None and objs:
        x = rng.choice(other.objs)
        pos = rng.randint(0, len(objs))
        o.count('mixed-dim')
        expect_raises(o, lambda: Un(*(objs[:pos] + [x] + objs[pos:])), ValueError,
                      'mixed-dim:%s+%s@%d' % (ps, x, pos), 'Union of members of %s (dim %s) with %s (dim %s) at position %d' % (ps, pool.dim, x, other.dim, pos))
        if r is not None:
            expect_raises(o, lambda: Un(r, x) if rng.random() < 0.5 else Un(x, None, r), ValueError,
                          'mixed-dim-nested:%s+%s' % (ps, x), 'Union(U, x) with U = %s (dim %s) and x = %s (dim %s)' % (ps, pool.dim, x, other.dim))
    o.count('non-domain')
    bad = rng.choice([3, 'Omega', 2.5])
    expect_raises(o, lambda: Un(*(objs + [bad])), TypeError, 'non-domain:%s+%r' % (ps, bad), 'Union(..., %r)' % (bad,))


def iter_leaves(p):
    if p[0] == 'o':
        yield p
    elif p[0] == 'u':
        for ch in p[1]:
            for x in iter_leaves(ch):
                yield x


def fixed_corpus(o, m, rng):
    """witnesses of past defects (known_findings.json, status fixed) - always evaluated"""
    I, Un = m['InteriorDomain'], m['Union']
    U = Un(*[I('c14fix_%s' % s, dim=2) for s in 'ABC'])
    o.evaluations += 1
    check_iteration(o, U, rng, 'Union(c14fix_A, c14fix_B, c14fix_C)')
    sq = m['Square']('c14fixS')
    o.evaluations += 1
    check_iteration(o, sq.boundary, rng, 'Square(c14fixS).boundary')
    # unions of boundaries / interfaces with None members
    A_, B_ = m['Square']('c14fixP'), m['Square']('c14fixQ', bounds1=(1, 2))
    J = m['Domain'].join([A_, B_], [((0, 0, 1), (1, 0, -1), -1)], 'c14fixJ')
    r = Un(None, J.interfaces, None, *J.boundary.args[:2])
    o.evaluations += 1
    check_value(o, r, frozenset([str(J.interfaces)] + [str(b) for b in J.boundary.args[:2]]), m, 'construct', 'Union(None, c14fixP|c14fixQ, None, faces)')


def same_name_members(o, m, rng):
    """set semantics by object identity (== / hash), on members that PRINT alike: a two-patch ring glued twice gives
    two different interfaces both named 'A|B' — distinct members must never collapse, equal ones must
    (added after seeded change C14-1: de-duplication keyed on str(member))"""
    import itertools
    from sympde.topology import Square, Line, Cube
    U = m['Union']
    for mk, tag in ((Square, 'q'), (Line, 'l')):      # (Boundary.join needs an explicit orientation in 3D)
        Pa, Pb, Pc = mk('Sa' + tag), mk('Sb' + tag), mk('Sc' + tag)
        I1 = Pa.get_boundary(axis=0, ext=1).join(Pb.get_boundary(axis=0, ext=-1))
        I2 = Pa.get_boundary(axis=0, ext=-1).join(Pb.get_boundary(axis=0, ext=1))
        I3 = Pb.get_boundary(axis=0, ext=1).join(Pc.get_boundary(axis=0, ext=-1))
        if not (I1 != I2 and str(I1) == str(I2)):
            o.count('same-name:precondition-not-met')
            continue
        fams = [[I1, I2], [I1, I2, I3], [I1, I2, I1], [I2, I3, I2, I1]]
        for fam in fams:
            expected = set(fam)
            perms = list(itertools.permutations(fam))
            rng.shuffle(perms)
            for perm in perms[:6]:
                builds = [('flat', lambda: U(*perm))]
                if len(perm) >= 3:
                    builds.append(('nested', lambda: U(U(perm[0], perm[1]), *perm[2:])))
                    builds.append(('nested-right', lambda: U(perm[0], U(*perm[1:]))))
                for label, b in builds:
                    o.evaluations += 1
                    o.count('same-name:' + label)
                    u = b()
                    got = list(u.args) if isinstance(u, U) else ([] if u is None else [u])
                    if len(got) != len(expected) or set(got) != expected:
                        o.fail('same-name:%s:%s' % (tag, label),
                               'Union of %d distinct members printing %s returned %d member(s): members that print alike but are different objects were collapsed (or duplicated)' % (
                                   len(expected), sorted({str(x) for x in fam}), len(got)))
        u3 = U(I1, I2, I3)
        if isinstance(u3, U):
            r = u3.complement(I3)
            got = list(r.args) if isinstance(r, U) else ([] if r is None else [r])
            if set(got) != {I1, I2} or len(got) != 2:
                o.fail('same-name:%s:complement' % tag, 'complement on a union with same-named members removed the wrong members')


# --------------------------------------------------------------------------- members that print alike (ties)

class TiePool:
    """real objects of one dimension, every one created exactly once (so object identity is the ground truth of
    'the same member'), containing GROUPS of distinct members that print alike: a patch and its own interior, a
    Domain and its interior, a patch and a Domain of one name (4 objects, one string), the two interfaces of a
    two-patch ring, equally named faces on equally named domains, a mapped patch and its interior.
    `objs` = [(label, object)], labels unique and descriptive (the strings are not)"""

    counter = 0

    def __init__(self, rng, dim, m, tag=None, full=False):
        TiePool.counter += 1
        self.tag = t = tag if tag is not None else 't%d' % TiePool.counter
        self.dim = dim
        mk = {1: m['Line'], 2: m['Square'], 3: m['Cube']}[dim]
        I, D, B = m['InteriorDomain'], m['Domain'], m['Boundary']
        nm = lambda s: '%s%s' % (s, t)
        take = lambda p: full or rng.random() < p
        objs = []
        P, Q, R = mk(nm('P')), mk(nm('Q')), mk(nm('R'))
        if take(0.6):                                   # patch / its interior
            objs += [(nm('P') + '(patch)', P), (nm('P') + '(interior)', P.interior)]
        else:
            objs += [(nm('P') + '(interior)', P.interior)]
        objs += [(nm('Q') + '(interior)', Q.interior)]
        if take(0.7):                                   # ring of two patches: two interfaces 'P|Q', one more 'Q|R'
            kw = {} if dim < 3 else {'ornt': (1, rng.choice([1, -1]), 1)}
            ax = rng.randrange(dim)
            I1 = P.get_boundary(axis=ax, ext=1).join(Q.get_boundary(axis=ax, ext=-1), **kw)
            I2 = P.get_boundary(axis=ax, ext=-1).join(Q.get_boundary(axis=ax, ext=1), **kw)
            I3 = Q.get_boundary(axis=(ax + 1) % dim, ext=1).join(R.get_boundary(axis=(ax + 1) % dim, ext=-1), **kw)
            objs += [('%s|%s(+-)' % (nm('P'), nm('Q')), I1), ('%s|%s(-+)' % (nm('P'), nm('Q')), I2)]
            if take(0.5):
                objs += [('%s|%s' % (nm('Q'), nm('R')), I3)]
        if take(0.7):                                   # an undefined Domain and its interior
            Dm = D(nm('D'), dim=dim)
            objs += [(nm('D') + '(Domain)', Dm), (nm('D') + '(interior)', Dm.interior)]
            if take(0.5):                               # ... and a patch of the same name: 3-4 objects, one string
                S = mk(nm('D'))
                objs += [(nm('D') + '(patch)', S)]
                if take(0.5):
                    objs += [(nm('D') + '(patch interior)', S.interior)]
                if take(0.6):                           # equally named faces on equally named domains
                    f = S.get_boundary(axis=rng.randrange(dim), ext=rng.choice([-1, 1]))
                    objs += [('%s(face of patch)' % f, f), ('%s(face of Domain)' % f, B(f.name, Dm))]
            elif take(0.5):
                objs += [('%s_G(on Domain)' % nm('D'), B('G', Dm)), ('%s_G(on interior)' % nm('D'), B('G', Dm.interior))]
        if take(0.35):                                  # a mapped patch and its interior
            MP = m['Mapping']('F' + t, dim=dim)(mk(nm('E')))
            objs += [(str(MP) + '(mapped patch)', MP), (str(MP) + '(mapped interior)', MP.interior)]
        for k in range(rng.randint(0, 2)):              # ordinary members
            objs += [('%s%d' % (nm('a'), k), I('%s%d' % (nm('a'), k), dim=dim))]
        self.objs = objs
        self.groups = {}
        for l, x in objs:
            self.groups.setdefault(str(x), []).append(l)
        self.nties = sum(1 for g in self.groups.values() if len(g) > 1)
        self.outsiders = [R.interior, I(nm('out'), dim=dim)]


def _members(r, m):
    return [] if r is None else (list(r.args) if isinstance(r, m['Union']) else [r])


def _labels(xs, lab):
    """labels of result members by object identity; a member that is none of the given objects is reported as such"""
    return sorted(lab.get(id(x), '<foreign object %s>' % (x,)) for x in xs)


def check_shape(o, r, nexp, m, key, what):
    U = m['Union']
    if (nexp == 0 and r is not None) or (nexp == 1 and (r is None or isinstance(r, U))) or (nexp > 1 and not isinstance(r, U)):
        o.fail(key, '%s: a result of %d member(s) must be %s, got %r' % (what, nexp, ['None', 'the member itself'][nexp] if nexp < 2 else 'a Union', r))
        return False
    if isinstance(r, U):
        keys = [str(x) for x in r.args]
        if keys != sorted(keys) or any(isinstance(x, U) for x in r.args) or len(r) != len(r.args) or tuple(r.as_tuple()) != tuple(r.args):
            o.fail(key, '%s: args %s are not sorted by str / contain a union / len or as_tuple disagree' % (what, keys))
            return False
    return True


def check_tie_family(o, fam, outsiders, rng, m, ps, exhaustive=False):
    """set semantics BY OBJECT IDENTITY on a family [(label, obj)] of pairwise different objects some of which print alike:
    construction (flat, nested, permuted), complement by every kind of argument, iteration.  Ground truth: the python
    list held here, compared through id(); nothing of sympde's ==/hash/str is used for the expectation"""
    Un = m['Union']
    lab = {id(x): l for l, x in fam}
    objs = [x for _, x in fam]
    want = sorted(lab.values())
    n = len(objs)
    builds = [('flat', lambda: Un(*objs))]
    if n >= 2:
        perm = list(objs)
        rng.shuffle(perm)
        i = rng.randint(0, n)
        builds += [('permuted', lambda: Un(*perm)), ('twice', lambda: Un(*(objs + perm))),
                   ('nested', lambda: Un(Un(*perm[:i]), None, Un(*perm[i:]))),
                   ('nested-mixed', lambda: Un(perm[0], Un(*perm[1:]), perm[-1]))]
    U0 = None
    for label, b in builds:
        o.count('tie:construct:' + label)
        u = b()
        got = _labels(_members(u, m), lab)
        if got != want:
            o.fail('tie-construct:%s:%s' % (label, ps), 'the %s union of the %d different objects %s has the members %s: members that print alike '
                   'were collapsed, duplicated or replaced' % (label, n, want, got))
            return
        if not check_shape(o, u, n, m, 'tie-shape:%s:%s' % (label, ps), 'the %s union of %s' % (label, want)):
            return
        U0 = U0 if U0 is not None else u
    if not isinstance(U0, Un):
        return
    for label, f in (('Union(U,U)', lambda: Un(U0, U0)), ('Union(U)', lambda: Un(U0)), ('U - None', lambda: U0 - None),
                     ('U - outsider', lambda: U0.complement(outsiders[0]) if outsiders else U0)):
        got = _labels(_members(f(), m), lab)
        if got != want:
            o.fail('tie-idem:%s:%s' % (label, ps), '%s of U = union of %s has the members %s' % (label, want, got))
            return
    # complements: every subset of a small family, otherwise every single member, U itself and random subsets
    idx = list(range(n))
    if exhaustive or n <= 4:
        subsets = [s for r in range(1, n + 1) for s in itertools.combinations(idx, r)]
    else:
        subsets = [(k,) for k in idx] + [tuple(idx)] + [tuple(sorted(rng.sample(idx, rng.randint(2, n - 1)))) for _ in range(n + 2)]
    for S in subsets:
        rem = [objs[k] for k in S]
        extra = rng.sample(outsiders, rng.randint(0, len(outsiders))) if rng.random() < 0.3 else []
        given = rem + extra
        rng.shuffle(given)
        forms = ['single'] if len(given) == 1 else [rng.choice(['union', 'union', 'list', 'tuple'])]
        if len(given) > 1 and exhaustive:
            forms = ['union', 'list']
        for form in forms:
            arg = given[0] if form == 'single' else Un(*given) if form == 'union' else list(given) if form == 'list' else tuple(given)
            o.count('tie:complement:' + form)
            r = U0.complement(arg) if rng.random() < 0.5 else U0 - arg
            exp = sorted(lab[id(objs[k])] for k in idx if k not in S)
            got = _labels(_members(r, m), lab)
            key = 'tie-complement:%s - {%s}' % (ps, ', '.join(fam[k][0] for k in S))
            if got != exp:
                o.fail(key, 'U - V with U = union of %s and V = %s of %s%s: the result has the members %s, expected %s (a member printing like another one was '
                       'not removed, or the wrong one was)' % (want, form, [fam[k][0] for k in S], ' + %d non-member(s)' % len(extra) if extra else '', got, exp),
                       removed=[fam[k][0] for k in S], got=got, expected=exp)
                return
            if not check_shape(o, r, len(exp), m, key, 'U - %s' % [fam[k][0] for k in S]):
                return
    check_iteration(o, U0, rng, ps)


def tie_corpus(o, m, rng):
    """fixed families with stable keys: one tie group each, complements checked for every subset"""
    from sympde.topology import Square, Line, Cube
    I, D, B = m['InteriorDomain'], m['Domain'], m['Boundary']
    A_, B_, C_ = Square('c14tA'), Square('c14tB'), Square('c14tC')
    I1 = A_.get_boundary(axis=0, ext=1).join(B_.get_boundary(axis=0, ext=-1), ornt=1)
    I2 = A_.get_boundary(axis=0, ext=-1).join(B_.get_boundary(axis=0, ext=1), ornt=1)
    I3 = B_.get_boundary(axis=1, ext=1).join(C_.get_boundary(axis=1, ext=-1), ornt=1)
    Dm, Em = D('c14tD', dim=2), D('c14tE', dim=2)
    L = Line('c14tL')
    S = Square('c14tD')
    f = S.get_boundary(axis=0, ext=-1)
    K = Cube('c14tK')
    fams = [
        ('ring-interfaces', [('c14tA|c14tB(+-)', I1), ('c14tA|c14tB(-+)', I2), ('c14tB|c14tC', I3)]),
        ('domain+interior', [('c14tD(Domain)', Dm), ('c14tD(interior)', Dm.interior), ('c14tE(Domain)', Em)]),
        ('line+interior', [('c14tL(patch)', L), ('c14tL(interior)', L.interior)]),
        ('four-of-one-name', [('c14tD(Domain)', Dm), ('c14tD(interior)', Dm.interior), ('c14tD(patch)', S), ('c14tD(patch interior)', S.interior)]),
        ('faces-of-one-name', [('%s(face of patch)' % f, f), ('%s(face of Domain)' % f, B(f.name, Dm)), ('c14tD_G', B('G', Dm))]),
        ('cube+interior+plain', [('c14tK(patch)', K), ('c14tK(interior)', K.interior), ('c14ta', I('c14ta', dim=3)), ('c14tz', I('c14tz', dim=3))]),
    ]
    for name, fam in fams:
        o.evaluations += 1
        o.count('tie:corpus')
        check_tie_family(o, fam, [], rng, m, 'corpus/' + name, exhaustive=True)


def tie_families(o, m, rng, nfam):
    for i in range(nfam):
        dim = rng.choice([1, 2, 2, 3])
        tp = TiePool(rng, dim, m, full=(i == 0))
        fam = list(tp.objs)
        rng.shuffle(fam)
        if rng.random() < 0.5 and len(fam) > 3:
            # a sub-family that keeps at least one complete group of members printing alike
            g = rng.choice([v for v in tp.groups.values() if len(v) > 1] or [[]])
            fam = [x for x in fam if x[0] in g or rng.random() < 0.5]
        if len(fam) < 2:
            continue
        o.evaluations += 1
        o.count('tie:family')
        o.count('tie:groups=%d' % min(3, sum(1 for v in tp.groups.values() if len([x for x in fam if x[0] in v]) > 1)))
        ps = 'dim %d {%s}' % (dim, ', '.join(l for l, _ in fam))
        try:
            check_tie_family(o, fam, tp.outsiders, rng, m, ps)
        except Exception as e:
            o.fail('tie-raised:%s' % ps, 'union / complement on the family %s (one dimension, all domains) raised %r' % (ps, e))


# --------------------------------------------------------------------------- sessions: one name, several dimensions

HKINDS = ('interior', 'domain', 'face')


def mk_member(kind, name, dim, m):
    """a fresh object; all three kinds compare (== / hash) by name only - the dimension is not part of the identity"""
    if kind == 'interior':
        return m['InteriorDomain'](name, dim=dim)
    if kind == 'domain':
        return m['Domain'](name, dim=dim)
    return m['Boundary']('G', m['Domain'](name, dim=dim))


def step_str(step):
    kind, spec, shape = step
    return '%s%s[%s]' % (kind, '' if shape == 'flat' else '/' + shape, ','.join('%s:%s' % nd for nd in spec))


def gen_session(rng, prefix='h'):
    """a sequence of union constructions in which the SAME names are used again for members of another dimension
    (2D and 3D models with patches 'A', 'B' in one process): [(kind, [(name, dim)], shape)]"""
    kind = rng.choice(HKINDS)
    dims = [1, 2, 3] + ([None] if kind == 'interior' else [])
    names = [prefix + x for x in rng.sample(['A', 'B', 'C', 'P', 'Q'], rng.randint(2, 4))]
    d0 = rng.choice(dims)
    steps = [(kind, [(n, d0) for n in names], 'flat')]
    for _ in range(rng.randint(2, 6)):
        d1 = rng.choice([d for d in dims if d != d0])
        k = rng.random()
        if k < 0.3:
            spec = [(n, d1) for n in names]
        elif k < 0.65:
            j = rng.randrange(len(names))
            spec = [(n, d1 if i == j else d0) for i, n in enumerate(names)]
        elif k < 0.8:
            spec = [(n, d0) for n in names]
        else:
            spec = [(n, rng.choice([d0, d1])) for n in names]
        if rng.random() < 0.25:
            spec = spec[:rng.randint(2, len(spec))]
        if rng.random() < 0.25:
            rng.shuffle(spec)
        shapes = ['flat', 'flat', 'flat', 'nested', 'none']
        if rng.random() < 0.35:
            spec = gen_clash(rng, names, dims, d0, d1)
            shapes = ['flat', 'flat', 'nested', 'none', 'bydim', 'bydim']
        steps.append((kind, spec, rng.choice(shapes)))
        if rng.random() < 0.3:
            d0 = d1
    return steps


def gen_clash(rng, names, dims, d0, d1):
    """one name SEVERAL TIMES INSIDE ONE family: members equal by name (== / hash) but created with different
    dimensions (must be refused: the members given differ in dimension, whatever set() makes of them), or - as the
    control - created twice with the same dimension (equal copies: accepted, one member per name)"""
    k = rng.random()
    if k < 0.2:                                          # one name in 2-3 dimensions, nothing else
        n = rng.choice(names)
        spec = [(n, d) for d in rng.sample(dims, rng.randint(2, min(3, len(dims))))]
    elif k < 0.75:                                       # a family of dimension d0 + some of its names again in d1
        again = rng.sample(names, rng.randint(1, len(names)))
        spec = [(n, d0) for n in names] + [(n, d1) for n in again]
        if rng.random() < 0.3:
            spec = [x for x in spec if x[1] == d1 or x[0] in again or rng.random() < 0.5]
    else:                                                # control: equal copies of one dimension
        spec = [(n, d0) for n in names] + [(n, d0) for n in rng.sample(names, rng.randint(1, len(names)))]
    if rng.random() < 0.6:
        rng.shuffle(spec)
    return spec


def run_step(step, m, calls=None):
    """-> (given objects, result or exception); every real constructor call is recorded in `calls`"""
    kind, spec, shape = step
    Un = m['Union']
    objs = [mk_member(kind, n, d, m) for n, d in spec]

    def call(*args):
        try:
            r = Un(*args)
        except Exception as e:
            if calls is not None:
                calls.append((list(args), e))
            raise Raised(e)
        if calls is not None:
            calls.append((list(args), r))
        return r
    try:
        if shape == 'nested' and len(objs) > 2:
            r = call(call(*objs[:2]), *objs[2:])
        elif shape == 'none':
            r = call(None, *objs)
        elif shape == 'bydim':                           # Union(Union(members of one dimension), Union(of the next), ...)
            ds = []
            for _, d in spec:
                if d not in ds:
                    ds.append(d)
            r = call(*[call(*[x for x, (_, d) in zip(objs, spec) if d == d_]) for d_ in ds])
        else:
            r = call(*objs)
    except Raised as e:
        r = e.exc
    return objs, r


def check_session(o, steps, m, tag):
    """the outcome of every construction is determined by the members given NOW: refused iff their dimensions (as
    created here) differ, otherwise exactly the given objects - whatever was united earlier under the same names"""
    Un = m['Union']
    hist = []
    for k, step in enumerate(steps):
        kind, spec, shape = step
        objs, r = run_step(step, m)
        hist.append(step_str(step))
        o.count('history:step')
        ds = {d for _, d in spec}
        if len({n for n, _ in spec}) < len(spec):
            o.count('history:name-repeated-in-one-call:' + ('mixed' if len(ds) > 1 else 'equal-copies'))
        key = 'history:%s:%s' % (tag, ' ; '.join(hist))
        after = ('after the constructions %s' % ' ; '.join(hist[:-1])) if k else \
            'as the first construction of its session (earlier sessions of the run use the same names with other dimensions)'
        if len(ds) > 1:
            o.count('history:mixed')
            if not isinstance(r, ValueError):
                o.fail(key, 'Union of %s members %s (name:dim) has the dimensions %s but was not refused with ValueError %s: got %r%s'
                       % (kind, step_str(step), sorted(map(str, ds)), after, r,
                          ' with member dims %s' % [x.dim for x in _members(r, m)] if not isinstance(r, BaseException) else '')
                       + (' (members given in ONE call that are equal by name but were created with different dimensions)'
                          if len({n for n, _ in spec}) < len(spec) else ''))
                return
            continue
        o.count('history:homogeneous')
        d = list(ds)[0]
        if isinstance(r, BaseException):
            o.fail(key, 'Union of the %s members %s (name:dim), all of dimension %s, raised %r %s' % (kind, step_str(step), d, r, after))
            return
        lab = {id(x): '%s:%s' % nd for x, nd in zip(objs, spec)}
        got = _labels(_members(r, m), lab)
        gdims = [x.dim for x in _members(r, m)]
        # (a name given twice with the same dimension: equal copies, one of them is the member)
        if got != sorted(set(lab.values())) or any(g != d for g in gdims) or (r is not None and r.dim != d):
            o.fail(key, 'Union of the %s members %s (name:dim) %s returned the members %s of dimensions %s, union dim %s: not the objects given'
                   % (kind, step_str(step), after, got, gdims, getattr(r, 'dim', None)))
            return
        if not check_shape(o, r, len(set(spec)), m, key, 'Union of %s' % step_str(step)):
            return


def history_corpus(o, m):
    """fixed sessions with stable keys"""
    sessions = [
        [('interior', [('c14hA', 2), ('c14hB', 2)], 'flat'), ('interior', [('c14hA', 3), ('c14hB', 3)], 'flat'),
         ('interior', [('c14hA', 3), ('c14hB', 2)], 'flat'), ('interior', [('c14hB', 2), ('c14hA', 3)], 'flat')],
        [('domain', [('c14hP', 2), ('c14hQ', 2), ('c14hR', 2)], 'flat'), ('domain', [('c14hP', 2), ('c14hQ', 1), ('c14hR', 2)], 'flat'),
         ('domain', [('c14hP', 1), ('c14hQ', 1), ('c14hR', 1)], 'flat')],
        [('face', [('c14hP', 3), ('c14hQ', 3)], 'none'), ('face', [('c14hP', 2), ('c14hQ', 2)], 'none'),
         ('face', [('c14hP', 3), ('c14hQ', 2)], 'none')],
        [('interior', [('c14hX', None), ('c14hY', None), ('c14hZ', None)], 'nested'), ('interior', [('c14hX', 2), ('c14hY', 2), ('c14hZ', 2)], 'nested'),
         ('interior', [('c14hX', 2), ('c14hY', 2), ('c14hZ', None)], 'nested'), ('interior', [('c14hX', None), ('c14hY', 2), ('c14hZ', 2)], 'nested')],
        # one name several times INSIDE one family (equal by name, different by dimension): refused; equal copies: accepted
        [('interior', [('c14hA', 2), ('c14hA', 3)], 'flat'), ('interior', [('c14hA', 3), ('c14hA', 2)], 'flat'),
         ('interior', [('c14hA', 2), ('c14hA', 2), ('c14hB', 2)], 'flat'), ('interior', [('c14hA', 1), ('c14hA', 2), ('c14hA', 3)], 'none'),
         ('interior', [('c14hA', 2), ('c14hB', 2), ('c14hA', 3)], 'flat'), ('interior', [('c14hA', 2), ('c14hB', 2), ('c14hA', 3)], 'nested'),
         ('interior', [('c14hA', 2), ('c14hB', 2), ('c14hA', 3), ('c14hB', 3)], 'bydim'),
         ('interior', [('c14hA', None), ('c14hB', None), ('c14hA', 2)], 'bydim'), ('interior', [('c14hA', 2), ('c14hB', 2), ('c14hB', 2)], 'bydim')],
        [('face', [('c14hP', 2), ('c14hP', 3)], 'flat'), ('face', [('c14hP', 2), ('c14hQ', 2), ('c14hP', 3)], 'flat'),
         ('face', [('c14hP', 2), ('c14hQ', 2), ('c14hP', 3), ('c14hQ', 3)], 'bydim'), ('face', [('c14hP', 3), ('c14hP', 3), ('c14hQ', 3)], 'flat')],
        [('domain', [('c14hD', 2), ('c14hD', 3)], 'flat'), ('domain', [('c14hD', 2), ('c14hE', 2), ('c14hD', 3)], 'flat'),
         ('domain', [('c14hD', 3), ('c14hE', 3), ('c14hD', 1), ('c14hE', 1)], 'bydim'), ('domain', [('c14hD', 1), ('c14hE', 1), ('c14hD', 1)], 'none')],
    ]
    for i, s in enumerate(sessions):
        o.evaluations += 1
        o.count('history:corpus')
        check_session(o, s, m, 'corpus%d' % i)


def oracle(ctx, factor, seeds):
    o = Oracle()
    m = _mods()
    rng = ctx.rng
    try:
        same_name_members(o, m, rng)
    except Exception as e:
        o.fail('same-name-raised:' + type(e).__name__, 'unions of same-named distinct interfaces raised %r' % (e,))
    try:
        fixed_corpus(o, m, rng)
    except Exception as e:
        o.fail('fixed-corpus-raised:' + type(e).__name__, 'evaluating the fixed corpus (3-member union, Square boundary, interface + faces) raised %r' % (e,))
    for name, f in (('tie-corpus', lambda: tie_corpus(o, m, rng)), ('history-corpus', lambda: history_corpus(o, m))):
        try:
            f()
        except Exception as e:
            o.fail('%s-raised:%s' % (name, type(e).__name__), 'evaluating the fixed %s raised %r' % (name, e))
    try:
        tie_families(o, m, rng, (150 if ctx.thorough else 30) * factor)
    except Exception as e:
        o.fail('tie-pool-raised:' + type(e).__name__, 'building patches / interfaces / domains for the families with members printing alike raised %r' % (e,))
    for i in range((200 if ctx.thorough else 40) * factor):
        steps = gen_session(rng)
        o.evaluations += 1
        o.count('history:session')
        try:
            check_session(o, steps, m, 's')
        except Exception as e:
            o.fail('history-raised:' + ' ; '.join(step_str(x) for x in steps), 'the session %s raised %r' % ([step_str(x) for x in steps], e))
    nprog = (600 if ctx.thorough else 120) * factor
    for i in range(nprog):
        dim = rng.choice([1, 2, 2, 3, 3, None])
        try:
            pool = Pool(rng, dim, m, rich=rng.random() < 0.6)
            other = Pool(rng, rng.choice([d for d in (1, 2, 3, None) if d != dim]), m, rich=False) if rng.random() < 0.5 else None
        except Exception as e:
            o.fail('pool-raised:dim=%s:%s' % (dim, type(e).__name__), 'building plain sympde objects of dimension %s (InteriorDomain, Line/Square/Cube, '
                   'Domain.join - all use Union internally) raised %r' % (dim, e))
            continue
        p = gen_prog(rng, pool, 0)
        o.evaluations += 1
        try:
            check_program(o, p, pool, other, rng, m)
        except Raised as e:
            o.fail('raised:%s' % prog_str(p), 'the valid union program %s raised %r' % (prog_str(p), e.exc))
        except Exception as e:
            o.fail('raised:%s' % prog_str(p), 'checking the valid union program %s raised %r' % (prog_str(p), e))
        if len(o.samples) < 4:
            o.samples.append({'program': prog_str(p), 'members': sorted(leaves(p))})
    return o


def replay(ctx, path):
    d = json.load(open(path))
    print(json.dumps(d, indent=1)[:3000])
    o = Oracle()
    m = _mods()
    fixed_corpus(o, m, ctx.rng)
    tie_corpus(o, m, ctx.rng)
    history_corpus(o, m)
    key = d.get('key', '')
    # random-program failures are re-found by re-running the oracle with the recorded seed and tier
    if not any(f['key'] == key for f in o.failures) and d.get('kind') == 'oracle':
        import random
        ctx.rng = random.Random('%s/%s/%d' % (PID, d.get('tier', 'quick'), int(d.get('seed', 0))))
        ctx.thorough = d.get('tier') == 'thorough'
        Pool.counter = TiePool.counter = 0
        correspondence_rng_burn(ctx)
        o = oracle(ctx, 1, [])
    hit = [f for f in o.failures if f['key'] == key]
    for f in (hit or o.failures[:3]):
        print('REPRODUCED %s: %s' % (f['key'], f['what']))
    if not o.failures:
        print('not reproduced on the current tree (%d oracle evaluations)' % o.evaluations)
    return 1 if o.failures else 0


def correspondence_rng_burn(ctx):
    """the oracle of a normal run starts from the PRNG state left by the correspondence run"""
    try:
        correspondence(ctx)
    except Exception:
        pass
