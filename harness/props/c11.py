"""C11 — norm and semi-norm integrands are the classical Sobolev integrands."""
import sympy

from harness.common import Corr, Oracle, Timeout, time_limit
from harness.exprser import Ser, ring_equal
from harness.genexpr import Env
from harness.inst import Inst, same_value
from harness.sexp import dumps, loads_all
from harness.translate import leaf

PID = 'C11'
PROPS_MODULE = 'SympdeModel.Props.C11'
GEN = [leaf.generate]
RULE = ('error expressions e = (combination of functions) - (analytic coordinate expression), scalar and vector, kinds '
        'l2/h1/h2, norms and semi-norms, dimensions 1-3, unmapped (logical operators) and mapped-symbolic (physical '
        'operators) domains; a case is (class, kind, dim, e); non-trivial = kind is h1/h2 or e is a vector; distinct by request')
ASSUMPTIONS = [
    'the Sobolev integrands are |e|^2, sum_i (d_i e)^2, sum_ij (d_i d_j e)^2 summed over components (Props/C11.lean sobolev*)',
    'that the lowered kernel denotes what the generic integrand denotes is C01/C02; here the kernel is compared with the '
    'implementation by correspondence and with the explicit Sobolev formula by the oracle',
    'the transformation of a Norm to logical coordinates (LogicalExpr) is exercised by the C03/C04 checks and, for the '
    'kernel, by the oracle on mapped domains (both routes, exact and floating-point mappings; float kernels are compared '
    'with relative tolerance 1e-9)',
]


def analytic(rng, env):
    x = env.coords
    k = rng.random()
    c = rng.choice(x)
    if k < 0.3:
        return sympy.sin(c) * rng.choice(x + [sympy.S.One])
    if k < 0.6:
        return c ** 2 * rng.choice(x) + rng.choice([1, 2])
    if k < 0.8:
        return sympy.exp(c) + rng.choice(x)
    if k < 0.9 and len(x) > 1:
        # multi-affine: every pure second derivative vanishes, the mixed ones do not (seeded change C11-7)
        ys = rng.sample(list(x), len(x))
        return rng.choice([ys[0] * ys[1], sympy.Mul(*ys), ys[0] + ys[1] * ys[-1] + 1])
    return sympy.S.Zero


def scalar_err(rng, env):
    fs = env.sf
    k = rng.random()
    if k < 0.5:
        e = rng.choice(fs)
    elif k < 0.75:
        e = rng.choice(fs) + 2 * rng.choice(fs)
    else:
        e = rng.choice(env.vf)[rng.randrange(env.dim)]
    return e - analytic(rng, env)


def gen_cases(ctx, n):
    from sympde.expr import Norm, SemiNorm
    rng = ctx.rng
    envs = {}
    for i in range(n):
        dim = rng.choice([1, 2, 2, 3, 3])
        logical = rng.random() < 0.6
        if (dim, logical) not in envs:
            envs[(dim, logical)] = Env(dim, logical, tag='n')
        env = envs[(dim, logical)]
        cls = rng.choice([Norm, SemiNorm])
        kind = rng.choice(['l2', 'h1', 'h2'])
        if rng.random() < 0.25:
            kind = Kind(kind, kind.upper())       # the kind is case-insensitive ('H1'; seeded change C11-8)
        if rng.random() < 0.55:
            e, vec = scalar_err(rng, env), False
        else:
            if rng.random() < 0.5:
                F = rng.choice(env.vf)
                e = sympy.Matrix([F[i] - analytic(rng, env) for i in range(dim)])
            else:
                e = sympy.Matrix([scalar_err(rng, env) for _ in range(dim)])
            vec = True
        yield env, cls, kind, e, vec


class Kind(str):
    """the kind as the model / the oracle read it (lower case) with the spelling handed to the constructor"""
    def __new__(cls, kind, spelled):
        r = str.__new__(cls, kind)
        r.spelled = spelled
        return r


def kernel(env, cls, kind, e):
    from sympde.expr import TerminalExpr
    try:
        n = cls(e, env.domain, kind=getattr(kind, 'spelled', kind))
        t = TerminalExpr(n, env.domain)
        if len(t) != 1:
            return ('err', 'kernels:%d' % len(t))
        return ('ok', t[0].expr)
    except Exception as ex:
        return ('err', type(ex).__name__)


def correspondence(ctx):
    c = Corr()
    ser = Ser()
    n = 600 if ctx.thorough else 110
    cases, seen = [], set()
    for env, cls, kind, e, vec in gen_cases(ctx, n):
        arg = ser.ser(sympy.Tuple(*list(e))) if vec else ser.ser(e)
        line = 'C11 kernel %d %s %s %s %s' % (env.dim, 'true' if env.logical else 'false',
                                              'true' if cls.__name__ == 'SemiNorm' else 'false', kind, dumps(arg))
        if line in seen:
            continue
        seen.add(line)
        try:
            with time_limit(40):
                impl = kernel(env, cls, kind, e)
        except Timeout:
            c.count('impl-timeout')
            continue
        cases.append((line, env, cls, kind, vec, impl))
    outs = ctx.driver.run([x[0] for x in cases])
    for (line, env, cls, kind, vec, impl), out in zip(cases, outs):
        c.evaluations += 1
        c.count('%s:%s:%s:dim%d' % (cls.__name__, kind, 'vector' if vec else 'scalar', env.dim))
        if impl[0] == 'err':
            c.count('err:' + impl[1])
            if out != 'err ' + impl[1]:
                c.disagreements.append({'input': line, 'impl': 'raised ' + impl[1], 'model': out[:300], 'note': 'error'})
            continue
        if not out.startswith('ok '):
            c.disagreements.append({'input': line, 'impl': str(impl[1])[:300], 'model': out[:300], 'note': 'model refused'})
            continue
        mres = ser.build(loads_all(out[3:])[0])
        if isinstance(mres, sympy.MatrixBase) and mres.shape == (1, 1):
            mres = mres[0]
        try:
            with time_limit(20):
                eq = ring_equal(mres, impl[1])
        except Timeout:
            c.count('compare-timeout')
            continue
        if not eq:
            c.disagreements.append({'input': line, 'impl': str(impl[1])[:400], 'model': str(mres)[:400], 'note': 'value'})
            continue
        if kind != 'l2' or vec:
            c.nontrivial.add(line)
        if len(c.samples) < 6 and kind != 'l2':
            c.samples.append({'request': line[:250], 'impl': str(impl[1])[:200]})
    return c


def sobolev(ins, comps, kind, semi):
    """the classical integrand on instantiated component values"""
    x = ins.coords
    l2 = sum((v ** 2 for v in comps), sympy.S.Zero)
    h1 = sum((sympy.diff(v, xi) ** 2 for v in comps for xi in x), sympy.S.Zero)
    h2 = sum((sympy.diff(v, xi, xj) ** 2 for v in comps for xi in x for xj in x), sympy.S.Zero)
    if kind == 'l2':
        return l2
    if kind == 'h1':
        return h1 if semi else h1 + l2
    return h2 if semi else h2 + h1 + l2


def fixed_corpus():
    from sympde.expr import Norm, SemiNorm
    out = []
    for dim in (2, 3):
        env = Env(dim, True, tag='kn')
        u = env.sf[0]
        out.append((env, Norm, 'h2', u - sympy.sin(env.coords[0]), False, 'corpus:h2 norm scalar %dd' % dim))
        out.append((env, SemiNorm, 'h2', u - sympy.sin(env.coords[0]), False, 'corpus:h2 seminorm scalar %dd' % dim))
        F = env.vf[0]
        out.append((env, Norm, 'h2', sympy.Matrix([F[i] for i in range(dim)]), True, 'corpus:h2 norm vector %dd' % dim))
    for dim in (2, 3):
        env = Env(dim, False, tag='km')
        u = env.sf[0]
        xy = sympy.Mul(*env.coords)
        out.append((env, SemiNorm, 'h2', u - xy, False, 'corpus:h2 seminorm u - x*y.. %dd' % dim))
        out.append((env, Norm, 'h2', u - env.coords[0] - env.coords[0] * env.coords[1], False, 'corpus:h2 norm u - x - x*y %dd' % dim))
        out.append((env, Norm, Kind('h1', 'H1'), u - sympy.sin(env.coords[0]) * env.coords[1], False, 'corpus:H1 norm (upper case) %dd' % dim))
        out.append((env, SemiNorm, Kind('h2', 'H2'), u - sympy.sin(env.coords[0]), False, 'corpus:H2 seminorm (upper case) %dd' % dim))
        out.append((env, Norm, Kind('l2', 'L2'), u - env.coords[0], False, 'corpus:L2 norm (upper case) %dd' % dim))
    env = Env(1, True, tag='kn')
    out.append((env, Norm, 'h1', env.sf[0] - sympy.sin(env.coords[0]), False, 'corpus:h1 norm scalar 1d'))
    out.append((env, Norm, 'h1', sympy.Matrix([env.vf[0][0] - env.coords[0]]), True, 'corpus:h1 norm vector 1d'))
    return out


def oracle(ctx, factor, seeds):
    o = Oracle()
    rng = ctx.rng
    n = (300 if ctx.thorough else 60) * factor
    cases = fixed_corpus() + [(env, cls, kind, e, vec, None) for env, cls, kind, e, vec in gen_cases(ctx, n)]
    for env, cls, kind, e, vec, key in cases:
        try:
            with time_limit(40):
                impl = kernel(env, cls, kind, e)
        except Timeout:
            o.count('impl-timeout')
            continue
        o.evaluations += 1
        name = '%s(%s, kind=%s) dim %d' % (cls.__name__, e if not vec else list(e), getattr(kind, 'spelled', kind), env.dim)
        if impl[0] == 'err':
            o.fail(key or ('fail:' + name), '%s raised %s' % (name, impl[1]))
            continue
        ins = Inst(rng, env.dim, env.coords, trig=True)
        try:
            with time_limit(20):
                comps = [ins.inst(t) for t in (list(e) if vec else [e])]
                truth = sobolev(ins, comps, kind, cls.__name__ == 'SemiNorm')
                got = ins.inst(impl[1])
                ok = same_value(got, truth, env.coords, rng, numeric=True)
        except (NotImplementedError, Timeout):
            o.count('skipped')
            continue
        o.count('%s:%s:%s' % (cls.__name__, kind, 'vector' if vec else 'scalar'))
        if len(o.samples) < 4 and kind == 'h2':
            o.samples.append({'case': name[:200], 'kernel': str(impl[1])[:200]})
        if ok is False:
            o.fail(key or ('value:' + name), 'the kernel of %s is %s, not the classical Sobolev integrand' % (name, impl[1]))
    mapped_norm_cases(ctx, o, (25 if ctx.thorough else 7) * factor)
    return o


MAPPED_ANALYTIC = {
    'x**2': lambda x: x[0] ** 2,
    'x*y + sin(y)': lambda x: x[0] * x[-1] + sympy.sin(x[-1]),
    'exp(x)': lambda x: sympy.exp(x[0]),
    'x*y': lambda x: x[0] * x[-1],
}
FLOAT_MTYPES = ('affinef', 'collela')      # floating-point coefficients, metric with off-diagonal entries


def mapped_corpus(thorough=False):
    """fixed mapped cases (key, mapping type, dim, class name, kind, vector?, route, analytic part)

    * the pull-back-first route TerminalExpr(LogicalExpr(Norm(u - f, D), D), D.logical_domain) with a
      non-constant analytic part (seeded change C11-9: the deferred LogicalExpr(Grad(f), D) nodes were
      lowered on the logical domain and vanished);
    * mappings with floating-point coefficients that are not orthogonal, every kind of norm and
      semi-norm, scalar and vector (seeded change C11-10: the determinant of a float metric lost the
      sign of its off-diagonal cofactor)."""
    out = []
    for mt, dim in (('polar', 2), ('affine', 2), ('poly', 2), ('affine', 3)):
        for kind, f in (('h1', 'x*y + sin(y)'), ('h1', 'exp(x)'), ('l2', 'x*y + sin(y)')):
            if dim == 3 and f == 'exp(x)':
                continue
            out.append(('corpus:mapped norm pull-back-first %s %s %dd u - (%s)' % (kind, mt, dim, f),
                        mt, dim, 'Norm', kind, False, 'pull-lower', f))
    for mt, dim in (('affinef', 2), ('collela', 2), ('affinef', 3)):
        slow = mt == 'collela'      # sympde inverts the Collela Jacobian symbolically for every gradient: 3 s per H1 kernel
        for cn, kind in (('Norm', 'l2'), ('Norm', 'h1'), ('SemiNorm', 'h1'), ('Norm', 'h2'), ('SemiNorm', 'h2')):
            if kind == 'h2' and slow:
                continue
            if slow and (cn, kind) == ('SemiNorm', 'h1') and not thorough:
                continue
            out.append(('corpus:mapped %s %s float %s %dd scalar' % (cn, kind, mt, dim),
                        mt, dim, cn, kind, False, 'lower-pull', 'x*y + sin(y)'))
        if not slow or thorough:
            out.append(('corpus:mapped Norm h1 float %s %dd vector' % (mt, dim), mt, dim, 'Norm', 'h1', True, 'lower-pull', 'x*y'))
        out.append(('corpus:mapped SemiNorm l2 float %s %dd vector' % (mt, dim), mt, dim, 'SemiNorm', 'l2', True, 'lower-pull', 'x**2'))
        out.append(('corpus:mapped norm pull-back-first h1 float %s %dd u - (exp(x))' % (mt, dim),
                    mt, dim, 'Norm', 'h1', False, 'pull-lower', 'exp(x)'))
    return out


def mapped_norm_cases(ctx, o, n):
    """a norm on a mapped domain, transformed to logical coordinates by one of two routes:
    'lower-pull'  LogicalExpr(TerminalExpr(Norm(e, D), D)[0], D)  (the evaluated kernel pulled back; the
                  two-step route named in C03/C04, added after seed C11-2), and
    'pull-lower'  TerminalExpr(LogicalExpr(Norm(e, D), D), D.logical_domain)[0]  (the norm pulled back
                  first, lowered on the logical domain; added after seed C11-9; scalar Norm l2/h1 only:
                  the code refuses the rest).
    On orientation preserving and reversing mappings, with exact and with floating-point coefficients,
    the result must be (Sobolev integrand at F(x̂)) · sqrt(det(JᵀJ)) = · |det J|."""
    from harness.mapenv import MEnv
    rng = ctx.rng
    for key, mt, dim, cn, kind, vec, route, f in mapped_corpus(ctx.thorough):
        env = MEnv(rng, dim, mt, tag='c11k', kinds=('h1', 'undefined'))
        mapped_case(ctx, o, env, cn, kind, vec, route, f, key)
    cycle = ['polyneg', 'poly', 'polyneg', 'affine', 'sym', 'affinef', 'polar', 'collela', 'affine']
    for i in range(n):
        mt = cycle[i % len(cycle)]
        dim = rng.choice([1, 2, 2, 3])
        if mt in ('polar', 'collela'):
            dim = 2
        elif mt == 'affinef':
            dim = rng.choice([2, 2, 3])
        env = MEnv(rng, dim, mt, tag='c11m', kinds=('h1', 'undefined'))
        kind = rng.choice(['l2', 'h1'])
        cn = rng.choice(['Norm', 'SemiNorm']) if kind == 'h1' else 'Norm'
        f = rng.choice(['x**2', 'x**2', 'x*y + sin(y)', 'exp(x)', 'x*y'])
        route, vec = 'lower-pull', False
        if i >= 5 and cn == 'Norm' and rng.random() < 0.5:      # the first five stay on the route of seed C11-2
            route = 'pull-lower'
        elif dim > 1 and mt not in ('sym', 'collela') and rng.random() < 0.3:
            vec = True
        key = 'corpus:mapped norm kernel %s %s %dd' % (kind, mt, dim) if i < 5 else None
        mapped_case(ctx, o, env, cn, kind, vec, route, f, key)


def mapped_case(ctx, o, env, cn, kind, vec, route, f, key):
    from sympde.expr import Norm, SemiNorm, TerminalExpr
    from sympde.topology.mapping import LogicalExpr
    from harness.mapenv import MapInst, pulled_back_fields
    from harness.inst import PHYS, LOGI
    rng, dim, mt = ctx.rng, env.dim, env.mtype
    cls = {'Norm': Norm, 'SemiNorm': SemiNorm}[cn]
    fx = MAPPED_ANALYTIC[f](env.coords)
    sk = 'undefined' if kind == 'h2' else 'h1'      # the Hessian is defined on spaces of undefined kind only
    if vec:
        F = env.vf[sk][0]
        e = sympy.Matrix([F[i] - (fx if i == 0 else env.coords[i]) for i in range(dim)])
    else:
        e = env.sf[sk][0] - fx
    shown = list(e) if vec else e
    if route == 'pull-lower':
        name = 'TerminalExpr(LogicalExpr(%s(%s, kind=%s))) on a %s mapping, dim %d' % (cn, shown, kind, mt, dim)
    else:
        name = 'LogicalExpr(TerminalExpr(%s(%s, kind=%s))) on a %s mapping, dim %d' % (cn, shown, kind, mt, dim)
    o.evaluations += 1
    kexpr = None
    try:
        with time_limit(60):
            norm = cls(e, env.domain, kind=kind)
            if route == 'pull-lower':
                t = TerminalExpr(LogicalExpr(norm, env.domain), env.logical_domain)
                if len(t) != 1:
                    raise ValueError('kernels:%d' % len(t))
                k = t[0]
            else:
                t = TerminalExpr(norm, env.domain)
                k = LogicalExpr(t[0], env.domain)
            kexpr = k.expr[0] if hasattr(k.expr, 'shape') else k.expr
            pins = Inst(rng, dim, PHYS[:dim])
            F, cst = env.concrete(rng)
            pins.cst = dict(cst)
            comps = [pins.inst(c) for c in (list(e) if vec else [e])]
            truth = sobolev(pins, comps, kind, cn == 'SemiNorm')
            truth = sympy.sympify(truth).subs({PHYS[j]: F[j] for j in range(dim)}, simultaneous=True)
            sfs, vfs, J, det = pulled_back_fields(env, pins, F)
            truth = truth * sympy.sqrt((J.T * J).det())
            lins = MapInst(rng, dim, F, pins.cst)
            lins.sf, lins.vf = dict(sfs), dict(vfs)
            got = lins.inst(kexpr)
            # float coefficients: the code computes in 15-digit arithmetic (the ground truth of the
            # dyadic affine mapping is exact)
            floats = mt in FLOAT_MTYPES or bool(sympy.sympify(got).atoms(sympy.Float) or truth.atoms(sympy.Float))
            ok = same_value(got, truth, LOGI[:dim], rng, numeric=True, tol=1e-9 if floats else 1e-35)
    except (NotImplementedError, Timeout):
        o.count('skipped:mapped')
        return
    except Exception as ex:
        o.fail(key or ('fail:' + name), '%s raised %s' % (name, type(ex).__name__))
        return
    o.count('mapped:%s:%s:%s%s' % (route, kind, mt, ':vector' if vec else ''))
    if ok is None:
        o.count('undecided:mapped')
    if ok is False:
        o.fail(key or ('value:' + name), 'the logical kernel of %s is %s, not (Sobolev integrand at F)·sqrt(det(JᵀJ))' % (name, str(kexpr)[:300]))


def replay(ctx, path):
    import sys
    from harness.common import generic_replay
    return generic_replay(sys.modules[__name__], ctx, path)
