"""C10 — applying a form: correspondence with Model/Apply.lean and independent oracle (two-phase
simultaneous replacement computed on the real objects; numeric asymmetry search for forms
flagged symmetric)."""
import json

from harness.common import Corr, Oracle
from harness.sexp import A, dumps, loads
from harness.exprser import Ser, ring_equal

PID = 'C10'
PROPS_MODULE = 'SympdeModel.Props.C10'
RULE = ('bilinear and linear forms on Square/Cube (scalar, vector and product spaces; domain, whole-boundary and '
        'single-face integrals; coefficient fields, Constants declared with or without sympy assumptions, rational coefficients) built from a catalogue of '
        'symmetric and non-symmetric terms; each form is called with its own arguments, the exchanged arguments, '
        'arguments that mention the old ones (u+v, 2*v, v), fresh functions, fields, a single function instead of a '
        'tuple, and keyword arguments (field -> field / own argument / expression, constant -> number / other constant, two fields or two '
        'constants exchanged, unknown names); is_symmetric of every bilinear form.  One case = one call / one flag; '
        'non-trivial = some declared argument or free variable is really replaced; distinct by request line')
ASSUMPTIONS = [
    '`_xreplace` rebuilds every changed node with `func(*args)`, i.e. re-runs the operator constructors (C02): the '
    'model returns the raw substituted tree, both sides are re-evaluated bottom-up with the real constructors before '
    'they are compared (exactly, else modulo the commutative-ring axioms)',
    'functions are identified by name (sympy); names are unique inside a form',
    'the model compares the two lists of integrals of is_symmetric domain by domain in the stored order; sympy '
    'compares the sorted argument tuples of the two IntAdd objects (a different order can only turn True into False)',
    'Integral.__eq__ = structural equality or difference expanding to zero is modelled by the verified polynomial '
    'normaliser on maximal non-arithmetic sub-terms (Dot / Inner up to the exchange of their arguments)',
]
MIN_NONTRIVIAL = 30


def mods():
    import sympy
    from sympy import Tuple, S, Rational, Matrix, ImmutableDenseMatrix
    from sympde.topology import Square, Cube, ScalarFunctionSpace, VectorFunctionSpace, element_of, elements_of, NormalVector
    from sympde.topology.space import ScalarFunction, VectorFunction
    from sympde.calculus import grad, dot, div, inner, laplace, curl, cross, rot
    from sympde.topology.derivatives import dx, dy, dz
    from sympde.expr import BilinearForm, LinearForm, integral
    from sympde.expr.expr import Integral, IntAdd
    from sympde.core import Constant
    return locals()


class Ser10(Ser):
    """`F[i]` with a substituted base: IndexedVectorFunction distributes over sums and products"""

    def build(self, s):
        if str(s[0]) == 'idx':
            from sympde.topology.space import IndexedVectorFunction
            from sympy import Integer
            return IndexedVectorFunction(self.build(s[1]), Integer(int(s[2])))
        return super().build(s)


class World:
    """one domain with its spaces and a pool of functions"""
    count = 0

    def __init__(self, rng, m):
        World.count += 1
        k = World.count
        self.m = m
        self.dim = rng.choice([2, 2, 3])
        self.domain = (m['Square'] if self.dim == 2 else m['Cube'])('Om10_%d' % k)
        self.bnd = self.domain.boundary
        self.faces = list(self.bnd.args)
        self.V = m['ScalarFunctionSpace']('V10_%d' % k, self.domain)
        self.W = m['VectorFunctionSpace']('W10_%d' % k, self.domain)
        sfx = '%d' % k
        mk = lambda sp, names: [sp.element(n + sfx) for n in names]
        self.u, self.v, self.p, self.q, self.w, self.f, self.g = mk(self.V, ['u', 'v', 'p', 'q', 'w', 'f', 'g'])
        self.F, self.G, self.H, self.B = mk(self.W, ['F', 'G', 'H', 'B'])
        # free constants are declared with or without sympy assumptions: `Constant('kap', real=True)` and
        # `Constant('kap')` are different symbols, a keyword must replace the one the integrands contain
        asm = lambda: dict(rng.choice([(), (), (('real', True),), (('positive', True),), (('integer', True),)]))
        self.k1, self.k2 = m['Constant']('kap' + sfx, **asm()), m['Constant']('mu' + sfx, **asm())
        self.nn = m['NormalVector']('nn')
        self.D1 = [m['dx'], m['dy'], m['dz']][:self.dim]


def catalogue(W, rng, kind):
    """list of (term builder over (trial, test), symmetric?) for a scalar or vector pair"""
    m = W.m
    dot, grad, div, inner, laplace, curl = m['dot'], m['grad'], m['div'], m['inner'], m['laplace'], m['curl']
    d0, d1 = W.D1[0], W.D1[1]
    one = m['Tuple'](*([1] * W.dim))
    if kind == 'scalar':
        return [
            (lambda u, v: u * v, True), (lambda u, v: dot(grad(u), grad(v)), True),
            (lambda u, v: W.f * u * v, True), (lambda u, v: W.k1 * dot(grad(u), grad(v)), True),
            (lambda u, v: d0(u) * d0(v), True), (lambda u, v: laplace(u) * laplace(v), True),
            (lambda u, v: m['Rational'](1, 2) * W.g * dot(grad(u), grad(v)), True),
            (lambda u, v: d0(u) * d1(v) + d1(u) * d0(v), True),
            (lambda u, v: u * d0(v), False), (lambda u, v: dot(W.B, grad(u)) * v, False),
            (lambda u, v: W.f * d1(u) * v, False), (lambda u, v: d0(u) * d1(v), False),
            (lambda u, v: laplace(u) * v, False), (lambda u, v: dot(grad(u), one) * v, False),
            (lambda u, v: 2 * u * v - dot(grad(u), grad(v)), True),
        ]
    terms = [
        (lambda F, G: dot(F, G), True), (lambda F, G: inner(grad(F), grad(G)), True),
        (lambda F, G: div(F) * div(G), True), (lambda F, G: W.f * dot(F, G), True),
        (lambda F, G: W.k2 * div(F) * div(G) + dot(F, G), True),
        (lambda F, G: F[0] * G[0], True),
        (lambda F, G: div(F) * G[0], False), (lambda F, G: F[0] * G[1], False),
        (lambda F, G: dot(F, W.B) * div(G), False), (lambda F, G: d0(F[0]) * G[1], False),
    ]
    if W.dim == 3:
        terms += [(lambda F, G: dot(curl(F), curl(G)), True), (lambda F, G: dot(curl(F), G), False)]
    else:
        terms += [(lambda F, G: curl(F) * curl(G), True), (lambda F, G: curl(F) * G[0], False)]
    return terms


def make_bilinear(W, rng):
    """(form, trials, tests, expected symmetric by construction or None)"""
    m = W.m
    integral = m['integral']
    shape = rng.choice(['scalar', 'scalar', 'vector', 'product'])
    expected = True
    if shape == 'scalar':
        tr, te = [W.u], [W.v]
        cat = catalogue(W, rng, 'scalar')
        picks = [rng.choice(cat) for _ in range(rng.choice([1, 2, 2, 3]))]
        body = sum((t(W.u, W.v) for t, _ in picks), m['S'].Zero)
        expected = all(s for _, s in picks)
        bterm = lambda: rng.choice([W.u * W.v, W.k2 * W.u * W.v, W.u * m['dot'](m['grad'](W.v), W.nn)])
    elif shape == 'vector':
        tr, te = [W.F], [W.G]
        cat = catalogue(W, rng, 'vector')
        picks = [rng.choice(cat) for _ in range(rng.choice([1, 2, 2]))]
        body = sum((t(W.F, W.G) for t, _ in picks), m['S'].Zero)
        expected = all(s for _, s in picks)
        bterm = lambda: rng.choice([m['dot'](W.F, W.G), m['dot'](W.F, W.nn) * m['dot'](W.G, W.nn)])
    else:
        tr, te = [W.u, W.F], [W.v, W.G]
        cs, cv = catalogue(W, rng, 'scalar'), catalogue(W, rng, 'vector')
        t1, s1 = rng.choice(cs)
        t2, s2 = rng.choice(cv)
        body = t1(W.u, W.v) + t2(W.F, W.G)
        expected = s1 and s2
        k = rng.random()
        if k < 0.35:
            body = body + m['div'](W.F) * W.v + W.u * m['div'](W.G)
        elif k < 0.6:
            body = body + W.u * m['div'](W.G)
            expected = False
        bterm = lambda: W.u * W.v
    expr = integral(W.domain, body)
    k = rng.random()
    sym_b = True
    if k < 0.25:
        t = bterm()
        expr = expr + integral(W.bnd, t)
        sym_b = 'grad' not in str(t).lower()
    elif k < 0.45:
        t = bterm()
        expr = expr + integral(rng.choice(W.faces), t)
        sym_b = 'grad' not in str(t).lower()
    if shape == 'scalar' and len(W.faces) >= 2 and rng.random() < 0.12:
        # asymmetric parts on DIFFERENT regions that would cancel if the integrands of all regions were added
        # (seeded change C10-6 compared the summed integrands): the form is not symmetric
        d0 = W.D1[0]
        fa, fb = rng.sample(list(W.faces), 2)
        if rng.random() < 0.5:
            expr = expr + integral(fa, W.u * d0(W.v)) + integral(fb, W.v * d0(W.u))
        else:
            expr = integral(W.domain, body + d0(W.u) * W.v) + integral(fa, W.u * d0(W.v))
        expected, sym_b = False, False
    args = (tr[0], te[0]) if len(tr) == 1 and rng.random() < 0.5 else (tuple(tr), tuple(te))
    a = m['BilinearForm'](args, expr)
    return a, tr, te, (expected and sym_b)


def make_linear(W, rng):
    m = W.m
    integral, dot = m['integral'], m['dot']
    shape = rng.choice(['scalar', 'vector', 'product'])
    if shape == 'scalar':
        te = [W.v]
        body = rng.choice([W.f * W.v, W.f * W.g * W.v, W.k1 * W.v + W.f * W.D1[0](W.v), dot(W.B, m['grad'](W.v)) + W.g * W.v])
    elif shape == 'vector':
        te = [W.G]
        body = rng.choice([dot(W.B, W.G), W.f * m['div'](W.G), W.k2 * dot(W.H, W.G) + W.f * W.G[0]])
    else:
        te = [W.v, W.G]
        body = W.f * W.v + dot(W.B, W.G) + rng.choice([0, 1]) * W.g * m['div'](W.G)
    expr = integral(W.domain, body)
    if rng.random() < 0.35:
        expr = expr + integral(W.bnd if rng.random() < 0.5 else rng.choice(W.faces), W.k1 * (te[0] if shape != 'vector' else dot(te[0], W.nn)))
    args = te[0] if len(te) == 1 and rng.random() < 0.5 else tuple(te)
    return m['LinearForm'](args, expr), te


def values_for(W, rng, var, own, partner, mode):
    """a value for the declared variable `var`"""
    m = W.m
    vec = isinstance(var, m['VectorFunction'])
    if mode == 'self':
        return var
    if mode == 'swap':
        return partner
    if mode == 'fresh':
        return (rng.choice([W.H, W.B]) if vec else rng.choice([W.w, W.p, W.q]))
    if mode == 'field':
        return (W.B if vec else rng.choice([W.f, W.g]))
    # 'mix': mentions the old arguments
    return rng.choice([var + partner, 2 * partner, partner - var, var + (W.H if vec else W.w), m['Rational'](1, 2) * var])


def int_list(x, m):
    """[(domain string, integrand)] of an Integral / IntAdd / 0"""
    if x == 0:
        return []
    if isinstance(x, m['Integral']):
        return [(str(x.domain), x.expr)]
    return [(str(a.domain), a.expr) for a in x.args]


def ser_form(ser, dim, tr, te, expr, m):
    ints = int_list(expr, m)
    return [A('form'), dim, [A('trials')] + [ser.ser(t) for t in tr], [A('tests')] + [ser.ser(t) for t in te],
            [A('ints')] + [[A('int'), d, ser.ser(e)] for d, e in ints]]


def reeval(x, m):
    """re-apply every constructor bottom-up (what `_xreplace` does to the changed nodes)"""
    if isinstance(x, (m['Matrix'], m['ImmutableDenseMatrix'])):
        return type(x)(x.shape[0], x.shape[1], [reeval(t, m) for t in x])
    args = getattr(x, 'args', ())
    if not args or isinstance(x, (m['ScalarFunction'], m['VectorFunction'])):
        return x
    return x.func(*[reeval(a, m) for a in args])


def same_ints(a, b, m):
    """two lists [(domain, integrand)] equal as sets of integrals, integrands modulo ring axioms"""
    da, db = {}, {}
    for d, e in a:
        da[d] = da.get(d, 0) + e
    for d, e in b:
        db[d] = db.get(d, 0) + e
    for d in set(da) | set(db):
        x, y = da.get(d, m['S'].Zero), db.get(d, m['S'].Zero)
        if x == y:
            continue
        try:
            if not ring_equal(reeval(x, m), reeval(y, m)):
                return False
        except Exception:
            return False
    return True


def ser_arg(ser, x, m):
    if isinstance(x, (list, tuple, m['Tuple'])):
        return [A('many')] + [ser.ser(t) for t in x]
    return [A('single'), ser.ser(x)]


def ser_kws(ser, kws):
    return [[A('kw'), n, ser.ser(v)] for n, v in kws.items()]


def call(f, *a, **k):
    try:
        return ('ok', f(*a, **k))
    except Exception as e:   # noqa
        return ('err', e)


def gen_calls(W, rng, tr, te, bilinear):
    """list of (label, positional args, kwargs)"""
    m = W.m
    out = []
    n = len(te)
    modes = ['self', 'swap', 'mix', 'fresh', 'field', 'mix']
    for mode in modes:
        if bilinear:
            tv = [values_for(W, rng, x, None, y, mode) for x, y in zip(tr, te)]
            sv = [values_for(W, rng, y, None, x, mode if mode != 'mix' else rng.choice(['self', 'mix', 'swap'])) for x, y in zip(tr, te)]
            if n == 1 and rng.random() < 0.5:
                pos = (tv[0], sv[0])
            else:
                cont = rng.choice([tuple, list, lambda z: m['Tuple'](*z)])
                pos = (cont(tv), cont(sv))
        else:
            sv = [values_for(W, rng, y, None, (W.w if not isinstance(y, m['VectorFunction']) else W.H), mode) for y in te]
            k = rng.random()
            if n == 1 and k < 0.5:
                pos = (sv[0],)
            elif k < 0.75:
                pos = (tuple(sv),)
            else:
                pos = tuple(sv)
        out.append((mode, pos, {}))
    return out


def free_vars(form, variables, m):
    """{name: object} of the free variables, computed without sympde's own table: the coefficient fields and
    constants that occur in the integrands (the very objects, with the assumptions they were declared with) and
    are not arguments of the form — never coordinates, normals or domains"""
    argnames = {getattr(x, 'name', None) for x in variables}
    atoms = form.expr.atoms(m['Constant'], m['ScalarFunction'], m['VectorFunction'])
    return {a.name: a for a in sorted(atoms, key=lambda a: a.name) if a.name not in argnames}


def gen_kwargs(W, rng, form, tr, te):
    """keyword dictionaries over the free variables of the form (and unknown names)"""
    m = W.m
    free = free_vars(form, tr + te, m)
    names = list(free)
    out = []
    if names:
        n = rng.choice(names)
        var = free[n]
        consts = [x for x in names if isinstance(free[x], m['Constant'])]
        const_value = lambda c: rng.choice([2, m['Rational'](3, 2), W.k2 if free[c] != W.k2 else W.k1, m['Constant']('lam10', real=True)])
        if isinstance(var, m['Constant']):
            out.append(('kw-const', {n: const_value(n)}))
        elif isinstance(var, m['VectorFunction']):
            out.append(('kw-field', {n: rng.choice([W.H, W.B, W.F, W.H + W.B])}))
        else:
            out.append(('kw-field', {n: rng.choice([W.w, W.g, W.f, W.u, W.v, W.w * W.p, W.f + 1])}))
        # a value that is falsy in Python is a value like any other (seeded change C10-7 skipped `if not v`)
        if rng.random() < 0.5:
            n0 = rng.choice(names)
            if isinstance(free[n0], m['Constant']):
                out.append(('kw-zero', {n0: rng.choice([0, m['Rational'](0)])}))
            elif isinstance(free[n0], m['ScalarFunction']) and len(names) >= 2:
                out.append(('kw-zero', {n0: rng.choice([0, m['Rational'](0)])}))
        # constants (declared with or without assumptions) are replaced by keyword like the fields
        # (seeded change C10-10 re-created the constants of the by-name table from their names)
        if consts and not isinstance(var, m['Constant']) and rng.random() < 0.6:
            c0 = rng.choice(consts)
            out.append(('kw-const', {c0: const_value(c0)}))
        if len(consts) >= 2:
            a, b = rng.sample(consts, 2)
            out.append(('kw-const-exchange', {a: free[b], b: free[a]}))
        fields = [x for x in names if isinstance(free[x], m['ScalarFunction'])]
        if len(fields) >= 2:
            a, b = rng.sample(fields, 2)
            out.append(('kw-exchange', {a: free[b], b: free[a]}))
        if fields:
            a = rng.choice(fields)
            own = rng.choice([x for x in (tr + te) if isinstance(x, m['ScalarFunction'])] or [W.w])
            out.append(('kw-own-argument', {a: own}))
    out.append(('kw-unknown', {rng.choice(['zz', 'alpha', 'u', 'nosuch']): 1}))
    # coordinates and normals are not free variables (added after seeded change C10-4)
    out.append(('kw-unknown-coordinate', {rng.choice(['x', 'y', 'x1', 'x2', 'x3', 'nn']): 3}))
    if names and rng.random() < 0.5:
        out.append(('kw-unknown-mixed', {names[0]: free[names[0]], 'nosuch2': 2}))
    return out


# --------------------------------------------------------------------------- correspondence

def correspondence(ctx):
    m = mods()
    c = Corr()
    rng = ctx.rng
    ser = Ser10()
    nforms = 1100 if ctx.thorough else 200
    cases = []     # (kind, line, impl, info)
    for i in range(nforms):
        W = World(rng, m) if i % 6 == 0 else W   # noqa: F821  (a world serves several forms)
        bilinear = rng.random() < 0.7
        try:
            if bilinear:
                form, tr, te, _ = make_bilinear(W, rng)
            else:
                form, te = make_linear(W, rng)
                tr = []
        except Exception as e:
            c.count('form-refused:' + type(e).__name__)
            continue
        fser = dumps(ser_form(ser, W.dim, tr, te, form.expr, m))
        calls = gen_calls(W, rng, tr, te, bilinear)
        kws = gen_kwargs(W, rng, form, tr, te)
        todo = [(lab, pos, {}) for lab, pos, _ in calls]
        for lab, kw in kws:
            base = rng.choice(calls)
            todo.append((lab, base[1], kw))
        for lab, pos, kw in todo:
            r = call(form, *pos, **kw)
            try:
                if bilinear:
                    line = 'C10 call %s %s %s %s' % (fser, dumps(ser_arg(ser, pos[0], m)), dumps(ser_arg(ser, pos[1], m)), dumps(ser_kws(ser, kw)))
                else:
                    la = [A('one'), ser_arg(ser, pos[0], m)] if len(pos) == 1 else [A('several')] + [ser.ser(t) for t in pos]
                    line = 'C10 lcall %s %s %s' % (fser, dumps(la), dumps(ser_kws(ser, kw)))
            except Exception as e:
                c.count('unserialisable:' + type(e).__name__)
                continue
            changed = r[0] == 'err' or not same_ints(int_list(r[1], m), int_list(form.expr, m), m)
            cases.append(('call', line, r, dict(label=lab, form=str(form.expr)[:200], args=str(pos)[:160], kw=str(kw), changed=changed)))
        if bilinear:
            r = call(lambda: form.is_symmetric)
            cases.append(('sym', 'C10 sym ' + fser, r, dict(label='sym', form=str(form.expr)[:200], args='', kw='', changed=True)))
    outs = ctx.driver.run([x[1] for x in cases])
    for (kind, line, r, info), out in zip(cases, outs):
        c.evaluations += 1
        c.count('kind:' + kind)
        c.count('call:' + info['label'])
        if kind == 'call':
            if r[0] == 'err':
                agree = out == 'err ' + type(r[1]).__name__
                shown = 'err ' + type(r[1]).__name__
            else:
                shown = str(r[1])[:400]
                agree = False
                if out.startswith('ok '):
                    try:
                        mo = [(str(x[1]), ser.build(x[2])) for x in loads(out[3:])]
                        agree = same_ints(mo, int_list(r[1], m), m)
                    except Exception as e:
                        out = out[:300] + ' (rebuild failed: %r)' % (e,)
            c.count('result:' + ('ok' if r[0] == 'ok' else shown))
        else:
            shown = 'ok ' + dumps(bool(r[1])) if r[0] == 'ok' else 'err ' + type(r[1]).__name__
            agree = out == shown
            c.count('sym:' + shown)
        if not agree:
            c.disagreements.append({'input': {'line': line[:2000], 'form': info['form'], 'args': info['args'], 'kw': info['kw'], 'op': kind},
                                    'impl': shown, 'model': out[:600], 'note': kind + ':' + info['label']})
        if info['changed']:
            c.nontrivial.add(line)
        if len(c.samples) < 5 and kind == 'call' and info['label'] in ('swap', 'mix', 'kw-exchange') and len(line) < 900 and r[0] == 'ok':
            c.samples.append({'form': info['form'], 'args': info['args'], 'kw': info['kw'], 'result': shown, 'model_agrees': agree})
    return c


# --------------------------------------------------------------------------- oracle

def simultaneous(expr, pairs, m):
    """independent two-phase simultaneous replacement: variables -> fresh placeholders -> values"""
    import sympy
    ph = []
    cur = expr
    for i, (var, val) in enumerate(pairs):
        if isinstance(var, m['VectorFunction']):
            d = var.space.element('zzPH%d_%s' % (i, id(expr) % 9973))
        elif isinstance(var, m['ScalarFunction']):
            d = var.space.element('zzPH%d_%s' % (i, id(expr) % 9973))
        else:
            d = m['Constant']('zzPH%d_%s' % (i, id(expr) % 9973))
        ph.append((d, val))
        cur = cur.xreplace({var: d})
    for d, val in ph:
        cur = cur.xreplace({d: val})
    return cur


def atoms_of(ints, m):
    out = set()
    for _, e in ints:
        out |= e.atoms(m['ScalarFunction'], m['VectorFunction'], m['Constant'], m['NormalVector'])
        out |= {s for s in e.free_symbols if s.is_Symbol and not isinstance(s, (m['ScalarFunction'], m['VectorFunction'], m['Constant']))}
    return out


def check_call(o, W, form, tr, te, pos, kw, label, bilinear, m):
    variables = tr + te
    if bilinear:
        vals = []
        for p in pos:
            vals += list(p) if isinstance(p, (list, tuple, m['Tuple'])) else [p]
    else:
        if len(pos) == 1:
            p = pos[0]
            vals = list(p) if isinstance(p, (list, tuple, m['Tuple'])) else [p]
        else:
            vals = list(pos)
    # independent notion of "free variable" (the property: coefficient fields and constants of the
    # integrands, by name — never coordinates, normals, domains or the form's own arguments); the objects are
    # taken from the integrands, not from the form's own by-name table
    free = free_vars(form, variables, m)
    desc = '%s(%s%s)' % ('a' if bilinear else 'l', ', '.join(str(p) for p in pos), ''.join(', %s=%s' % kv for kv in kw.items()))
    key = 'call:%s:%s:%s' % (label, str(form.expr)[:160], desc[:160])
    r = call(form, *pos, **kw)
    unknown = [n for n in kw if n not in free]
    if unknown:
        if r[0] == 'ok':
            return 'kw-unknown-accepted:%s:%s' % (str(form.expr)[:120], desc[:120]), \
                '%s accepts the unknown keyword %r (free variables: %s)' % (desc, unknown[0], sorted(free)), dict(form=str(form.expr), call=desc)
        o.count('refused-unknown-keyword:' + type(r[1]).__name__)
        return None
    if r[0] == 'err':
        return key, '%s raises %s(%s) on the form %s' % (desc, type(r[1]).__name__, r[1], str(form.expr)[:200]), dict(form=str(form.expr), call=desc)
    pairs = [(free[n], v) for n, v in kw.items()] + list(zip(variables, vals))
    want = simultaneous(form.expr, pairs, m)
    got_i, want_i = int_list(r[1], m), int_list(want, m)
    if not same_ints(got_i, want_i, m):
        return key, '%s = %s, the simultaneous replacement gives %s (form %s)' % (desc, str(r[1])[:300], str(want)[:300], str(form.expr)[:200]), \
            dict(form=str(form.expr), call=desc, got=str(r[1]), want=str(want))
    # nothing else: domains kept, untouched atoms still there when they were not replaced
    if sorted(d for d, _ in got_i) != sorted(d for d, _ in int_list(form.expr, m)) and all(e != 0 for _, e in want_i) \
            and not any(v == 0 for v in kw.values()):      # an integral whose integrand became 0 is dropped: no domain is kept for it
        return 'domains:' + key, '%s changes the integration domains: %s -> %s' % (desc, [d for d, _ in int_list(form.expr, m)], [d for d, _ in got_i]), dict(form=str(form.expr), call=desc)
    o.count('call-ok:' + label)
    return None


def oracle(ctx, factor, seeds):
    m = mods()
    o = Oracle()
    rng = ctx.rng
    from harness.inst import Inst, same_value
    import sympy

    # ---- fixed corpus: the witnesses of the repaired finding (keyword arguments were sequential)
    W = World(__import__('random').Random(10), m)
    a = m['BilinearForm']((W.u, W.v), m['integral'](W.domain, W.f * W.u * W.v + W.g * m['dot'](m['grad'](W.u), m['grad'](W.v))))
    fn, gn = W.f.name, W.g.name
    for label, pos, kw, key, what in [
        ('kw-exchange', (W.u, W.v), {fn: W.g, gn: W.f}, 'kw-sequential:exchange',
         'a(u, v, f=g, g=f) does not exchange the two coefficient fields (keyword arguments replaced one after the other)'),
        ('kw-own-argument', (W.w, W.v), {fn: W.u}, 'kw-sequential:own-argument',
         'a(w, v, f=u) replaces the new coefficient u by w as well (keyword arguments replaced before the positional ones)')]:
        o.evaluations += 1
        bad = check_call(o, W, a, [W.u], [W.v], pos, kw, label, True, m)
        if bad:
            o.fail(key, what + ': ' + bad[1], **bad[2])
        else:
            o.count('fixed-corpus:' + key)

    # ---- fixed corpus: free constants declared with sympy assumptions next to plain ones, replaced by keyword
    # (`Constant('kappa', real=True)` is not `Constant('kappa')`: the keyword designates the constant of the integrands)
    Cst, integral, dot, grad, div = m['Constant'], m['integral'], m['dot'], m['grad'], m['div']
    cc, kr, kp, ki = Cst('c10c'), Cst('kappa10', real=True), Cst('nu10', positive=True), Cst('m10', integer=True)
    ab = m['BilinearForm']((W.u, W.v), integral(W.domain, kr * dot(grad(W.u), grad(W.v)) + cc * W.f * W.u * W.v) + integral(W.faces[0], kp * W.u * W.v))
    bb = m['BilinearForm']((W.F, W.G), integral(W.domain, kp * div(W.F) * div(W.G) + ki * dot(W.F, W.G)))
    lb = m['LinearForm'](W.v, integral(W.domain, kr**2 * W.f * W.v + cc * W.D1[0](W.v)))
    for name, form, tr_, te_, pos, kw in [
            ('plain-and-field', ab, [W.u], [W.v], (W.u, W.v), {'c10c': 2, W.f.name: W.g}),
            ('real', ab, [W.u], [W.v], (W.u, W.v), {'kappa10': 3}),
            ('positive-boundary', ab, [W.u], [W.v], (W.v, W.u), {'nu10': m['Rational'](1, 2), 'c10c': 0}),
            ('integer-vector', bb, [W.F], [W.G], (W.F, W.G), {'m10': 4}),
            ('two-declared', bb, [W.F], [W.G], (W.G, W.H), {'nu10': sympy.pi, 'm10': cc}),
            ('declared-to-declared', bb, [W.F], [W.G], (W.F, W.G), {'nu10': ki, 'm10': kp}),
            ('real-linear', lb, [], [W.v], (W.w,), {'kappa10': 2}),
            ('exchange-plain-real-linear', lb, [], [W.v], (W.w,), {'c10c': kr, 'kappa10': cc}),
            ('exchange-plain-real', ab, [W.u], [W.v], (W.u, W.v), {'c10c': kr, 'kappa10': cc}),
            ('same-name-plain', ab, [W.u], [W.v], (W.w, W.v), {'kappa10': Cst('kappa10')})]:
        o.evaluations += 1
        key = 'corpus:kw-constant-assumptions:' + name
        bad = check_call(o, W, form, tr_, te_, pos, kw, 'kw-const', bool(tr_), m)
        if bad:
            o.fail(key, 'a keyword must replace the free constant of that name, whatever assumptions it was declared with: ' + bad[1], **bad[2])
        else:
            o.count('fixed-corpus:' + key)

    # asymmetric parts on different regions (they would cancel if all integrands were added): not symmetric
    d0 = W.D1[0]
    for key, expr in (
            ('corpus:symmetric-cross-region:two-faces', m['integral'](W.domain, m['dot'](m['grad'](W.u), m['grad'](W.v)))
             + m['integral'](W.faces[0], W.u * d0(W.v)) + m['integral'](W.faces[1], W.v * d0(W.u))),
            ('corpus:symmetric-cross-region:domain-face', m['integral'](W.domain, d0(W.u) * W.v) + m['integral'](W.faces[1], W.u * d0(W.v)))):
        o.evaluations += 1
        a2 = m['BilinearForm']((W.u, W.v), expr)
        fl = call(lambda: a2.is_symmetric)
        if fl[0] != 'ok' or fl[1]:
            o.fail(key, 'is_symmetric of %s is %s; the form is not symmetric (its asymmetric parts are on different regions)' % (str(a2.expr)[:200], fl[1]))
        else:
            o.count('fixed-corpus:' + key)

    nforms = (900 if ctx.thorough else 160) * factor
    for i in range(nforms):
        if i % 6 == 0:
            W = World(rng, m)
        bilinear = rng.random() < 0.7
        try:
            if bilinear:
                form, tr, te, expected = make_bilinear(W, rng)
            else:
                form, te = make_linear(W, rng)
                tr, expected = [], None
        except Exception as e:
            o.count('form-refused:' + type(e).__name__)
            continue
        calls = gen_calls(W, rng, tr, te, bilinear)
        todo = [(lab, pos, {}) for lab, pos, _ in calls]
        for lab, kw in gen_kwargs(W, rng, form, tr, te):
            todo.append((lab, rng.choice(calls)[1], kw))
        for lab, pos, kw in todo:
            o.evaluations += 1
            bad = check_call(o, W, form, tr, te, pos, kw, lab, bilinear, m)
            if bad:
                o.fail(bad[0], bad[1], **bad[2])
        # calling with its own arguments is the identity
        o.evaluations += 1
        own = (tuple(tr), tuple(te)) if bilinear else (tuple(te),)
        r = call(form, *own)
        if r[0] == 'err' or not same_ints(int_list(r[1], m), int_list(form.expr, m), m):
            o.fail('call-self:' + str(form.expr)[:200], 'calling the form %s with its own arguments gives %s' % (str(form.expr)[:200], r[1]), form=str(form.expr))
        else:
            o.count('call-self')
        if not bilinear:
            continue
        # exchanging twice gives the form back
        o.evaluations += 1
        sw = call(form, tuple(te), tuple(tr))
        if sw[0] == 'ok' and sw[1] != 0:
            try:
                a2 = m['BilinearForm']((tuple(tr), tuple(te)), sw[1], check_linearity=False)
                back = a2(tuple(te), tuple(tr))
                if not same_ints(int_list(back, m), int_list(form.expr, m), m):
                    o.fail('swap-twice:' + str(form.expr)[:200], 'exchanging the arguments of %s twice gives %s' % (str(form.expr)[:200], str(back)[:300]), form=str(form.expr))
                else:
                    o.count('swap-involutive')
            except Exception as e:
                o.count('swap-twice-skipped:' + type(e).__name__)
        # symmetry flag: never True for a form whose meaning changes under the exchange
        o.evaluations += 1
        flag = call(lambda: form.is_symmetric)
        if flag[0] == 'err':
            o.fail('sym-raises:' + str(form.expr)[:200], 'is_symmetric raises %s on %s' % (type(flag[1]).__name__, str(form.expr)[:200]), form=str(form.expr))
            continue
        o.count('is_symmetric:%s:built-%s' % (flag[1], 'symmetric' if expected else 'non-symmetric'))
        if flag[1]:
            a1, a2 = int_list(form(tuple(tr), tuple(te)), m), int_list(sw[1], m) if sw[0] == 'ok' else None
            witness = None
            for trial in range(3):
                coords = list(W.domain.coordinates)
                inst = Inst(rng, W.dim, coords)
                try:
                    d1, d2 = dict(a1), dict(a2)
                    for dom in d1:
                        v1, v2 = inst.inst(d1[dom]), inst.inst(d2.get(dom, sympy.S.Zero))
                        if same_value(v1, v2, coords, rng) is False:
                            witness = (dom, {k: str(v) for k, v in list(inst.sf.items()) + list(inst.vf.items())}, str(sympy.expand(v1 - v2))[:200])
                            break
                except NotImplementedError:
                    o.count('sym-instantiation-skipped')
                    break
                if witness:
                    break
            if witness:
                o.fail('sym-wrong:' + str(form.expr)[:200],
                       'is_symmetric is True for %s but a(u,v) - a(v,u) = %s on %s with %s' % (str(form.expr)[:200], witness[2], witness[0], witness[1]),
                       form=str(form.expr), witness=witness[1])
            else:
                o.count('sym-true-confirmed')
        if len(o.samples) < 3:
            o.samples.append({'form': str(form.expr)[:200], 'is_symmetric': bool(flag[1]), 'a(v,u)': str(sw[1])[:200]})
    return o


def replay(ctx, path):
    d = json.load(open(path))
    print(json.dumps(d, indent=1)[:3500])
    key = d.get('key', '')

    class C:
        pass
    import random
    c2 = C()
    c2.rng = random.Random(0)
    c2.thorough = False
    o = oracle(c2, 0, [])
    still = [f for f in o.failures if f['key'] == key]
    if still:
        print('REPLAY: still failing:', still[0]['what'][:600])
        return 1
    if key.startswith(('kw-sequential', 'corpus:')):
        print('REPLAY: the recorded witness no longer fails')
        return 0
    print('REPLAY: random form; re-run `VERIF_SEED=%s ./check C10 --tier %s` to regenerate it; fixed corpus now fails on: %s' % (
        d.get('seed'), d.get('tier'), [f['key'] for f in o.failures]))
    return 0
