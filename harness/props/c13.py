"""C13 — joining patches partitions their faces and mirrors the logical domain.

correspondence: real sympde (Domain.join, get_boundary, get_subdomain, corners, F(Omega)) against the
Lean model Model/Topology.lean through the line-protocol driver, on random lattice layouts of
lines / squares / cubes (plain, mapped, mixed), random subsets / orders / orientations of the
geometric connections, patches given by object or by index, plus a malformed stream.

oracle: the property itself evaluated on the real code with lattice geometry only (no Lean).
"""
import itertools
import json

from harness.common import Corr, Oracle, Timeout, time_limit
from harness.sexp import A, dumps, loads_all

PID = 'C13'
PROPS_MODULE = 'SympdeModel.Props.C13'
RULE = ('random lattice layouts: d in 1..3, chains and grids up to 5 / 3x3 / 3x2x2 patches (thorough: 7 / 4x4 / 3x3x2), '
        'hygienic unique names in random alphabetical order, plain / all mapped (Mapping, IdentityMapping, AffineMapping, '
        'PolarMapping; own or shared mapping) / mixed, optional periodic closure of axes with >= 2 patches, random subset '
        'of the geometric connections in random order, random role flips (minus on the upper patch), random orientations '
        '(int in 2D, triple in 3D, or omitted; ~30% of the explicit ones handed to Domain.join as numpy / sympy integers, '
        'numpy arrays, lists / tuples of numpy ints, sympy Tuple - the specification keeps plain ints), ~30% of the 2D '
        'layouts with mostly reversed (-1) connections on a thinned grid (L / T junctions), patches by object / index / negative index, axis None in 1D; then '
        'get_boundary on every patch and on the joined domain for all (axis, ext) incl. invalid ones, get_subdomain for '
        'random selections (str, tuples, full, domain name, unknown names, empty), corners in 2D, F(Omega) for plain '
        'layouts; ~15% malformed layouts (axis mismatch, bad ext/axis, index out of range, mixed refs, duplicated / '
        'reused / self connections, foreign patch, mixed dims, single / no patch, 4D, short 3D orientation, repeated '
        'patch); histories: for ~30% of the valid layouts 1-3 further declarations over the SAME domain / patch / mapping '
        'names are built and observed right after it in the same process (other orientations, the same joined faces '
        'paired in another way, exchanged roles, other patch / connection order, one connection less, the first '
        'declaration again, the same orientations handed over in another representation; F(Omega) with the mapping of the '
        'first declaration or one of its own), each one checked '
        'against its own declaration; fixed histories (rows, L, 2x2, 1D, 3D; plain '
        'and mapped); fixed orientation-form cases (2D / 3D, plain / mapped) and fixed junction layouts (L shapes at the four '
        'corners of the middle patch, T junctions, all orientation signs, several name copies); every call into the '
        'implementation runs under a time limit (a call that does not return is a failure); non-trivial = the request involves at least one interface or raises; distinct by request line')
ASSUMPTIONS = [
    'sympde objects compare by NAME only (filed under C12): all layouts use unique patch and mapping names; the '
    'theorems carry the hypothesis that the patch names (and, for the mirror, the logical names) are pairwise different',
    'the theorems join_partition / join_declared / join_order_invariant assume that no face is used twice and no '
    'ordered patch pair is declared twice (proved for every grid: grid_connections_ok); the swap branch (second '
    'connection between the same ordered pair) and overwriting are covered by the correspondence run only',
    'a patch joined to itself (periodic closure of an axis with a single patch) is outside the checked layouts: '
    'get_subdomain drops the self-joined faces and two self-connections of one patch collide on the name A|A',
    'Python set/dict iteration order inside get_shared_corners is arbitrary; model and oracle compare the groups as sets',
    'the logical domain of a sub-domain returned by get_subdomain carries no interfaces (observed, modelled, not claimed by the property)',
    'histories (several declarations over the same names in one process) are checked member by member against the '
    'declaration of that member; no theorem speaks about sequences (the Lean model is a pure function of one declaration)',
]
MIN_NONTRIVIAL = 20


def T():
    from sympde.topology import (Line, Square, Cube, Domain, Mapping, IdentityMapping, PolarMapping,
                                 AffineMapping, Interface, Union, Boundary)
    from sympde.topology.domain import NCube
    from sympde.topology.basic import InteriorDomain
    from sympde.topology.mapping import MultiPatchMapping
    return locals()


# --------------------------------------------------------------------------- layout specs

POOL = [a + b for a in 'ABCDEFGHKLMNPQRSTUVWXYZ' for b in ('', 'a', 'b', '1', '2')]
MAPKINDS = {1: ['Mapping', 'IdentityMapping', 'AffineMapping'],
            2: ['Mapping', 'IdentityMapping', 'AffineMapping', 'PolarMapping'],
            3: ['Mapping', 'IdentityMapping', 'AffineMapping']}


# How a declared orientation reaches Domain.join.  The layout keeps plain Python ints (the ground truth and what the
# Lean model is given); `form` says in which representation the value is handed over: connectivity tables computed or
# loaded with numpy give numpy integers / rows of integer arrays, symbolic preprocessing gives sympy Integers.  All of
# them denote the same orientation (seeded change C13-9 dropped every orientation that was not a built-in int).
ORNT_FORMS = {2: ['py', 'np-int64', 'np-int32', 'np-int8', 'np-sign', 'np-entry', 'sympy'],
              3: ['py', 'np-array', 'np-row', 'np-int32', 'np-sign', 'np-tuple', 'np-list', 'list', 'sympy', 'sympy-Tuple']}


def given_ornt(o, form):
    """the orientation `o` (int in 2D, list of 3 ints in 3D) in the representation `form`"""
    if o is None or form in (None, 'py'):
        return tuple(o) if isinstance(o, list) else o
    import numpy as np
    import sympy
    if isinstance(o, (list, tuple)):
        o = [int(x) for x in o]
        return {'np-array': lambda: np.array(o),
                'np-row': lambda: np.array([[7, 7, 7], o])[1],                   # a row of an integer table
                'np-int32': lambda: np.array(o, dtype=np.int32),
                'np-sign': lambda: np.sign(np.array([3 * x for x in o])),
                'np-tuple': lambda: tuple(np.array(o)),                            # tuple of numpy ints
                'np-list': lambda: [np.int8(x) for x in o],
                'list': lambda: list(o),
                'sympy': lambda: tuple(sympy.Integer(x) for x in o),
                'sympy-Tuple': lambda: sympy.Tuple(*o)}[form]()
    return {'np-int64': lambda: np.int64(o), 'np-int32': lambda: np.int32(o), 'np-int8': lambda: np.int8(o),
            'np-sign': lambda: np.sign(np.int64(3 * o)),
            'np-entry': lambda: np.array([7, o])[1],                               # an entry of an integer array
            'sympy': lambda: sympy.Integer(o)}[form]()


def pick_form(rng, d, ornt):
    """~30% of the explicit orientations are not handed over as built-in ints"""
    if ornt is None or d not in ORNT_FORMS or rng.random() < 0.7:
        return 'py'
    return rng.choice(ORNT_FORMS[d][1:])


def gen_layout(rng, serial, big, mode=None):
    """a valid lattice layout (JSON-able dict)"""
    d = rng.choice([1, 2, 2, 2, 3, 3])
    while True:
        if d == 1:
            shape = (rng.randint(2, 7 if big else 5), 1, 1)
        elif d == 2:
            m = 4 if big else 3
            shape = (rng.randint(1, m), rng.randint(1, m), 1)
        else:
            shape = (rng.randint(1, 3), rng.randint(1, 3 if big else 2), rng.randint(1, 2))
        if shape[0] * shape[1] * shape[2] >= 2:
            break
    idxs = [ix for ix in itertools.product(range(shape[0]), range(shape[1]), range(shape[2]))]
    toks = rng.sample(POOL, len(idxs))
    mode = mode or rng.choice(['plain'] * 9 + ['mapped'] * 8 + ['mixed'] * 3)
    def pick_mapping(t):
        # symbolic mappings get a fresh name; analytic ones (expensive to construct: symbolic inverse
        # Jacobian) come from a small pool of objects shared by all layouts
        if rng.random() < 0.75:
            return ('Mapping', 'F%s%d' % (t, serial))
        k = rng.choice(MAPKINDS[d][1:])
        return (k, '%s%d%s' % (k[:2], d, rng.choice('ab') if k == 'IdentityMapping' else 'a'))
    shared = None
    if mode == 'mapped' and rng.random() < 0.3:
        shared = pick_mapping('H' + rng.choice(POOL))
    patches = []
    for ix, t in zip(idxs, toks):
        mp = None
        if mode == 'mapped' or (mode == 'mixed' and rng.random() < 0.5):
            mp = shared or pick_mapping(t)
        patches.append({'lname': '%s%d' % (t, serial), 'dim': d, 'ix': list(ix),
                        'lo': [ix[k] for k in range(d)], 'hi': [ix[k] + 1 for k in range(d)], 'map': mp})
    pid_of = {tuple(p['ix']): i for i, p in enumerate(patches)}
    per = [shape[k] >= 2 and k < d and rng.random() < 0.25 for k in range(3)]
    order = list(range(len(patches)))
    rng.shuffle(order)
    refmode = rng.choice(['obj', 'obj', 'idx', 'idx', 'negidx'])
    keep = rng.choice([1.0, 1.0, 0.8, 0.5, 0.25])
    # junction-rich 2D layouts: a thinned grid (L shapes, T junctions: a vertex shared by >= 3 patches on an open
    # chain of corners) whose connections are mostly reversed
    junction = d == 2 and len(idxs) >= 3 and rng.random() < 0.3
    if junction:
        keep = rng.choice([0.8, 0.65, 0.5])
    conns = []
    for ix in idxs:
        for a in range(d):
            if ix[a] + 1 < shape[a]:
                jx = list(ix); jx[a] += 1
            elif per[a]:
                jx = list(ix); jx[a] = 0
            else:
                continue
            if rng.random() > keep:
                continue
            lo_side, hi_side = (pid_of[ix], a, 1), (pid_of[tuple(jx)], a, -1)
            m, p = (hi_side, lo_side) if rng.random() < 0.25 else (lo_side, hi_side)
            if d == 1:
                ornt = rng.choice([None, None, 1])
            elif d == 2:
                ornt = rng.choice([-1, -1, -1, 1, None] if junction else [None, 1, -1])
            else:
                ornt = rng.choice([None, [1, 1, 1], [rng.choice([1, -1]) for _ in range(3)]])
            form = pick_form(rng, d, ornt)

            def side(s):
                pid, ax, ext = s
                pos = order.index(pid)
                if refmode == 'obj':
                    ref = ['obj', pid]
                elif refmode == 'idx':
                    ref = ['idx', pos]
                else:
                    ref = ['idx', pos - len(order)]
                return {'ref': ref, 'pid': pid, 'axis': None if (d == 1 and rng.random() < 0.2) else ax, 'ext': ext}
            cn = {'m': side(m), 'p': side(p), 'ornt': ornt}
            if form != 'py':
                cn['form'] = form
            conns.append(cn)
    rng.shuffle(conns)
    return {'d': d, 'shape': list(shape), 'per': per, 'patches': patches, 'order': order, 'conns': conns,
            'name': 'Om%d' % serial, 'mode': mode, 'refmode': refmode, 'serial': serial, 'malformed': None}


def malform(rng, spec):
    """one structural defect; returns the kind or None if not applicable"""
    d, conns, patches, order = spec['d'], spec['conns'], spec['patches'], spec['order']
    kinds = ['axis-mismatch', 'bad-ext', 'bad-axis', 'idx-range', 'mixed-ref', 'dup-conn', 'dup-conn3',
             'reuse-face', 'self-face', 'foreign', 'dim-mix', 'single', 'single-conn', 'empty', 'dim4',
             'dim4-noconn', 'ornt-short', 'repeat-patch', 'two-same']
    k = rng.choice(kinds)
    c = rng.choice(conns) if conns else None
    s = spec['serial']
    if k == 'axis-mismatch' and c and d > 1:
        c['p']['axis'] = (c['p']['axis'] + 1) % d
    elif k == 'bad-ext' and c:
        rng.choice([c['m'], c['p']])['ext'] = rng.choice([0, 2, -2])
    elif k == 'bad-axis' and c:
        rng.choice([c['m'], c['p']])['axis'] = d + rng.choice([0, 1])
    elif k == 'idx-range' and c and spec['refmode'] != 'obj':
        rng.choice([c['m'], c['p']])['ref'] = ['idx', rng.choice([len(order), -len(order) - 1, len(order) + 3])]
    elif k == 'mixed-ref' and len(conns) >= 1:
        sd = rng.choice([x[y] for x in conns for y in 'mp'][1:] or [None])
        if sd is None:
            return None
        sd['ref'] = ['idx', order.index(sd['pid'])] if sd['ref'][0] == 'obj' else ['obj', sd['pid']]
    elif k == 'dup-conn' and c:
        conns.insert(rng.randrange(len(conns) + 1), json.loads(json.dumps(c)))
    elif k == 'dup-conn3' and c:
        for _ in range(2):
            conns.insert(rng.randrange(len(conns) + 1), json.loads(json.dumps(c)))
    elif k == 'reuse-face' and len(conns) >= 2:
        c2 = rng.choice([x for x in conns if x is not c])
        if c2['m']['axis'] != c['m']['axis'] or c['m']['axis'] is None:
            return None
        c2['m'] = json.loads(json.dumps(c['m']))
    elif k == 'self-face' and c:
        c['p'] = json.loads(json.dumps(c['m']))
    elif k == 'foreign' and c and spec['refmode'] == 'obj':
        patches.append({'lname': 'Zz%d' % s, 'dim': d, 'ix': [9, 9, 9], 'lo': [9] * d, 'hi': [10] * d,
                        'map': patches[0]['map'] and ('Mapping', 'Fzz%d' % s)})
        c['p']['ref'] = ['obj', len(patches) - 1]
        c['p']['pid'] = len(patches) - 1
    elif k == 'dim-mix':
        d2 = d % 3 + 1
        patches.append({'lname': 'Zd%d' % s, 'dim': d2, 'ix': [9, 9, 9], 'lo': [9] * d2, 'hi': [10] * d2, 'map': None})
        order.insert(rng.randrange(len(order) + 1), len(patches) - 1)
        if spec['refmode'] != 'obj':     # keep the positions meant by the connections
            for x in conns:
                for y in 'mp':
                    pos = order.index(x[y]['pid'])
                    x[y]['ref'] = ['idx', pos if spec['refmode'] == 'idx' else pos - len(order)]
    elif k == 'single':
        spec['order'] = [order[0]]
        spec['conns'] = []
    elif k == 'single-conn' and c:
        spec['order'] = [c['m']['pid']]
        spec['conns'] = [c]
        for y in 'mp':
            c[y]['ref'] = ['obj', c[y]['pid']] if spec['refmode'] == 'obj' else ['idx', 0]
    elif k == 'empty':
        spec['order'] = []
        spec['conns'] = []
    elif k in ('dim4', 'dim4-noconn'):
        spec['d'] = 4
        spec['patches'] = [{'lname': 'Ya%d' % s, 'dim': 4, 'ix': [0, 0, 0], 'lo': [0] * 4, 'hi': [1] * 4, 'map': None},
                           {'lname': 'Yb%d' % s, 'dim': 4, 'ix': [1, 0, 0], 'lo': [1, 0, 0, 0], 'hi': [2, 1, 1, 1], 'map': None}]
        spec['order'] = [0, 1]
        ax = rng.randrange(4)
        spec['conns'] = [] if k == 'dim4-noconn' else [
            {'m': {'ref': ['obj', 0], 'pid': 0, 'axis': ax, 'ext': 1}, 'p': {'ref': ['obj', 1], 'pid': 1, 'axis': ax, 'ext': -1},
             'ornt': None}]
        spec['refmode'] = 'obj'
    elif k == 'ornt-short' and c and d == 3:
        c['ornt'] = [1, -1]
    elif k == 'repeat-patch':
        order.append(order[0])
    elif k == 'two-same':
        spec['order'] = [order[0], order[0]]
        spec['conns'] = []
    else:
        return None
    spec['malformed'] = k
    return k


# --------------------------------------------------------------------------- histories
#
# A history is a sequence of layouts built and observed one after the other in ONE process (no cache
# clearing in between) that carry the same domain name, the same patch names (hence objects that
# compare equal by name) and - for most kinds - the same set of joined faces, but differ in what is
# declared about them.  Every layout of a history is checked on its own against the same ground truth
# as any other layout: the result of Domain.join and of every observer is a function of the declared
# patches and connections, never of what was built before.

HIST_KINDS = ['ornt', 'ornt', 'repair', 'repair', 'roles', 'order', 'subset', 'again', 'form']


def _reref(spec):
    """recompute the positional patch references after a change of spec['order']"""
    order = spec['order']
    for x in spec['conns']:
        for y in 'mp':
            s = x[y]
            if s['ref'][0] == 'idx':
                pos = order.index(s['pid'])
                s['ref'] = ['idx', pos if spec['refmode'] == 'idx' else pos - len(order)]


def variant(rng, spec, kind=None):
    """a layout with the same names as `spec` and another declaration; None if `kind` does not apply"""
    if spec.get('malformed'):
        return None
    v = json.loads(json.dumps({k: x for k, x in spec.items() if k not in ('after', 'hidx', 'hist', 'same_map')}))
    d, conns = v['d'], v['conns']
    kind = kind or rng.choice(HIST_KINDS)
    if kind == 'ornt':
        # other declared orientation on some of the connections
        if d == 1 or not conns:
            return None
        for c in rng.sample(conns, rng.randint(1, len(conns))):
            o = c['ornt']
            if d == 2:
                c['ornt'] = -1 if o in (None, 1) else rng.choice([1, None])
            else:
                o = [1, 1, 1] if o is None else list(o)
                k = rng.randrange(3)
                o[k] = -o[k]
                c['ornt'] = None if o == [1, 1, 1] and rng.random() < 0.5 else o
            if c['ornt'] is None:
                c.pop('form', None)
            elif 'form' not in c and rng.random() < 0.3:
                c['form'] = rng.choice(ORNT_FORMS[d][1:])
    elif kind == 'repair':
        # the same joined faces paired in another way (plus sides of two connections of one axis exchanged)
        ax = lambda s: s['axis'] or 0
        cands = []
        for i, c1 in enumerate(conns):
            for c2 in conns[i + 1:]:
                if not (ax(c1['m']) == ax(c1['p']) == ax(c2['m']) == ax(c2['p'])):
                    continue
                new = [frozenset((c1['m']['pid'], c2['p']['pid'])), frozenset((c2['m']['pid'], c1['p']['pid']))]
                others = [frozenset((x['m']['pid'], x['p']['pid'])) for x in conns if x is not c1 and x is not c2]
                if any(len(n) == 1 for n in new) or new[0] == new[1] or any(n in others for n in new):
                    continue
                cands.append((c1, c2))
        if not cands:
            return None
        c1, c2 = rng.choice(cands)
        c1['p'], c2['p'] = c2['p'], c1['p']
        v['nongeo'] = True
    elif kind == 'roles':
        if not conns:
            return None
        for c in rng.sample(conns, rng.randint(1, len(conns))):
            c['m'], c['p'] = c['p'], c['m']
    elif kind == 'order':
        rng.shuffle(v['order'])
        rng.shuffle(conns)
        _reref(v)
    elif kind == 'subset':
        if len(conns) < 2:
            return None
        conns.pop(rng.randrange(len(conns)))
    elif kind == 'again':
        pass
    elif kind == 'form':
        # the same declaration, the orientations handed over in another representation
        cands = [c for c in conns if c['ornt'] is not None and d in ORNT_FORMS]
        if not cands:
            return None
        for c in rng.sample(cands, rng.randint(1, len(cands))):
            c['form'] = rng.choice([f for f in ORNT_FORMS[d] if f != c.get('form', 'py')])
    else:
        return None
    v['hist'] = kind
    return v


def gen_history(rng, spec, length):
    """variants of `spec` declared one after the other; each one records what was built before it"""
    out, cur, before = [], spec, [spec]
    for _ in range(length):
        v = None
        for _try in range(4):
            v = variant(rng, rng.choice([spec, cur]))
            if v is not None and (v['conns'] != cur['conns'] or v['order'] != cur['order']):
                break
            v = None
        if v is None:
            break
        v['hidx'] = len(before)
        v['same_map'] = rng.random() < 0.6
        v['after'] = json.loads(json.dumps([{k: x for k, x in s.items() if k != 'after'} for s in before]))
        out.append(v)
        before.append(v)
        cur = v
    if out and rng.random() < 0.5:
        v = variant(rng, spec, 'again')
        v['hidx'] = len(before)
        v['same_map'] = rng.random() < 0.6
        v['after'] = json.loads(json.dumps([{k: x for k, x in s.items() if k != 'after'} for s in before]))
        out.append(v)
    return out


# --------------------------------------------------------------------------- real objects

_MAPPINGS = {}


def get_mapping(t, kind, name, d):
    key = (kind, name, d)
    if key not in _MAPPINGS:
        _MAPPINGS[key] = t[kind](name, dim=d)
    return _MAPPINGS[key]


class Build:
    def __init__(self, spec):
        t = self.t = T()
        self.spec = spec
        self.objs = []
        for p in spec['patches']:
            d = p['dim']
            b = [(p['lo'][k], p['hi'][k]) for k in range(d)]
            if d <= 3:
                o = [t['Line'], t['Square'], t['Cube']][d - 1](p['lname'], *b)
            else:
                o = t['NCube'](p['lname'], d, tuple(p['lo']), tuple(p['hi']))
            if p['map']:
                o = get_mapping(t, p['map'][0], p['map'][1], d)(o)
            self.objs.append(o)
        self.patches = [self.objs[i] for i in spec['order']]
        self.conns = []
        for c in spec['conns']:
            cn = [self.side(c['m']), self.side(c['p'])]
            if c['ornt'] is not None:
                cn.append(given_ornt(c['ornt'], c.get('form')))
            self.conns.append(tuple(cn))

    def side(self, s):
        ref = self.objs[s['ref'][1]] if s['ref'][0] == 'obj' else s['ref'][1]
        return (ref, s['axis'], s['ext'])

    def join(self):
        return self.t['Domain'].join(self.patches, self.conns, self.spec['name'])

    def pname(self, pid):
        p = self.spec['patches'][pid]
        return '%s(%s)' % (p['map'][1], p['lname']) if p['map'] else p['lname']


def opt(x):
    return A('none') if x is None else x


def patch_sexp_in(p):
    return [A('patch'), p['lname'], p['dim'], list(p['lo']), list(p['hi']), opt(p['map'] and p['map'][1])]


def side_sexp(spec, s):
    ref = [A('obj'), patch_sexp_in(spec['patches'][s['ref'][1]])] if s['ref'][0] == 'obj' else [A('idx'), s['ref'][1]]
    return [A('side'), ref, opt(s['axis']), s['ext']]


def layout_sexp(spec):
    ps = [A('patches')] + [patch_sexp_in(spec['patches'][i]) for i in spec['order']]
    cs = [A('conns')]
    for c in spec['conns']:
        o = c['ornt']
        cs.append([A('conn'), side_sexp(spec, c['m']), side_sexp(spec, c['p']),
                   A('none') if o is None else (list(o) if isinstance(o, list) else [o])])
    return '%s %s %s' % (dumps(ps), dumps(cs), dumps(spec['name']))


# --------------------------------------------------------------------------- observers (real object -> S-expression)

def members(u, t):
    if u is None:
        return []
    if isinstance(u, t['Union']):
        return list(u.args)
    return [u]


def num(x):
    f = float(x)
    return int(f) if f == int(f) else str(f)


def interior_sexp(e):
    ld = e.logical_domain
    return [A('patch'), str(e.name), str(ld.name if ld is not None else e.name), int(e.dim),
            [num(x) for x in e.min_coords], [num(x) for x in e.max_coords], opt(e.mapping and str(e.mapping.name))]


def face_core(b):
    return [A('face'), str(b.domain.name), int(b.axis), int(b.ext), str(b.name)]


def face_sexp(b):
    ld = b.logical_domain
    return face_core(b) + [opt(b.mapping and str(b.mapping.name)), A('none') if ld is None else face_core(ld)]


def ornt_sexp(o):
    if o is None:
        return A('none')
    if isinstance(o, (tuple, list)) or hasattr(o, '__iter__'):
        return [int(x) for x in o]
    return [int(o)]


def iface_sexp(i, with_logical=True):
    core = [A('iface'), str(i.name), face_sexp(i.minus), face_sexp(i.plus), ornt_sexp(i.ornt)]
    ld = i.logical_domain if with_logical else None
    return core + [A('none') if ld is None else [A('iface'), str(ld.name), face_sexp(ld.minus), face_sexp(ld.plus), ornt_sexp(ld.ornt)]]


def core_sexp(D, t):
    if hasattr(D, 'connectivity'):
        ints, bnd = members(D.interior, t), members(D.boundary, t)
        ifs = [D.connectivity[k] for k in D.connectivity]
    else:                                   # an NCubeInterior (logical domain of a single mapped patch)
        ints, bnd, ifs = [D], members(D.boundary, t), []
    return [A('core'), str(D.name), [A('interiors')] + [interior_sexp(e) for e in ints],
            [A('boundary')] + [face_sexp(b) for b in bnd], [A('ifaces')] + [iface_sexp(i) for i in ifs]]


def dom_sexp(D, t):
    L = D.logical_domain
    mp = D.mapping
    if mp is None:
        ms = []
    elif isinstance(mp, t['MultiPatchMapping']):
        ms = [[str(k.name), str(v.name)] for k, v in mp.mappings.items()]
    else:
        Li = members(L.interior, t) if hasattr(L, 'connectivity') else [L]
        ms = [[str(e.name), str(mp.name)] for e in Li]
    return [A('dom'), core_sexp(D, t), A('none') if L is None else core_sexp(L, t), [A('mappings')] + ms]


def corners_canon_real(cs, t):
    """Union / CornerInterface / None -> sorted list of sorted lists of (patch, ((axis, ext), (axis, ext)))"""
    out = []
    for ci in members(cs, t):
        out.append(sorted((str(cb.domain.name), tuple(sorted((int(b.axis), int(b.ext)) for b in cb.boundaries)))
                          for cb in ci.corners))
    # a group that holds two corners of one patch may be present twice in the real Union (members in another order)
    return [list(g) for g in sorted(set(tuple(g) for g in out))]


def corners_canon_model(s):
    out = []
    for g in s:
        grp = []
        for c in g[1:]:
            f1, f2 = c[2], c[3]
            grp.append((str(c[1]), tuple(sorted(((int(f1[2]), int(f1[3])), (int(f2[2]), int(f2[3])))))))
        out.append(sorted(grp))
    return [list(g) for g in sorted(set(tuple(g) for g in out))]


class Skipped(Exception):
    pass


class Guard:
    """time limit around every call into the implementation.  The calls made here take milliseconds (the slowest,
    F(Omega) of a 3x3x2 layout, well under a second); a call that has not returned after LIMIT seconds is reported as
    a failure of its own (seeded change C13-10 made get_shared_corners loop forever on some layouts and the check
    hung).  After the first timeout of a kind of call the limit drops to AFTER seconds, after MAX timeouts further
    calls of that kind are skipped (counted), so that a diverging implementation costs at most ~30 s per kind."""
    LIMIT, AFTER, MAX = 20.0, 3.0, 4

    def __init__(self):
        self.timeouts = {}
        self.skipped = {}

    def reset(self):
        self.timeouts.clear()
        self.skipped.clear()

    def limit(self, what):
        return self.LIMIT if not self.timeouts.get(what) else self.AFTER

    def run(self, what, f):
        """f() under the limit; raises Timeout(seconds) / Skipped"""
        n = self.timeouts.get(what, 0)
        if n >= self.MAX:
            self.skipped[what] = self.skipped.get(what, 0) + 1
            raise Skipped(what)
        sec = self.limit(what)
        try:
            with time_limit(sec):
                return f()
        except Timeout:
            self.timeouts[what] = n + 1
            raise Timeout(sec)


GUARD = Guard()
WHAT = {'join': 'Domain.join', 'gbp': 'patch.get_boundary', 'gbd': 'domain.get_boundary', 'sub': 'get_subdomain',
        'corners': 'get_shared_corners', 'map': 'F(Omega)'}


def describe(spec):
    """the layout in one line: patches in the order given to Domain.join and the declared connections"""
    nm = lambda pid: ('%s(%s)' % (spec['patches'][pid]['map'][1], spec['patches'][pid]['lname'])
                      if spec['patches'][pid]['map'] else spec['patches'][pid]['lname'])
    cs = []
    for c in spec['conns']:
        x = '((%s,%s,%s),(%s,%s,%s)' % (nm(c['m']['pid']), c['m']['axis'], c['m']['ext'], nm(c['p']['pid']), c['p']['axis'], c['p']['ext'])
        if c['ornt'] is not None:
            x += ',%s' % (tuple(c['ornt']) if isinstance(c['ornt'], list) else c['ornt'],)
            if c.get('form', 'py') != 'py':
                x += ' as %s' % c['form']
        cs.append(x + ')')
    return 'Domain.join([%s], [%s])' % (', '.join(nm(i) for i in spec['order']), ', '.join(cs))


def call(f, what='call'):
    try:
        return ('ok', GUARD.run(what, f))
    except RecursionError:
        raise
    except Skipped:
        return ('skipped', what)
    except Timeout as e:
        return ('err', 'Timeout: %s did not return within %g s' % (WHAT.get(what, what), e.args[0]))
    except Exception as e:       # noqa
        return ('err', type(e).__name__)


# --------------------------------------------------------------------------- correspondence

def queries(rng, spec, b, D, t, big):
    """request lines for one layout: (kind, line, thunk on the real code, post-processing)"""
    L = layout_sexp(spec)
    d = spec['d']
    qs = []
    # get_boundary on the patches
    pats = [b.objs[i] for i in dict.fromkeys(spec['order'])]
    pidl = list(dict.fromkeys(spec['order']))
    for pid, P in list(zip(pidl, pats))[:3 if not big else 6]:
        for ax in list(range(d + 1)) + [None]:
            for ext in (-1, 1, 0):
                if rng.random() < 0.5 and not (ax is not None and ax < d and ext != 0):
                    continue
                qs.append(('gbp', 'C13 gbp %s %s %d' % (dumps(patch_sexp_in(spec['patches'][pid])), dumps(opt(ax)), ext),
                           (lambda P=P, ax=ax, ext=ext: face_sexp(P.get_boundary(axis=ax, ext=ext)))))
    if D is None:
        return qs
    multi = isinstance(D.interior, t['Union'])
    # get_boundary on the joined domain
    for ax in list(range(d + 1)) + [None]:
        for ext in (-1, 1, 2):
            if (ax is None or ax >= d or ext == 2) and rng.random() < 0.6:
                continue
            qs.append(('gbd', 'C13 gbd %s %s %d' % (L, dumps(opt(ax)), ext),
                       (lambda ax=ax, ext=ext: face_sexp(D.get_boundary(axis=ax, ext=ext)))))
    # get_subdomain
    names = [str(e.name) for e in members(D.interior, t)]
    sels = []
    for _ in range(4 if not big else 8):
        k = rng.randint(1, max(1, len(names)))
        sels.append(tuple(rng.sample(names, k)))
    sels.append(rng.choice(names))
    sels.append(())
    sels.append(tuple(names))
    sels.append((names[0], str(D.name)))
    sels.append(('nope',) + tuple(names[:1]))
    sels.append('nope')
    sels.append((names[0], names[0]))
    for sel in sels:
        ns = [A('str'), sel] if isinstance(sel, str) else [A('tup')] + list(sel)

        def sub(sel=sel):
            r = D.get_subdomain(sel)
            if r is None:
                return A('None')
            if r is D:
                return A('self')
            return dom_sexp(r, t)
        qs.append(('sub', 'C13 sub %s %s' % (L, dumps(ns)), sub))
    sides = [(x[y]['pid'], x[y]['axis'], x[y]['ext']) for x in {json.dumps(c, sort_keys=True): c for c in spec['conns']}.values() for y in 'mp']
    # a face declared in two different connections has no geometry, and get_shared_corners then walks its
    # minus->plus dictionary (which kept only one of the two) from an arbitrary set.pop() start: the groups depend on
    # the iteration order of a set of objects hashed by address, so they are not compared
    if d == 2 and multi and len(set(sides)) == len(sides):
        qs.append(('corners', 'C13 corners %s' % L, (lambda: D.get_shared_corners())))
    if multi and all(p['map'] is None for p in spec['patches']) and d <= 3:
        # own mapping per member of a history: the correspondence compares the insertion order of the connectivity,
        # and F(Omega) of an Omega re-declared with the same connections in another order is (legitimately) the
        # memoised image of the first one; the same mapping on re-declared domains is exercised by the oracle
        G = outer_mapping_name(spec, own=True)
        qs.append(('map', 'C13 map %s %s' % (dumps(G), L), (lambda: dom_sexp_mapped(get_mapping(t, 'Mapping', G, d)(D), t))))
    return qs


def outer_mapping_name(spec, own=False):
    """name of the mapping F applied to the joined plain domain (F(Omega)).  A member of a history either gets the
    mapping of the first declaration again (`same_map`: the same F applied to a re-declared Omega must mirror the
    new declaration) or a mapping of its own"""
    if spec.get('hidx') and (own or not spec.get('same_map')):
        return 'G%dv%d' % (spec['serial'], spec['hidx'])
    return 'G%d' % spec['serial']


def dom_sexp_mapped(X, t):
    """F(Omega): the interfaces are plain Interface objects (no logical_domain attribute set)"""
    return dom_sexp(X, t)


_DISAGREE_SPECS = []


def correspondence(ctx):
    from sympy.core.cache import clear_cache
    c = Corr()
    del _DISAGREE_SPECS[:]
    GUARD.reset()
    t = T()
    nlay = 1500 if ctx.thorough else 110
    cases = []
    serial = 0
    for i in range(nlay):
        serial += 1
        spec = gen_layout(ctx.rng, serial, ctx.thorough)
        if ctx.rng.random() < 0.2:
            malform(ctx.rng, spec)
        c.count('layout:d%d:%s%s' % (spec['d'], spec['mode'], ':malformed' if spec['malformed'] else ''))
        if spec['malformed']:
            c.count('malformed:' + spec['malformed'])
        b = Build(spec)
        r = call(b.join, 'join')
        D = r[1] if r[0] == 'ok' else None
        impl = ('ok', dom_sexp(D, t)) if D is not None else r
        cases.append(('join', 'C13 join ' + layout_sexp(spec), impl, spec))
        for kind, line, thunk in queries(ctx.rng, spec, b, D, t, ctx.thorough):
            cases.append((kind, line, call(thunk, kind), spec))
        # histories: the same names declared in another way, built and observed right after (same process,
        # caches as they are); the model is a pure function of the declaration
        if not spec['malformed'] and ctx.rng.random() < 0.3:
            for v in gen_history(ctx.rng, spec, ctx.rng.randint(1, 2)):
                c.count('history:' + v['hist'])
                b = Build(v)
                r = call(b.join, 'join')
                D = r[1] if r[0] == 'ok' else None
                impl = ('ok', dom_sexp(D, t)) if D is not None else r
                cases.append(('join', 'C13 join ' + layout_sexp(v), impl, v))
                for kind, line, thunk in queries(ctx.rng, v, b, D, t, ctx.thorough):
                    if kind != 'gbp':
                        cases.append((kind, line, call(thunk, kind), v))
        if i % 50 == 49:
            clear_cache()
    # the Lean definition of "the geometric connections of a grid" (Grid.conns, used by grid_connections_ok
    # and corners_chain) against lattice adjacency computed here
    for _ in range(60 if ctx.thorough else 15):
        d = ctx.rng.randint(1, 3)
        shape = [ctx.rng.randint(1, 4) if k < d else 1 for k in range(3)]
        per = [k < d and ctx.rng.random() < 0.4 for k in range(3)]
        exp = []
        for ix in itertools.product(range(shape[0]), range(shape[1]), range(shape[2])):
            for a in range(d):
                jx = list(ix)
                if ix[a] + 1 < shape[a]:
                    jx[a] += 1
                elif per[a] and shape[a] >= 2:
                    jx[a] = 0
                else:
                    continue
                exp.append(['P%d_%d_%d' % ix, a, 1, 'P%d_%d_%d' % tuple(jx), a, -1])
        line = 'C13 gridconns %d %d %d %d (%s)' % (d, shape[0], shape[1], shape[2], ' '.join('true' if x else 'false' for x in per))
        cases.append(('gridconns', line, ('ok', exp), None))
    for x in cases:
        if x[2][0] == 'skipped':
            c.count('skipped-after-timeouts:' + x[0])
    cases = [x for x in cases if x[2][0] != 'skipped']
    outs = ctx.driver.run([x[1] for x in cases])
    for (kind, line, impl, spec), out in zip(cases, outs):
        c.evaluations += 1
        c.count('kind:' + kind)
        nontrivial = False
        if impl[0] == 'err':
            c.count('err:%s:%s' % (kind, impl[1]))
            want = 'err ' + impl[1]
            agree = out == want
            nontrivial = True
            impl_s = want
        elif kind == 'gridconns':
            impl_s = repr(sorted(impl[1]))
            agree = out.startswith('ok ') and repr(sorted([str(c[0]), int(c[1]), int(c[2]), str(c[3]), int(c[4]), int(c[5])]
                                                        for c in loads_all(out[3:])[0])) == impl_s
            nontrivial = bool(impl[1])
        elif kind == 'corners':
            impl_s = repr(corners_canon_real(impl[1], t))
            agree = out.startswith('ok ') and repr(corners_canon_model(loads_all(out[3:])[0])) == impl_s
            c.count('corners:groups:%d' % min(len(corners_canon_real(impl[1], t)), 9))
            nontrivial = True
        else:
            try:
                impl_s = 'ok ' + dumps(impl[1])
            except Exception as ex:
                # the implementation returned something that cannot even be serialised as a topology
                # (e.g. a structure containing None): a disagreement, not a harness failure
                impl_s = 'unserialisable result (%s): %r' % (type(ex).__name__, impl[1])
                impl_s = impl_s[:600]
            agree = out == impl_s
            nontrivial = '(iface ' in impl_s or kind in ('gbd', 'gbp')
            if kind == 'sub':
                c.count('sub:' + ('None' if impl_s == 'ok None' else 'self' if impl_s == 'ok self' else 'dom'))
            if kind == 'join':
                if impl_s.startswith('ok '):
                    c.count('join:ifaces:%d' % min(len(loads_all(impl_s[3:])[0][1][4]) - 1, 12))
        if not agree:
            c.disagreements.append({'input': line, 'impl': impl_s, 'model': out,
                                    'note': kind if spec is None else '%s on %s' % (kind, describe(spec))})
            if spec is not None and spec not in _DISAGREE_SPECS:
                _DISAGREE_SPECS.append(spec)
        if nontrivial:
            c.nontrivial.add(line)
        if len(c.samples) < 6 and kind in ('join', 'sub', 'corners') and agree and '(iface ' in impl_s or \
                (len(c.samples) < 6 and kind == 'corners'):
            c.samples.append({'request': line[:600], 'impl': impl_s[:600]})
    return c


# --------------------------------------------------------------------------- oracle (geometry on the integer lattice)

def fkey(b):
    return (str(b.domain.name), int(b.axis), int(b.ext))


def ornt_py(o):
    if o is None:
        return None
    if hasattr(o, '__iter__'):
        return tuple(int(x) for x in o)
    return int(o)


def declared(spec, b):
    """the declared connections as ((name, axis, ext), (name, axis, ext), ornt-with-defaults)"""
    d = spec['d']
    out = []
    for c in spec['conns']:
        m = (b.pname(c['m']['pid']), c['m']['axis'] or 0, c['m']['ext'])
        p = (b.pname(c['p']['pid']), c['p']['axis'] or 0, c['p']['ext'])
        o = c['ornt']
        if d == 1:
            o = None
        elif d == 2:
            o = 1 if o is None else o
        else:
            o = (1, 1, 1) if o is None else tuple(o)
        out.append((m, p, o))
    return out


def face_points(spec, b, key):
    """the point set of a face on the lattice: (axis, coordinate on that axis, ranges on the other axes)"""
    name, axis, ext = key
    for pid, p in enumerate(spec['patches']):
        if b.pname(pid) == name:
            co = p['lo'][axis] if ext == -1 else p['hi'][axis]
            return (axis, co, tuple((p['lo'][k], p['hi'][k]) for k in range(spec['d']) if k != axis))
    return None


def guarded(o, what, f, tag, spec, **extra):
    """f() under the time limit of GUARD: (True, value), or (False, None) after reporting the timeout as a failure
    (or counting the call as skipped once this kind of call has timed out MAX times); exceptions of f pass through"""
    try:
        return True, GUARD.run(what, f)
    except Skipped:
        o.count('skipped-after-timeouts:' + what)
        return False, None
    except Timeout as e:
        det = dict(extra)
        det['spec'] = spec
        o.fail('%s-timeout:%s' % (what, tag), '%s did not return within %g s (a call that normally takes milliseconds) on %s'
               % (WHAT[what], e.args[0], describe(spec)), **det)
        return False, None


def check_layout(o, spec, t, tag):
    """evaluates the property on one valid layout; returns the joined domain"""
    b = Build(spec)
    d = spec['d']
    det = {'spec': spec}
    try:
        ok, D = guarded(o, 'join', b.join, tag, spec)
    except Exception as e:
        o.fail('join-raises:' + tag, 'Domain.join raised %s on a valid lattice layout: %s' % (type(e).__name__, describe(spec)), error=repr(e), **det)
        return None, b
    if not ok:
        return None, b
    pids = list(dict.fromkeys(spec['order']))
    pn = [b.pname(i) for i in pids]
    allfaces = [(n, a, e) for n in pn for a in range(d) for e in (-1, 1)]
    dec = declared(spec, b)
    # geometry of the generator itself: declared faces coincide as point sets (modulo a period)
    for m, p, _ in ([] if spec.get('nongeo') else dec):     # nongeo: a declared re-pairing of the same faces (histories)
        fm, fp = face_points(spec, b, m), face_points(spec, b, p)
        per = spec['per'][fm[0]]
        same_plane = fm[1] == fp[1] or (per and abs(fm[1] - fp[1]) == spec['shape'][fm[0]])
        if not (fm[0] == fp[0] and fm[2] == fp[2] and same_plane):
            o.fail('generator:' + tag, 'generator produced a non-geometric connection', m=m, p=p, **det)
    # interiors
    ints = members(D.interior, t)
    o.count('check:interiors')
    if sorted(str(e.name) for e in ints) != sorted(pn) or len(ints) != len(pn):
        o.fail('interiors:' + tag, 'the interiors of the joined domain are not exactly the patches',
               got=[str(e.name) for e in ints], expected=pn, **det)
    # partition
    ifs = [D.connectivity[k] for k in D.connectivity]
    sides = [fkey(i.minus) for i in ifs] + [fkey(i.plus) for i in ifs]
    bnd = [fkey(x) for x in members(D.boundary, t)]
    used = {}
    for m, p, _ in dec:
        used[m] = used.get(m, 0) + 1
        used[p] = used.get(p, 0) + 1
    o.count('check:partition')
    for f in allfaces:
        nb, ns = bnd.count(f), sides.count(f)
        want = (0, 1) if f in used else (1, 0)
        if (nb, ns) != want:
            o.fail('partition:%s:%s' % (tag, f), 'face %s occurs %d times in the external boundary and %d times as an interface side; '
                   'expected %s (declared in a connection: %s)' % (f, nb, ns, want, f in used), face=f, boundary=bnd, sides=sides, **det)
            break
    extra = [f for f in bnd + sides if f not in allfaces]
    if extra:
        o.fail('partition-extra:' + tag, 'faces that belong to no patch appear in the joined domain', extra=extra, **det)
    if isinstance(D.interfaces, t['Union']) or D.interfaces is None or True:
        li = members(D.interfaces, t)
        if sorted(str(i.name) for i in li) != sorted(str(i.name) for i in ifs):
            o.fail('interfaces-vs-connectivity:' + tag, 'domain.interfaces and domain.connectivity disagree', **det)
    # declared connections
    o.count('check:declared')
    pairs = [(m[0], p[0]) for m, p, _ in dec]
    got = [(fkey(i.minus), fkey(i.plus), ornt_py(i.ornt)) for i in ifs]
    if len(got) != len(dec):
        o.fail('declared-count:' + tag, '%d connections declared, %d interfaces built' % (len(dec), len(got)), got=got, declared=dec, **det)
    for m, p, orn in dec:
        hits = [g for g in got if {g[0], g[1]} == {m, p}]
        swapped_ok = pairs.count((m[0], p[0])) > 1
        ok = len(hits) == 1 and hits[0][2] == orn and (hits[0][:2] == (m, p) or swapped_ok)
        if not ok:
            o.fail('declared:%s:%s|%s' % (tag, m, p), 'declared connection %s -- %s (ornt %s) does not appear as exactly one '
                   'interface with these faces and this orientation in %s; interfaces built: %s' % (m, p, orn, describe(spec), got), hits=hits, got=got, **det)
            break
    for i in ifs:
        if str(i.name) != '%s|%s' % (fkey(i.minus)[0], fkey(i.plus)[0]) or int(i.axis) != fkey(i.minus)[1]:
            o.fail('iface-name:' + tag, 'interface name / axis do not match its faces', name=str(i.name), **det)
    # logical mirror
    if all(spec['patches'][i]['map'] for i in pids):
        o.count('check:logical-mirror')
        Lg = D.logical_domain
        ln = {b.pname(i): spec['patches'][i]['lname'] for i in pids}
        if Lg is None:
            o.fail('logical-none:' + tag, 'all patches are mapped but the joined domain has no logical domain', **det)
        else:
            st = lambda k: (ln[k[0]], k[1], k[2])
            gi = sorted(str(e.name) for e in members(Lg.interior, t))
            gb = sorted(fkey(x) for x in members(Lg.boundary, t))
            gf = sorted((fkey(i.minus), fkey(i.plus), ornt_py(i.ornt), str(i.name)) for i in (Lg.connectivity[k] for k in Lg.connectivity))
            ei = sorted(ln.values())
            eb = sorted(st(f) for f in bnd)
            ef = sorted((st(g[0]), st(g[1]), g[2], '%s|%s' % (ln[g[0][0]], ln[g[1][0]])) for g in got)
            if (gi, gb, gf) != (ei, eb, ef):
                o.fail('logical-mirror:' + tag, 'the logical domain is not the image of the physical one under "strip the mapping"',
                       got=[gi, gb, gf], expected=[ei, eb, ef], **det)
            if any(e.mapping is not None or e.logical_domain is not None for e in members(Lg.interior, t)):
                o.fail('logical-mapped:' + tag, 'a logical interior is itself mapped', **det)
            for x in members(D.boundary, t) + [s for i in ifs for s in (i.minus, i.plus)]:
                if x.logical_domain is None or fkey(x.logical_domain) != st(fkey(x)) or x.mapping is None:
                    o.fail('logical-face:' + tag, 'a face of a mapped patch does not point to its logical twin', face=fkey(x), **det)
                    break
            for i in ifs:
                l = i.logical_domain
                if l is None or (fkey(l.minus), fkey(l.plus), ornt_py(l.ornt)) != (st(fkey(i.minus)), st(fkey(i.plus)), ornt_py(i.ornt)):
                    o.fail('logical-iface:' + tag, 'an interface does not point to its logical twin', iface=str(i.name), **det)
                    break
            mp = D.mapping
            gm = sorted((str(k.name), str(v.name)) for k, v in mp.mappings.items()) if mp is not None else None
            em = sorted((spec['patches'][i]['lname'], spec['patches'][i]['map'][1]) for i in pids)
            if gm != em:
                o.fail('logical-mapping:' + tag, 'the multi-patch mapping does not send each logical patch to its mapping', got=gm, expected=em, **det)
    elif D.logical_domain is not None and not all(spec['patches'][i]['map'] for i in pids):
        o.fail('logical-unexpected:' + tag, 'a layout with an unmapped patch got a logical domain', **det)
    return D, b


def check_lookup(o, spec, b, D, t, tag):
    d = spec['d']
    det = {'spec': spec}
    o.count('check:get_boundary')
    for pid in dict.fromkeys(spec['order']):
        P, p = b.objs[pid], spec['patches'][pid]
        for a in range(d):
            for e in (-1, 1):
                try:
                    ok, f = guarded(o, 'gbp', lambda: P.get_boundary(axis=a, ext=e), tag, spec)
                    if not ok:
                        return
                    got = (fkey(f), str(f.name))
                except Exception as ex:
                    got = type(ex).__name__
                want = ((b.pname(pid), a, e), '\\Gamma_%d' % (2 * a + (e + 3) // 2))
                if got != want:
                    o.fail('get_boundary:%s:%s' % (tag, want[0]), 'patch.get_boundary(axis=%d, ext=%d) returned %s, expected %s' % (a, e, got, want), **det)
                    return
        for a, e in ((d, 1), (0, 0), (0, 2)):
            try:
                if not guarded(o, 'gbp', lambda: P.get_boundary(axis=a, ext=e), tag, spec)[0]:
                    return
                o.fail('get_boundary-accepts:%s:%d,%d' % (tag, a, e), 'patch.get_boundary accepted the non-existent face (axis=%d, ext=%d)' % (a, e), **det)
            except ValueError:
                pass
            except Exception as ex:
                o.fail('get_boundary-raises:%s:%d,%d' % (tag, a, e), 'patch.get_boundary raised %s instead of ValueError' % type(ex).__name__, **det)
    if D is None:
        return
    bnd = [fkey(x) for x in members(D.boundary, t)]
    for a in range(d):
        for e in (-1, 1):
            cands = [f for f in bnd if f[1] == a and f[2] == e]
            try:
                ok, got = guarded(o, 'gbd', lambda: D.get_boundary(axis=a, ext=e), tag, spec)
                if not ok:
                    return
                got = fkey(got)
            except ValueError:
                got = None
            except Exception as ex:
                got = type(ex).__name__
            if (got is None) != (not cands) or (got is not None and got not in cands):
                o.fail('domain-get_boundary:%s:%d,%d' % (tag, a, e), 'domain.get_boundary(axis=%d, ext=%d) returned %s; external faces '
                       'with this axis and side: %s' % (a, e, got, cands), **det)


def check_subdomain(o, spec, b, D, t, sel, tag):
    d = spec['d']
    det = {'spec': spec, 'selection': list(sel)}
    o.count('check:subdomain')
    pids = list(dict.fromkeys(spec['order']))
    try:
        ok, S = guarded(o, 'sub', lambda: D.get_subdomain(tuple(sel)), '%s:%s' % (tag, '+'.join(sel)), spec, selection=list(sel))
        if not ok:
            return
    except Exception as e:
        o.fail('subdomain-raises:%s:%s' % (tag, '+'.join(sel)), 'get_subdomain(%s) raised %s: %s' % (tuple(sel), type(e).__name__, e), **det)
        return
    if len(sel) == len(pids):
        if S is not D:
            o.fail('subdomain-full:' + tag, 'selecting every patch does not return the domain itself', **det)
        return
    dec = declared(spec, b)
    inner = [(m, p, orn) for m, p, orn in dec if m[0] in sel and p[0] in sel]
    usedin = {x for m, p, _ in inner for x in (m, p)}
    exp_b = sorted((n, a, e) for n in sel for a in range(d) for e in (-1, 1) if (n, a, e) not in usedin)
    got_b = sorted(fkey(x) for x in members(S.boundary, t))
    got_i = sorted(str(e.name) for e in members(S.interior, t))
    ifs = [S.connectivity[k] for k in S.connectivity]
    got_f = sorted((tuple(sorted((fkey(i.minus), fkey(i.plus)))), repr(ornt_py(i.ornt))) for i in ifs)
    exp_f = sorted((tuple(sorted((m, p))), repr(orn)) for m, p, orn in inner)
    if got_i != sorted(sel) or got_b != exp_b or got_f != exp_f:
        o.fail('subdomain:%s:%s' % (tag, '+'.join(sel)), 'get_subdomain(%s) is not the selected patches with the connections among them: '
               'interiors %s, boundary %s, interfaces %s; expected boundary %s, interfaces %s' % (tuple(sel), got_i, got_b, got_f, exp_b, exp_f), **det)
    elif str(S.name) != '|'.join(sel):
        o.fail('subdomain-name:' + tag, 'sub-domain name %s' % S.name, **det)


def expected_corners(spec, b):
    """components of the graph on patch corners whose edges identify the end points of every declared interface"""
    dec = declared(spec, b)
    parent = {}

    def find(x):
        parent.setdefault(x, x)
        while parent[x] != x:
            parent[x] = parent[parent[x]]
            x = parent[x]
        return x
    touched = set()
    for m, p, orn in dec:
        a = m[1]
        for e in (-1, 1):
            cm = (m[0], tuple(sorted(((a, m[2]), (1 - a, e)))))
            cp = (p[0], tuple(sorted(((a, p[2]), (1 - a, e * orn)))))
            parent[find(cm)] = find(cp)
            touched.update((cm, cp))
    groups = {}
    for c in touched:
        groups.setdefault(find(c), []).append(c)
    return sorted(sorted(g) for g in groups.values())


def check_corners(o, spec, b, D, t, tag):
    o.count('check:corners')
    det = {'spec': spec}
    try:
        ok, got = guarded(o, 'corners', D.get_shared_corners, tag, spec)
        if not ok:
            return
        got = corners_canon_real(got, t)
    except Exception as e:
        o.fail('corners-raises:' + tag, 'get_shared_corners raised %s: %s on %s' % (type(e).__name__, e, describe(spec)), **det)
        return
    exp = expected_corners(spec, b)
    if got != exp:
        o.fail('corners:' + tag, 'the corner groups are not the sets of patch corners identified through the declared interfaces of %s: '
               'got %s, expected %s' % (describe(spec), got, exp), got=got, expected=exp, **det)
        return
    # the property `corners` (memoised in _corners) answers the same groups
    try:
        ok, got2 = guarded(o, 'corners', lambda: D.corners, tag + ':property', spec)
        if ok and corners_canon_real(got2, t) != exp:
            o.fail('corners-property:' + tag, 'domain.corners differs from get_shared_corners() on %s' % describe(spec),
                   got=corners_canon_real(got2, t), expected=exp, **det)
    except Exception as e:
        o.fail('corners-raises:' + tag, 'domain.corners raised %s: %s on %s' % (type(e).__name__, e, describe(spec)), **det)


def check_mapped(o, spec, b, D, t, tag):
    """F(Omega) for a plain multi-patch Omega mirrors Omega"""
    o.count('check:mapped-domain')
    det = {'spec': spec}
    d = spec['d']
    G = outer_mapping_name(spec)
    try:
        ok, X = guarded(o, 'map', lambda: get_mapping(t, 'Mapping', G, d)(D), tag, spec)
        if not ok:
            return
    except Exception as e:
        o.fail('mapped-raises:' + tag, 'F(Omega) raised %s: %s' % (type(e).__name__, e), **det)
        return
    mp = lambda k: ('%s(%s)' % (G, k[0]), k[1], k[2])
    ifs = [D.connectivity[k] for k in D.connectivity]
    exp = (sorted('%s(%s)' % (G, e.name) for e in members(D.interior, t)),
           sorted(mp(fkey(x)) for x in members(D.boundary, t)),
           sorted((mp(fkey(i.minus)), mp(fkey(i.plus)), ornt_py(i.ornt)) for i in ifs))
    xfs = [X.connectivity[k] for k in X.connectivity]
    got = (sorted(str(e.name) for e in members(X.interior, t)),
           sorted(fkey(x) for x in members(X.boundary, t)),
           sorted((fkey(i.minus), fkey(i.plus), ornt_py(i.ornt)) for i in xfs))
    LD = X.logical_domain
    same_ld = LD is D
    if not same_ld and LD is not None and hasattr(LD, 'connectivity'):
        # F(Omega) may be the (memoised) image of an earlier, identically declared Omega (histories; re-runs of a
        # layout in the failing-input search): its logical domain must then be that Omega structure for structure
        sig = lambda Z: (str(Z.name), sorted(str(e.name) for e in members(Z.interior, t)), sorted(fkey(x) for x in members(Z.boundary, t)),
                         sorted((fkey(i.minus), fkey(i.plus), ornt_py(i.ornt), str(k)) for k, i in Z.connectivity.items()))
        same_ld = sig(LD) == sig(D)
    if got != exp or not same_ld:
        o.fail(('mapped-domain-stale:' if spec.get('same_map') and spec.get('hidx') else 'mapped-domain:') + tag, 'F(Omega) does not have the structure of Omega face by face and interface by interface',
               got=got, expected=exp, **det)


def fixed_specs():
    """witnesses of the defects repaired by `fix:` commits (kept so that a regression is reported)"""
    def chain(d, n, serial, names, conn_ornt=None, mapped=False):
        ps = []
        for i in range(n):
            ix = [i, 0, 0]
            ps.append({'lname': names[i], 'dim': d, 'ix': ix, 'lo': ix[:d], 'hi': [x + 1 for x in ix[:d]],
                       'map': ('Mapping', 'W%s' % names[i]) if mapped else None})
        cs = []
        for i in range(n - 1):
            cs.append({'m': {'ref': ['obj', i], 'pid': i, 'axis': 0, 'ext': 1}, 'p': {'ref': ['obj', i + 1], 'pid': i + 1, 'axis': 0, 'ext': -1},
                       'ornt': conn_ornt})
        return {'d': d, 'shape': [n, 1, 1], 'per': [False] * 3, 'patches': ps, 'order': list(range(n)), 'conns': cs,
                'name': 'OmFix%d' % serial, 'mode': 'plain', 'refmode': 'obj', 'serial': 900000 + serial, 'malformed': None}
    out = []
    out.append(('chain1d-3', chain(1, 3, 1, ['Xa900001', 'Xb900001', 'Xc900001']), [['Xa900001', 'Xb900001']]))
    # 3x3 grid, plus-shaped selection: the centre patch keeps no free face
    ps, cs = [], []
    pid = {}
    for i in range(3):
        for j in range(3):
            pid[(i, j)] = len(ps)
            ps.append({'lname': 'Y%d%dq900002' % (i, j), 'dim': 2, 'ix': [i, j, 0], 'lo': [i, j], 'hi': [i + 1, j + 1], 'map': None})
    for (i, j), k in pid.items():
        for a, nb in ((0, (i + 1, j)), (1, (i, j + 1))):
            if nb in pid:
                cs.append({'m': {'ref': ['obj', k], 'pid': k, 'axis': a, 'ext': 1}, 'p': {'ref': ['obj', pid[nb]], 'pid': pid[nb], 'axis': a, 'ext': -1},
                           'ornt': None})
    g = {'d': 2, 'shape': [3, 3, 1], 'per': [False] * 3, 'patches': ps, 'order': list(range(9)), 'conns': cs, 'name': 'OmFix2',
         'mode': 'plain', 'refmode': 'obj', 'serial': 900002, 'malformed': None}
    plus = [ps[pid[x]]['lname'] for x in ((1, 1), (0, 1), (2, 1), (1, 0), (1, 2))]
    out.append(('grid3x3-plus', g, [plus, plus[1:] + plus[:1]]))
    out.append(('chain2d-ornt', chain(2, 2, 3, ['Za900003', 'Zb900003'], conn_ornt=-1), []))
    out.append(('chain3d', chain(3, 2, 4, ['Va900004', 'Vb900004'], conn_ornt=[1, -1, 1]), []))
    return out


def fixed_histories():
    """sequences of declarations over the SAME names (domain, patches, mappings): every member must be answered
    from its own declaration.  [(stable name, [layout, layout, ...])]"""
    def lay(d, shape, serial, tok, decls, mapped=False, nongeo=False):
        ps = []
        for ix in itertools.product(range(shape[0]), range(shape[1]), range(shape[2])):
            n = '%s%d%d%dh%d' % ((tok,) + ix + (serial,))
            ps.append({'lname': n, 'dim': d, 'ix': list(ix), 'lo': list(ix[:d]), 'hi': [x + 1 for x in ix[:d]],
                       'map': ('Mapping', 'W' + n) if mapped else None})
        pid = {tuple(p['ix']): i for i, p in enumerate(ps)}
        cs = []
        for (mi, ma, me), (pi, pa, pe), o in decls:
            cs.append({'m': {'ref': ['obj', pid[mi]], 'pid': pid[mi], 'axis': ma, 'ext': me},
                       'p': {'ref': ['obj', pid[pi]], 'pid': pid[pi], 'axis': pa, 'ext': pe}, 'ornt': o})
        s = {'d': d, 'shape': list(shape), 'per': [False] * 3, 'patches': ps, 'order': list(range(len(ps))), 'conns': cs,
             'name': 'OmHist%d' % serial, 'mode': 'mapped' if mapped else 'plain', 'refmode': 'obj', 'serial': 900100 + serial,
             'malformed': None}
        if nongeo:
            s['nongeo'] = True
        return s

    def seq(name, specs):
        for k, s in enumerate(specs):
            if k:
                s['hist'] = 'fixed'
                s['hidx'] = k
                s['same_map'] = True        # F(Omega): the mapping of the first declaration again
                s['after'] = json.loads(json.dumps([{a: x for a, x in q.items() if a != 'after'} for q in specs[:k]]))
        return (name, specs)
    P = lambda i, j=0, k=0: (i, j, k)
    row = lambda n, os_: [((P(i), 0, 1), (P(i + 1), 0, -1), os_[i]) for i in range(n - 1)]
    out = []
    # the declared orientation of one connection changes between two declarations of the same row (and back)
    for mapped in (False, True):
        sfx = '-mapped' if mapped else ''
        out.append(seq('hist-row2-ornt' + sfx,
                       [lay(2, (2, 1, 1), 1 + mapped, 'Ha', row(2, [o]), mapped) for o in (1, -1, None, -1)]))
        out.append(seq('hist-row3-ornt' + sfx,
                       [lay(2, (3, 1, 1), 3 + mapped, 'Hb', row(3, os_), mapped) for os_ in ((1, 1), (-1, 1), (1, -1), (1, 1))]))
        # L shape: one connection per axis
        L = lambda o0, o1: [((P(0, 0), 0, 1), (P(1, 0), 0, -1), o0), ((P(0, 0), 1, 1), (P(0, 1), 1, -1), o1)]
        out.append(seq('hist-L-ornt' + sfx, [lay(2, (2, 2, 1), 5 + mapped, 'Hc', L(*os_), mapped) for os_ in ((None, None), (1, -1), (-1, 1))]))
        # 2x2: the two joined upper faces of the lower row are paired with the lower faces of the upper row crosswise
        up = lambda x, o: [((P(0, 0), 1, 1), (P(0 + x, 1), 1, -1), o), ((P(1, 0), 1, 1), (P(1 - x, 1), 1, -1), o)]
        out.append(seq('hist-2x2-repair' + sfx, [lay(2, (2, 2, 1), 7 + mapped, 'Hd', up(0, 1), mapped),
                                                 lay(2, (2, 2, 1), 7 + mapped, 'Hd', up(1, 1), mapped, nongeo=True),
                                                 lay(2, (2, 2, 1), 7 + mapped, 'Hd', up(1, -1), mapped, nongeo=True),
                                                 lay(2, (2, 2, 1), 7 + mapped, 'Hd', up(0, -1), mapped)]))
    # full 2x2 grid (an interior vertex shared by four corners), orientation of one connection changed, roles exchanged
    g = lambda o, flip: [((P(0, 0), 0, 1), (P(1, 0), 0, -1), o), ((P(0, 1), 0, 1), (P(1, 1), 0, -1), 1),
                         ((P(0, 0), 1, 1), (P(0, 1), 1, -1), 1)] + \
                        [((P(1, 1), 1, -1), (P(1, 0), 1, 1), 1) if flip else ((P(1, 0), 1, 1), (P(1, 1), 1, -1), 1)]
    out.append(seq('hist-2x2-full', [lay(2, (2, 2, 1), 9, 'He', g(1, False)), lay(2, (2, 2, 1), 9, 'He', g(-1, False)),
                                     lay(2, (2, 2, 1), 9, 'He', g(1, True))]))
    # 1D and 3D: other pairing / other orientation triple / one connection less
    c1 = lambda a, b: [((P(0), 0, 1), (P(a), 0, -1), None), ((P(2), 0, 1), (P(b), 0, -1), None)]
    out.append(seq('hist-chain1d-repair', [lay(1, (4, 1, 1), 10, 'Hf', c1(1, 3)), lay(1, (4, 1, 1), 10, 'Hf', c1(3, 1), nongeo=True),
                                           lay(1, (4, 1, 1), 10, 'Hf', c1(1, 3)[:1])]))
    for mapped in (False, True):
        out.append(seq('hist-row3-3d' + ('-mapped' if mapped else ''),
                       [lay(3, (3, 1, 1), 11 + mapped, 'Hg', row(3, os_), mapped)
                        for os_ in ((None, [1, 1, 1]), ([1, -1, 1], [1, 1, 1]), ([1, 1, -1], [1, -1, -1]))]))
    # F = Mapping(..); F(Omega1); F(Omega2) with Omega2 = the names and joined faces of Omega1 declared with another
    # orientation (witness of the defect repaired by f2affa8: MappedDomain.__new__ was memoised on (mapping, domain)
    # and answered F(Omega1) again); key 'mapped-domain-stale:fixed:hist-same-mapping:1'
    out.append(seq('hist-same-mapping', [lay(2, (2, 1, 1), 20, 'Hw', row(2, [o])) for o in (1, -1)]))
    return out


def _fixed_layout(d, cells, decls, serial, tok, name, mapped=False, forms=None):
    """cells: lattice positions of the patches; decls: ((cell, axis, ext), (cell, axis, ext), ornt) by position"""
    ps = []
    for ix in cells:
        ix = tuple(ix) + (0,) * (3 - len(ix))
        n = '%s%d%d%dj%d' % ((tok,) + ix + (serial,))
        ps.append({'lname': n, 'dim': d, 'ix': list(ix), 'lo': list(ix[:d]), 'hi': [x + 1 for x in ix[:d]],
                   'map': ('Mapping', 'W' + n) if mapped else None})
    pid = {tuple(p['ix'][:d]): i for i, p in enumerate(ps)}
    cs = []
    for k, ((mi, ma, me), (pi, pa, pe), orn) in enumerate(decls):
        c = {'m': {'ref': ['obj', pid[tuple(mi)]], 'pid': pid[tuple(mi)], 'axis': ma, 'ext': me},
             'p': {'ref': ['obj', pid[tuple(pi)]], 'pid': pid[tuple(pi)], 'axis': pa, 'ext': pe}, 'ornt': orn}
        if forms and forms[k] not in (None, 'py') and orn is not None:
            c['form'] = forms[k]
        cs.append(c)
    shape = [max(p['ix'][k] for p in ps) + 1 for k in range(3)]
    return {'d': d, 'shape': shape, 'per': [False] * 3, 'patches': ps, 'order': list(range(len(ps))), 'conns': cs,
            'name': name, 'mode': 'mapped' if mapped else 'plain', 'refmode': 'obj', 'serial': 900200 + serial, 'malformed': None}


def fixed_forms():
    """orientations handed to Domain.join as numpy / sympy integers (2D) and numpy arrays / tuples and lists of numpy
    or sympy integers / sympy Tuple (3D): the declared orientation must be the recorded one - on the interface, on its
    logical twin, in F(Omega), in get_subdomain and in the corner groups.  [(stable name, layout)]"""
    out = []
    serial = 0
    for mapped in (False, True):
        sfx = '-mapped' if mapped else ''
        for form in ORNT_FORMS[2][1:]:
            serial += 1
            # row A|B reversed, C on top of B with the default-valued orientation in the same representation,
            # D on top of A reversed (built-in int): corner groups of two and three corners
            decls = [(((0, 0), 0, 1), ((1, 0), 0, -1), -1), (((1, 0), 1, 1), ((1, 1), 1, -1), 1), (((0, 0), 1, 1), ((0, 1), 1, -1), -1)]
            out.append(('ornt-form-2d-%s%s' % (form, sfx),
                        _fixed_layout(2, [(0, 0), (1, 0), (1, 1), (0, 1)], decls, serial, 'Qa', 'OmForm%d' % serial, mapped, [form, form, 'py'])))
        for form, orn in zip(ORNT_FORMS[3][1:], ([-1, 1, -1], [1, -1, 1], [1, 1, -1], [-1, -1, 1], [1, -1, -1], [-1, 1, 1], [1, -1, 1], [-1, -1, -1], [1, 1, -1])):
            serial += 1
            decls = [(((0, 0, 0), 2, 1), ((0, 0, 1), 2, -1), orn), (((0, 0, 0), 0, 1), ((1, 0, 0), 0, -1), [1, 1, 1])]
            out.append(('ornt-form-3d-%s%s' % (form, sfx),
                        _fixed_layout(3, [(0, 0, 0), (0, 0, 1), (1, 0, 0)], decls, serial, 'Qb', 'OmForm%d' % serial, mapped, [form, form])))
    return out


def fixed_junctions():
    """2D layouts with a vertex shared by >= 3 patches on an OPEN chain of corners (L shapes around each of the four
    corners of the middle patch, T junctions = a 2x2 block with one of its four connections left out), every sign
    pattern of the orientations, minus / plus roles both ways, plain and mapped.  Which corner of a chain
    get_shared_corners starts from depends on the iteration order of a set of name-hashed objects, so every layout
    comes in several copies that differ in the patch names only: the chain is then entered from an end (forward walk
    only) in some copies and from a middle corner (forward, then backward across the interfaces) in others.
    [(stable name, layout)]"""
    out = []
    serial = 100
    sg = lambda o: '+' if o == 1 else '-'
    for copy in range(3):
        tok = 'J' + 'abc'[copy]
        # L shapes: A in the middle, B beside it along axis 0 (at side e0), C beside it along axis 1 (at side e1)
        for e0, e1 in itertools.product((1, -1), repeat=2):
            for o0, o1 in itertools.product((1, -1), repeat=2):
                serial += 1
                mapped = (serial + copy) % 3 == 0
                A, B, C = (1, 1), (1 + e0, 1), (1, 1 + e1)
                c0 = ((A, 0, e0), (B, 0, -e0), o0)
                c1 = ((A, 1, e1), (C, 1, -e1), o1)
                if (serial + e0) % 2:          # roles exchanged on one of the two connections
                    c1 = (c1[1], c1[0], c1[2])
                out.append(('junction-L%s%s-%s%s-%d' % (sg(e0), sg(e1), sg(o0), sg(o1), copy),
                            _fixed_layout(2, [A, B, C], [c0, c1], serial, tok, 'OmJ%d' % serial, mapped)))
        # T junctions: 2x2 block, connection number `skip` left out (the centre vertex is an open chain of 4 corners)
        block = [(((0, 0), 0, 1), ((1, 0), 0, -1)), (((1, 0), 1, 1), ((1, 1), 1, -1)),
                 (((0, 1), 0, 1), ((1, 1), 0, -1)), (((0, 0), 1, 1), ((0, 1), 1, -1))]
        for skip in range(4):
            for signs in ((-1, -1, -1), (1, -1, 1), (-1, 1, -1), (1, 1, -1), (-1, 1, 1)):
                serial += 1
                mapped = (serial + copy) % 3 == 0
                decls = [bl + (o,) for bl, o in zip([x for k, x in enumerate(block) if k != skip], signs)]
                if serial % 2:
                    decls[1] = (decls[1][1], decls[1][0], decls[1][2])
                if copy == 1:
                    decls.reverse()
                out.append(('junction-T%d-%s-%d' % (skip, ''.join(sg(o) for o in signs), copy),
                            _fixed_layout(2, [(0, 0), (1, 0), (0, 1), (1, 1)], decls, serial, tok, 'OmJ%d' % serial, mapped)))
    return out


def run_light(o, spec, t, tag):
    """join (partition, declared interfaces, logical mirror) and the corner groups only"""
    D, b = check_layout(o, spec, t, tag)
    if D is not None and spec['d'] == 2 and spec['conns']:
        check_corners(o, spec, b, D, t, tag)


def run_checks(o, rng, spec, t, tag, sels=None, prelude=True):
    if prelude:
        # a layout of a history: first build and observe what was built before it (replay, failing-input search)
        for k, s in enumerate(spec.get('after') or []):
            run_checks(o, rng, s, t, '%s:pre%d' % (tag, k), prelude=False)
    D, b = check_layout(o, spec, t, tag)
    check_lookup(o, spec, b, D, t, tag)
    if D is None or not isinstance(D.interior, t['Union']):
        return
    names = [b.pname(i) for i in dict.fromkeys(spec['order'])]
    if sels is None:
        sels = []
        for _ in range(3):
            sels.append(rng.sample(names, rng.randint(1, len(names))))
    for sel in sels:
        check_subdomain(o, spec, b, D, t, sel, tag)
    if spec['d'] == 2 and spec['conns']:
        check_corners(o, spec, b, D, t, tag)
    if all(p['map'] is None for p in spec['patches']):
        check_mapped(o, spec, b, D, t, tag)


def tag_of(spec):
    return 'd%d:%s:%s:%s:n%d:c%d:s%d%s' % (spec['d'], 'x'.join(map(str, spec['shape'])), spec['mode'], spec['refmode'],
                                           len(spec['order']), len(spec['conns']), spec['serial'],
                                           ':after%d:%s' % (len(spec.get('after') or []), spec['hist']) if spec.get('hist') else '')


def oracle(ctx, factor, seeds):
    from sympy.core.cache import clear_cache
    o = Oracle()
    t = T()
    GUARD.reset()
    for name, spec, sels in fixed_specs():
        o.evaluations += 1
        run_checks(o, ctx.rng, spec, t, 'fixed:' + name, sels or None)
    for name, spec in fixed_junctions():
        o.evaluations += 1
        o.count('fixed:junction')
        run_light(o, spec, t, 'fixed:' + name)
    for name, spec in fixed_forms():
        o.evaluations += 1
        o.count('fixed:ornt-form')
        nm = [('%s(%s)' % (q['map'][1], q['lname']) if q['map'] else q['lname']) for q in spec['patches']]
        run_checks(o, ctx.rng, spec, t, 'fixed:' + name, [nm[:2], nm[1:]])
    for name, specs in fixed_histories():
        for k, spec in enumerate(specs):
            o.evaluations += 1
            o.count('history:fixed')
            run_checks(o, ctx.rng, spec, t, 'fixed:%s:%d' % (name, k), prelude=False)
    # layouts on which the correspondence disagreed are examined first (failing-input search)
    if seeds:
        for k, spec in enumerate(_DISAGREE_SPECS[:40]):
            if spec.get('malformed'):
                continue
            o.evaluations += 1
            run_checks(o, ctx.rng, json.loads(json.dumps(spec)), t, 'disagree:' + tag_of(spec))
    n = (1200 if ctx.thorough else 110) * factor
    serial = 500000
    for i in range(n):
        serial += 1
        spec = gen_layout(ctx.rng, serial, ctx.thorough)
        o.evaluations += 1
        o.count('layout:d%d:%s' % (spec['d'], spec['mode']))
        run_checks(o, ctx.rng, spec, t, tag_of(spec))
        if ctx.rng.random() < 0.35:
            for v in gen_history(ctx.rng, spec, ctx.rng.randint(1, 3)):
                o.evaluations += 1
                o.count('history:' + v['hist'])
                run_checks(o, ctx.rng, v, t, tag_of(v), prelude=False)
        if len(o.samples) < 4:
            o.samples.append({'layout': tag_of(spec), 'connections': len(spec['conns'])})
        if i % 50 == 49:
            clear_cache()
    return o


def replay(ctx, path):
    d = json.load(open(path))
    print(json.dumps({k: v for k, v in d.items() if k != 'detail'}, indent=1)[:3000])
    spec = (d.get('detail') or {}).get('spec')
    if not spec:
        print('no layout recorded in this replay file (broken proof / correspondence): see "broken"')
        return 1
    o = Oracle()
    t = T()
    GUARD.reset()
    sel = (d.get('detail') or {}).get('selection')
    run_checks(o, ctx.rng, spec, t, 'replay', [sel] if sel else None)
    for f in o.failures:
        print('REPRODUCED %s: %s' % (f['key'], f['what']))
    if not o.failures:
        print('not reproduced on the current tree')
    return 1 if o.failures else 0
