"""C06 — form lowering is a lossless decomposition by region and test/trial block."""
import sympy
from sympy import expand, S

from harness.common import Corr, Oracle, Timeout, time_limit
from harness.sexp import A, dumps, loads_all

PID = 'C06'
PROPS_MODULE = 'SympdeModel.Props.C06'
RULE = ('random bilinear forms, linear forms and functionals over scalar, vector and product spaces (1-3 arguments, '
        'dimension 2 and 3; square and rectangular block systems, down to one row or one column), sums of domain and '
        'boundary integrals written as plain sums, as differences and as accumulations starting from 0, unions of faces, '
        'two-patch domains, integrals over an empty region set next to ordinary ones, coefficient fields and constants, plus vanishing forms and a fixed corpus of such forms; a case '
        'is one form; the monomials of each lowered region integrand are tagged '
        'with their test / trial component and sent to the model; non-trivial = at least 2 regions or at least 2 blocks; '
        'distinct by printed form')
ASSUMPTIONS = [
    'the model works on the expanded integrand (a list of tagged monomials): sympy expand and the tagging of a monomial by '
    'the test / trial component it contains are part of the harness',
    'bilinearity of the integrand in (tests, trials) is what C08 guarantees; the partition theorem is stated under it',
]


def _api():
    from sympde.topology import (Square, Cube, ScalarFunctionSpace, VectorFunctionSpace, element_of, Union, Domain,
                                 NormalVector)
    from sympde.topology.space import ScalarFunction, VectorFunction, IndexedVectorFunction
    from sympde.calculus import grad, dot, inner, div, curl, laplace
    from sympde.expr.expr import BilinearForm, LinearForm, integral, Functional
    from sympde.expr.evaluation import TerminalExpr, _unpack_functions, InterfaceExpression
    from sympde.core import Constant
    return locals()


class Empty:
    """an EMPTY set of integration regions, obtained the way user code obtains one (the interfaces of a single-patch
    domain, what is left of the boundary once all of it has been taken away, a union of no faces); `value` is
    whatever the library returns for it and is what is handed to `integral`.  An integral over it contributes
    nothing: the expected table of region integrands simply has no entry for it (added after seeded change
    C06-10, where such an integral raised instead of being zero)"""

    def __init__(self, label, value):
        self.label, self.value = label, value

    def __repr__(self):
        return 'EMPTY[%s]' % self.label

    __str__ = __repr__


def is_empty(reg):
    return isinstance(reg, Empty)


class World:
    """a domain (single patch or two patches) with spaces, fields and faces; hygienic names"""

    def __init__(self, rng, dim, tag, two_patch=False):
        m = _api()
        self.m, self.dim = m, dim
        mk = m['Square'] if dim == 2 else m['Cube']
        sfx = '%s%d' % (tag, dim)
        if two_patch:
            A_, B_ = mk('A' + sfx), mk('B' + sfx, bounds1=(1, 2))
            self.patches = [A_, B_]
            self.domain = m['Domain'].join([A_, B_], [((0, 0, 1), (1, 0, -1), 1 if dim == 2 else (1, 1, 1))], 'AB' + sfx)
        else:
            self.patches = [mk('A' + sfx)]
            self.domain = self.patches[0]
        dom = self.domain
        self.V = m['ScalarFunctionSpace']('V' + sfx + ('t' if two_patch else ''), dom)
        self.W = m['VectorFunctionSpace']('W' + sfx + ('t' if two_patch else ''), dom)
        e = m['element_of']
        self.su = [e(self.V, name=n) for n in ('u', 'p')]
        self.sv = [e(self.V, name=n) for n in ('v', 'q')]
        self.vu = [e(self.W, name=n) for n in ('U',)]
        self.vv = [e(self.W, name=n) for n in ('Vt',)]
        self.fields = [e(self.V, name=n) for n in ('f', 'g')]
        self.vfield = e(self.W, name='Fb')
        self.csts = [m['Constant'](n) for n in ('c', 'k')]
        self.nn = m['NormalVector']('nn')
        self.faces = list(dom.boundary.args) if isinstance(dom.boundary, m['Union']) else [dom.boundary]
        self.coords = list(dom.coordinates)
        self.I = dom.interfaces if two_patch else None
        self.side_faces = [self.I.minus, self.I.plus] if two_patch else []
        # empty region sets (see Empty): no Neumann part when the whole boundary is Dirichlet, no face selected,
        # and - on a single patch - no interface
        self.empties = [Empty('boundary.complement(boundary)', dom.boundary.complement(dom.boundary)),
                        Empty('Union()', m['Union']())]
        if not two_patch:
            self.empties.append(Empty('interfaces', dom.interfaces))


def coef(rng, w):
    k = rng.random()
    if k < 0.3:
        return S.One
    if k < 0.5:
        return rng.choice(w.csts)
    if k < 0.7:
        return rng.choice(w.fields)
    if k < 0.85:
        return rng.choice(w.coords)
    return rng.choice([2, 3, sympy.Rational(1, 2)]) * rng.choice(w.fields)


def test_part(rng, w, v, boundary):
    m = w.m
    vec = isinstance(v, m['VectorFunction'])
    k = rng.random()
    if vec:
        if boundary and k < 0.4:
            return ('s', m['dot'](v, w.nn))
        if k < 0.45:
            return ('v', v)
        if k < 0.7:
            return ('s', m['div'](v))
        return ('m', m['grad'](v))
    if k < 0.5 or boundary:
        return ('s', v)
    return ('v', m['grad'](v))


def pair(rng, w, u, v, boundary):
    """a bilinear term in (u, v)"""
    m = w.m
    for _ in range(20):
        ku, eu = test_part(rng, w, u, boundary)
        kv, ev = test_part(rng, w, v, boundary)
        if ku == kv == 's':
            return eu * ev
        if ku == kv == 'v':
            return m['dot'](eu, ev)
        if ku == kv == 'm':
            return m['inner'](eu, ev)
        if ku == 's' and kv == 'v':
            return eu * m['dot'](w.vfield, ev)
        if ku == 'v' and kv == 's':
            return m['dot'](w.vfield, eu) * ev
    return S.Zero


def single(rng, w, v, boundary):
    m = w.m
    k, e = test_part(rng, w, v, boundary)
    if k == 's':
        return e
    if k == 'v':
        return m['dot'](w.vfield, e)
    return m['inner'](m['grad'](w.vfield), e)


def region(rng, w):
    """an integration region: the domain, one face, or a union of faces"""
    m = w.m
    k = rng.random()
    if k < 0.5:
        return w.domain, False
    if k < 0.8 or len(w.faces) < 2:
        return rng.choice(w.faces), True
    fs = rng.sample(w.faces, rng.choice([2, 2, 3]) if len(w.faces) >= 3 else 2)
    return m['Union'](*fs), True


def gen_form(rng, w):
    m = w.m
    kind = rng.choice(['bilinear', 'bilinear', 'linear', 'functional'])
    nu = rng.choice([1, 1, 2, 3])
    pool_t = w.sv + w.vv
    pool_u = w.su + w.vu
    idx = rng.sample(range(len(pool_t)), min(nu, len(pool_t)))
    tests = [pool_t[i] for i in idx]
    trials = [pool_u[i] for i in idx]
    if kind == 'bilinear' and rng.random() < 0.4:
        # rectangular block systems: the trial functions are chosen independently of the test functions, so the
        # kernel has nt x nu entries with nt != nu, down to a single row or a single column (added after seeded
        # change C06-7, which collapsed the 1 x n row of a form with one scalar test function)
        trials = [pool_u[i] for i in rng.sample(range(len(pool_u)), rng.choice([1, 2, 2, 3]))]
        if rng.random() < 0.5:
            tests = [rng.choice(w.sv)]
    nint = 1 if kind == 'functional' else rng.choice([1, 1, 2, 3])   # Functional(expr, domain) has one domain
    ints = []
    zero = rng.random() < 0.06
    for _ in range(nint):
        reg, bnd = region(rng, w)
        e = S.Zero
        for _ in range(rng.choice([1, 2, 3])):
            if kind == 'bilinear':
                e += coef(rng, w) * pair(rng, w, rng.choice(trials), rng.choice(tests), bnd)
            elif kind == 'linear':
                e += coef(rng, w) * single(rng, w, rng.choice(tests), bnd)
            else:
                e += coef(rng, w) * rng.choice(w.fields) ** 2
        if zero:
            e = e - e
        ints.append((reg, e))
    if rng.random() < 0.07 and kind != 'functional':
        # integrands that are not syntactically zero but vanish once lowered (added after seeded change
        # C06-4: a vanishing LINEAR form raised instead of giving a zero kernel)
        from sympde.calculus import laplace, div, grad, dot
        t = rng.choice(tests)
        vec = isinstance(t, w.m['VectorFunction'])
        if vec:
            z0 = dot(w.vfield, t) - sum((w.vfield[i] * t[i] for i in range(w.dim)), S.Zero)
        else:
            z0 = laplace(t) - div(grad(t))
        if kind == 'bilinear':
            z0 = rng.choice([tr for tr in trials if not isinstance(tr, w.m['VectorFunction'])] or [w.fields[0]]) * z0
        ints = [(reg, coef(rng, w) * z0) for reg, _ in ints if not (w.I is not None and reg is w.I)] or [(w.domain, z0)]
        return kind, tests, trials, ints, None
    if w.I is not None and kind == 'bilinear' and not zero and rng.random() < 0.5:
        # an interface integral whose same-side pieces land on the two side faces, together with explicit boundary
        # integrals on those faces (added after seeded change C06-2, which lost the explicit term)
        su = [t for t in trials if not isinstance(t, w.m['VectorFunction'])]
        sv = [t for t in tests if not isinstance(t, w.m['VectorFunction'])]
        if su and sv:
            from sympde.calculus import jump
            u0, v0 = su[0], sv[0]
            ints.append((w.I, w.csts[0] * jump(u0) * jump(v0)))
            for fc in rng.sample(w.side_faces, rng.choice([1, 2])):
                ints.append((fc, coef(rng, w) * u0 * v0))
    if kind != 'functional' and rng.random() < 0.12:
        # a form written generically (volume + Neumann boundary + interface terms) on a domain where one of these
        # region sets is empty: the integral over it contributes nothing (added after seeded change C06-10)
        ints.insert(rng.randrange(len(ints) + 1), empty_integral(rng, w, kind, tests, trials))
    return kind, tests, trials, ints, gen_style(rng, kind, len(ints))


def empty_integral(rng, w, kind, tests, trials):
    """(an empty region set, a non-zero integrand of the kind that is written over such a set)"""
    from sympde.calculus import jump
    E = rng.choice(w.empties)
    su = [t for t in trials if not isinstance(t, w.m['VectorFunction'])]
    sv = [t for t in tests if not isinstance(t, w.m['VectorFunction'])]
    if kind == 'bilinear':
        if E.label == 'interfaces' and su and sv:
            return E, rng.choice(w.csts) * jump(su[0]) * jump(sv[0])
        u0, v0 = rng.choice(trials), rng.choice(tests)
        e = pair(rng, w, u0, v0, True)
        if e == 0:
            sc = lambda t: w.m['dot'](w.vfield, t) if isinstance(t, w.m['VectorFunction']) else t
            e = sc(u0) * sc(v0)
        return E, rng.choice([1, 2, 3]) * rng.choice(w.fields) * e
    return E, rng.choice([2, 3]) * rng.choice(w.fields) * single(rng, w, rng.choice(tests), True)


def without_empty(ints, style):
    """the same form with the integrals over empty region sets left out"""
    keep = [i for i, (r, _) in enumerate(ints) if not is_empty(r)]
    return [ints[i] for i in keep], (None if style is None else (style[0], tuple(style[1][i] for i in keep)))


STARTS = {'first': None, 'int0': 0, 'Zero': S.Zero}


def gen_style(rng, kind, nint):
    """how the sum of integrals is written down: None = I1 + I2 + ... (the plain sum), otherwise the value the
    accumulation starts from ('first' = the first integral itself, 'int0' = the number 0, 'Zero' = sympy's zero) and,
    per integral, whether it is added or subtracted (a subtracted integral is written with the opposite integrand,
    so the form that is meant, and hence the expected table of region integrands, does not depend on the style).
    Added after seeded change C06-8 (`0 - integral` kept its sign): every generated form was a plain sum"""
    if kind == 'functional' or rng.random() < 0.6:
        return None
    return (rng.choice(['first', 'int0', 'int0', 'Zero']), tuple(rng.choice('+-') for _ in range(nint)))


def written(ints, style):
    """the form as it is written: [(op, region, integrand as written)]"""
    if style is None:
        return [('+', r, e) for r, e in ints]
    return [(op, r, e if op == '+' else -e) for op, (r, e) in zip(style[1], ints)]


def describe(ints, style):
    if style is None:
        return ' + '.join('int(%s, %s)' % (r, e) for r, e in ints)
    head = {'first': '', 'int0': '0 ', 'Zero': 'S.Zero '}[style[0]]
    return (head + ' '.join('%s int(%s, %s)' % (op, r, e) for op, r, e in written(ints, style))).strip()


def build(w, kind, tests, trials, ints, style=None):
    m = dict(w.m)
    _integral = m['integral']
    m['integral'] = lambda r, e: _integral(r.value if is_empty(r) else r, e)    # an empty region set: see Empty
    if style is None or kind == 'functional':
        expr = sum((m['integral'](r, e) for r, e in ints[1:]), m['integral'](*ints[0]))
    else:
        terms = written(ints, style)
        expr = STARTS[style[0]]
        for op, r, e in terms:
            I = m['integral'](r, e)
            if expr is None:
                expr = I if op == '+' else -I          # the sum starts with its first integral (possibly negated)
            else:
                expr = expr + I if op == '+' else expr - I
    tv = tests[0] if len(tests) == 1 else tuple(tests)
    uv = trials[0] if len(trials) == 1 else tuple(trials)
    if kind == 'bilinear':
        return m['BilinearForm']((uv, tv), expr)
    if kind == 'linear':
        return m['LinearForm'](tv, expr)
    return m['Functional'](sum((e for _, e in ints), S.Zero), ints[0][0])


def members(w, reg):
    """regions of an integration domain as TerminalExpr attributes them"""
    m = w.m
    if is_empty(reg):
        return []
    if isinstance(reg, m['Union']):
        out = []
        for r in reg.args:
            out += members(w, r)
        return out
    if reg is w.domain or reg == w.domain:
        if len(w.patches) > 1:
            return [p.interior for p in w.patches]
        return [w.domain.interior if hasattr(w.domain, 'interior') else w.domain]
    return [reg]


def monomials(e):
    e = expand(e)
    if e == 0:
        return []
    return list(e.args) if isinstance(e, sympy.Add) else [e]


def tag(mono, comps):
    """index of the component occurring in the monomial: int, None (none), or 'many'"""
    hit = [i for i, c in enumerate(comps) if mono.has(c)]
    if not hit:
        return None
    return hit[0] if len(hit) == 1 else 'many'


def lower_kernels(w, form):
    m = w.m
    ks = m['TerminalExpr'](form, w.domain)
    return ks


def analyse(ctx, w, kind, tests, trials, ints, c, o, style=None, label=None):
    """runs the real lowering once and feeds both the correspondence (c) and the oracle (o)"""
    m = w.m
    name = '%s%s tests=%s trials=%s %s' % (label + ' ' if label else '', kind, tests, trials if kind == 'bilinear' else '-',
                                           describe(ints, style))
    try:
        form = build(w, kind, tests, trials, ints, style)
    except Exception as ex:
        if o is not None:
            o.count('construction-refused:' + type(ex).__name__)
            if any(is_empty(r) for r, _ in ints):
                # an integral over an empty region set contributes nothing: the form can be built whenever the same
                # form without that integral can (and is the zero form when nothing else is left)
                rest, rstyle = without_empty(ints, style)
                try:
                    if rest:
                        build(w, kind, tests, trials, rest, rstyle)
                    refused_anyway = False
                except Exception:
                    refused_anyway = True
                if not refused_anyway:
                    o.fail('empty-region:' + name, 'building the form %s raised %s (%s); its integral over an empty region '
                           'set contributes nothing, and the same form without that integral %s' % (
                               name, type(ex).__name__, str(ex)[:200],
                               'is accepted: ' + describe(rest, rstyle) if rest else 'is the zero form'))
        return None
    if not hasattr(form, 'variables') and not hasattr(form, 'is_functional'):
        if o is not None:
            o.count('construction-collapsed:' + type(form).__name__)
        return None          # the constructor itself returned a plain number (e.g. Functional(0, domain))
    try:
        with time_limit(60):
            ks = lower_kernels(w, form)
    except Timeout:
        return None
    except Exception as ex:
        if o is not None:
            o.fail('lower:' + name, 'TerminalExpr raised %s on the form %s' % (type(ex).__name__, name))
        return None
    if not isinstance(ks, tuple):
        if o is not None:
            o.fail('kernels:' + name, 'TerminalExpr returned %r instead of a tuple of kernels for %s' % (ks, name))
        return None
    def unpack(fs):
        # the scalar components in DECLARATION order, computed here and not with the implementation's
        # own helper (seeded change C06-5 re-ordered them there, and the oracle followed)
        out = []
        for f in fs:
            if isinstance(f, m['VectorFunction']):
                out += [f[i] for i in range(w.dim)]
            else:
                out.append(f)
        return out
    ft = unpack(tests) if kind != 'functional' else []
    fu = unpack(trials) if kind == 'bilinear' else []
    # expected regions and region integrands, computed independently
    exp = {}
    n_iface = 0
    for reg, e in ints:
        if w.I is not None and reg is w.I:
            from sympde.calculus.core import Jump
            same_side = e
            for j in list(e.atoms(Jump)):
                same_side = same_side.subs(j, j.args[0])       # c*[u][v]: the same-side pieces are c*u*v on both faces
            for fc in w.side_faces:
                exp.setdefault(fc, S.Zero)
                exp[fc] += same_side
            n_iface += 1
            continue
        for r in members(w, reg):
            exp.setdefault(r, S.Zero)
            exp[r] += e
    got = {}
    n_ikern = 0
    for k in ks:
        if isinstance(k, m['InterfaceExpression']):
            n_ikern += 1            # mixed-side kernels are C07's subject; here only their presence matters
            continue
        got.setdefault(k.target, [])
        got[k.target].append(k.expr)
    if o is not None and n_iface and n_ikern != 2:
        o.fail('iface-kernels:' + name, 'an interface integral c*[u][v] must give two mixed-side kernels, got %d' % n_ikern)
    return name, ks, ft, fu, exp, got


def fixed_corpus(world):
    """fixed cases with stable keys: [(label, world, kind, tests, trials, ints, style)]; `ints` is the table of the
    integrals that are MEANT, `style` the way their sum is written (see gen_style)"""
    from sympde.calculus import jump
    out = []
    w2, w3, wt = world(2, False), world(3, False), world(2, True)
    for w, d in ((w2, '2d'), (w3, '3d'), (wt, '2p')):
        m = w.m
        dot, div, grad, inner = m['dot'], m['div'], m['grad'], m['inner']
        (u, p), (v, q), (U,), (Vt,) = w.su, w.sv, w.vu, w.vv
        (f, g), (cc, kk), Fb, nn, x = w.fields, w.csts, w.vfield, w.nn, w.coords[0]
        D, G1, G2 = w.domain, w.faces[0], w.faces[-1]
        GG = m['Union'](w.faces[0], w.faces[1])

        def add(key, kind, tests, trials, ints, style=None):
            out.append(('corpus:%s-%s' % (key, d), w, kind, tests, trials, ints, style))
        # ---- rectangular block systems (one row, one column, 2 x 3): added after seeded change C06-7
        add('rect-1xn-div', 'bilinear', [q], [U, p], [(D, div(U) * q + 3 * p * q), (G1, dot(U, nn) * q)])
        add('rect-nx1-div', 'bilinear', [Vt, q], [p], [(D, div(Vt) * p + 3 * p * q), (G1, dot(Vt, nn) * p)])
        add('rect-1x2-scalars', 'bilinear', [v], [u, p], [(D, u * v + cc * f * p * v + dot(grad(p), grad(v))), (GG, g * u * v)])
        add('rect-2x1-scalars', 'bilinear', [v, q], [u], [(D, u * v + cc * f * u * q + dot(grad(u), grad(q))), (GG, g * u * q)])
        add('rect-1xdim-vector-trial', 'bilinear', [v], [U], [(D, dot(U, grad(v)) + x * dot(Fb, U) * v), (G2, kk * dot(U, nn) * v)])
        add('rect-dimx1-vector-test', 'bilinear', [Vt], [u], [(D, dot(Vt, grad(u)) + x * dot(Fb, Vt) * u), (G2, kk * dot(Vt, nn) * u)])
        add('rect-2xn', 'bilinear', [v, q], [U, u, p], [(D, div(U) * v + u * q + 2 * p * v + f * dot(Fb, U) * q), (G1, p * q)])
        add('rect-nx2', 'bilinear', [Vt, v, q], [u, p], [(D, div(Vt) * u + p * v + 2 * u * q + f * dot(Fb, Vt) * p), (G1, p * q)])
        add('square-1x1', 'bilinear', [v], [u], [(D, 3 * u * v), (G1, u * v)])
        add('linear-one-test', 'linear', [v], [u], [(D, f * v + dot(Fb, grad(v))), (G1, g * v)])
        # ---- ways of writing the sum of integrals (accumulation from 0, differences, a negated first integral):
        # added after seeded change C06-8
        three = [(G1, -2 * u * v), (G2, -3 * u * v), (D, u * v)]
        add('acc0-minus-minus-plus', 'bilinear', [v], [u], three, ('int0', ('-', '-', '+')))
        add('accZero-minus-minus-plus', 'bilinear', [v], [u], three, ('Zero', ('-', '-', '+')))
        add('acc0-plus-plus-plus', 'bilinear', [v], [u], three, ('int0', ('+', '+', '+')))
        add('first-minus-minus', 'bilinear', [v], [u], three[::-1], ('first', ('+', '-', '-')))
        add('negated-first', 'bilinear', [v], [u], three, ('first', ('-', '+', '+')))
        add('acc0-minus-domain-first', 'bilinear', [v], [u], [(D, -f * u * v), (G1, u * v)], ('int0', ('-', '+')))
        add('acc0-minus-union-first', 'bilinear', [v], [u], [(GG, -f * u * v), (D, u * v)], ('int0', ('-', '+')))
        add('acc0-minus-single', 'bilinear', [v], [u], [(G1, -cc * u * v)], ('int0', ('-',)))
        add('acc0-minus-same-face-twice', 'bilinear', [v], [u], [(G1, -2 * u * v), (G1, -f * u * v), (D, u * v)],
            ('int0', ('-', '-', '+')))
        add('accZero-minus-linear', 'linear', [v], [u], [(G1, -g * v), (D, x * f * v)], ('Zero', ('-', '+')))
        add('acc0-minus-linear-vector', 'linear', [Vt], [U], [(G2, -g * dot(Vt, nn)), (D, dot(Fb, Vt) + f * div(Vt))],
            ('int0', ('-', '+')))
        add('acc0-minus-system', 'bilinear', [Vt, q], [U, p],
            [(G1, -dot(U, nn) * q), (D, inner(grad(U), grad(Vt)) - p * div(Vt) + q * div(U))], ('int0', ('-', '+')))
        if w.I is not None:
            add('acc0-minus-interface-first', 'bilinear', [v], [u], [(w.I, -cc * jump(u) * jump(v)), (D, u * v)],
                ('int0', ('-', '+')))
            add('acc0-minus-side-face-first', 'bilinear', [v], [u],
                [(w.side_faces[0], -f * u * v), (w.I, cc * jump(u) * jump(v)), (D, u * v)], ('int0', ('-', '+', '+')))
        # ---- integrals over an EMPTY region set (no Neumann part, no face selected, no interface on one patch)
        # next to ordinary ones: added after seeded change C06-10
        E = {e_.label: e_ for e_ in w.empties}
        EN, EU = E['boundary.complement(boundary)'], E['Union()']
        stiff = dot(grad(u), grad(v))
        add('empty-neumann-bilinear', 'bilinear', [v], [u], [(D, stiff), (EN, 2 * u * v)])
        add('empty-neumann-linear', 'linear', [v], [u], [(D, f * v), (EN, 3 * g * v)])
        add('empty-neumann-and-face', 'bilinear', [v], [u], [(D, stiff), (EN, 2 * u * v), (G1, cc * u * v)])
        add('empty-union-first', 'bilinear', [v], [u], [(EU, g * u * v), (D, u * v), (GG, 2 * u * v)])
        add('empty-only', 'bilinear', [v], [u], [(EN, u * v)])
        add('empty-only-linear', 'linear', [v], [u], [(EU, g * v)])
        add('empty-acc0-minus-first', 'bilinear', [v], [u], [(EN, -f * u * v), (G1, -u * v), (D, u * v)],
            ('int0', ('-', '-', '+')))
        add('empty-minus-last', 'linear', [v], [u], [(D, f * v), (G2, g * v), (EN, -g * v)], ('first', ('+', '+', '-')))
        add('empty-neumann-system', 'bilinear', [Vt, q], [U, p],
            [(D, inner(grad(U), grad(Vt)) - p * div(Vt) + q * div(U)), (EN, dot(U, nn) * q + p * dot(Vt, nn))])
        add('empty-neumann-rect', 'bilinear', [q], [U, p], [(EN, dot(U, nn) * q), (D, div(U) * q + 3 * p * q)])
        if 'interfaces' in E:
            add('empty-interfaces-dg', 'bilinear', [v], [u],
                [(D, stiff), (E['interfaces'], kk * jump(u) * jump(v)), (EN, 2 * u * v)])
            add('empty-interfaces-mixed-bc', 'bilinear', [v], [u],
                [(D, stiff), (E['interfaces'], kk * jump(u) * jump(v)), (GG, 2 * u * v)])
            add('empty-interfaces-linear', 'linear', [v], [u], [(E['interfaces'], g * jump(v)), (D, f * v)])
        else:
            add('empty-neumann-with-interface', 'bilinear', [v], [u],
                [(D, stiff), (w.I, kk * jump(u) * jump(v)), (EN, 2 * u * v)])
    return out


def entries(M, nt, nu):
    if isinstance(M, sympy.MatrixBase):
        return [[M[i, j] for j in range(M.shape[1])] for i in range(M.shape[0])]
    return [[M]]


def run(ctx, n, c, o):
    rng = ctx.rng
    worlds = {}

    def world(dim, two):
        if (dim, two) not in worlds:
            worlds[(dim, two)] = World(rng, dim, 'f', two_patch=two)
        return worlds[(dim, two)]

    def cases():
        for case in fixed_corpus(world):
            yield case
        for it in range(n):
            dim = rng.choice([2, 2, 3])
            two = rng.random() < 0.25
            w_ = world(dim, two)
            yield (None, w_) + tuple(gen_form(rng, w_))

    lines, payload = [], []
    for label, w, kind, tests, trials, ints, style in cases():
        m = w.m
        res = analyse(ctx, w, kind, tests, trials, ints, c, o, style=style, label=label)
        if label is not None:
            (o if o is not None else c).count('corpus')
        if res is None:
            continue
        name, ks, ft, fu, exp, got = res
        nt, nu = max(len(ft), 1), max(len(fu), 1)
        if o is not None:
            o.evaluations += 1
            if len(o.samples) < 3:
                o.samples.append({'form': name[:300], 'kernels': [str(k.target) for k in ks]})
        # ---- oracle: regions
        nonzero = {r: e for r, e in exp.items() if expand_lowered(w, e, r) != 0}
        if o is not None:
            o.count('kind:' + kind)
            if nonzero:
                if set(got.keys()) != set(nonzero.keys()) or any(len(v) != 1 for v in got.values()):
                    o.fail('regions:' + name, 'kernels of %s are over %s, the form integrates over %s' % (
                        name, sorted(map(str, got.keys())), sorted(map(str, nonzero.keys()))))
                    continue
            else:
                o.count('zero-form')
                # a vanishing form gives zero kernels (one for the whole form, or one per region), never an error
                if len(ks) < 1 or any(x != 0 for k_ in ks for x in sympy.flatten(entries(k_.expr, nt, nu))):
                    o.fail('zero:' + name, 'a vanishing form must give zero kernels, got %s' % (ks,))
                continue
        elif not nonzero:
            continue
        for r, e in nonzero.items():
            if r not in got:
                continue
            M = got[r][0]
            low = expand_lowered(w, e, r)
            rows = entries(M, nt, nu)
            # ---- oracle: recombination and purity
            if o is not None:
                tot = expand(sum((x for row in rows for x in row), S.Zero))
                if expand(tot - low) != 0:
                    o.fail('recombine:%s:%s' % (r, name), 'the entries of the kernel over %s do not add up to the region integrand of %s' % (r, name),
                           kernel=str(M)[:400], integrand=str(low)[:400])
                shape_ok = (len(rows) == nt and all(len(row) == nu for row in rows))
                if not shape_ok:
                    o.fail('shape:%s:%s' % (r, name), 'kernel over %s has shape %dx%d, expected %dx%d (tests x trials)' % (
                        r, len(rows), len(rows[0]), nt, nu))
                    continue
                for i, row in enumerate(rows):
                    for j, x in enumerate(row):
                        others = [t for k2, t in enumerate(ft) if k2 != i] + [u for k2, u in enumerate(fu) if k2 != j]
                        if any(x.has(t) for t in others):
                            o.fail('purity:%s:%s' % (r, name), 'entry (%d,%d) of the kernel over %s of %s mentions another test/trial component: %s' % (i, j, r, name, x))
                        if ft and x != 0 and not x.has(ft[i]):
                            o.fail('purity:%s:%s' % (r, name), 'entry (%d,%d) of the kernel over %s of %s does not contain its own test component: %s' % (i, j, r, name, x))
                        if fu and x != 0 and not x.has(fu[j]):
                            o.fail('purity:%s:%s' % (r, name), 'entry (%d,%d) of the kernel over %s of %s does not contain its own trial component: %s' % (i, j, r, name, x))
            # ---- correspondence: tagged monomials through the model
            if c is not None:
                monos = monomials(low)
                tags = [(tag(mm, ft) if ft else 0, tag(mm, fu) if fu else 0) for mm in monos]
                if any('many' in t for t in tags):
                    c.count('non-bilinear-monomial')
                    continue
                ms = [[k2, A('none') if t is None else t, A('none') if u is None else u] for k2, (t, u) in enumerate(tags)]
                lines.append('C06 blocks %d %d %s' % (nt, nu, dumps(ms)))
                payload.append((name, r, monos, rows, nt, nu))
        if c is not None and len(ints) > 1 and not any(w.I is not None and reg is w.I for reg, _ in ints):
            regs = sorted({str(r) for reg, _ in ints for r in members(w, reg)})
            ts = [[[regs.index(str(r)) for r in members(w, reg)], k2] for k2, (reg, _) in enumerate(ints)]
            lines.append('C06 group %s' % dumps(ts))
            payload.append(('group', name, regs, ints, got, w))
    if c is None:
        return
    outs = ctx.driver.run(lines)
    for line, pl, out in zip(lines, payload, outs):
        c.evaluations += 1
        if not out.startswith('ok '):
            c.disagreements.append({'input': line[:300], 'impl': '', 'model': out, 'note': 'model refused'})
            continue
        res = loads_all(out[3:])[0]
        if pl[0] == 'group':
            _, name, regs, ints, got, w = pl
            c.count('group')
            model = {regs[int(p[0])]: [int(b) for b in p[1]] for p in res}
            impl_regs = {str(r) for r in got.keys()}
            # regions whose accumulated integrand vanishes have no kernel: compare on the non-vanishing ones
            for rname, bodies in model.items():
                e = sum((ints[b][1] for b in bodies), S.Zero)
                reg_obj = [r for reg, _ in ints for r in members(w, reg) if str(r) == rname][0]
                vanish = expand_lowered(w, e, reg_obj) == 0
                if (rname in impl_regs) == vanish and len(impl_regs) > 0 and not all(expand_lowered(w, ee, members(w, rr)[0]) == 0 for rr, ee in ints if members(w, rr)):
                    c.disagreements.append({'input': line[:300], 'impl': sorted(impl_regs), 'model': sorted(model), 'note': 'regions'})
            if len(model) >= 2:
                c.nontrivial.add(line)
            continue
        name, r, monos, rows, nt, nu = pl
        c.count('blocks:%dx%d' % (nt, nu))
        ok = True
        if len(rows) != nt or any(len(row) != nu for row in rows):
            c.disagreements.append({'input': line[:300], 'impl': 'kernel of shape %dx%d: %s' % (len(rows), len(rows[0]), rows),
                                    'model': '%dx%d blocks (tests x trials)' % (nt, nu),
                                    'note': 'shape of the kernel of %s over %s' % (name[:200], r)})
            continue
        for i in range(nt):
            for j in range(nu):
                ids = [int(x) for x in res[i][j]]
                model_entry = sum((monos[k2] for k2 in ids), S.Zero)
                if expand(model_entry - rows[i][j]) != 0:
                    ok = False
                    c.disagreements.append({'input': line[:300], 'impl': 'M[%d][%d] = %s' % (i, j, rows[i][j]),
                                            'model': str(model_entry), 'note': 'block of %s over %s' % (name[:200], r)})
        if ok and nt * nu >= 2:
            c.nontrivial.add(line)
            if len(c.samples) < 5:
                c.samples.append({'form': name[:200], 'region': str(r), 'request': line[:200], 'model': out[:120]})


def expand_lowered(w, e, region_obj):
    """independent lowering of a region integrand (an expression, not a form) followed by expand"""
    m = w.m
    if e == 0:
        return S.Zero
    dom = region_obj
    t = m['TerminalExpr'](e, w.domain if not hasattr(dom, 'dim') else w.domain)
    if isinstance(t, sympy.MatrixBase) and t.shape == (1, 1):
        t = t[0]
    return expand(t)


def correspondence(ctx):
    c = Corr()
    run(ctx, 700 if ctx.thorough else 110, c, None)
    return c


def oracle(ctx, factor, seeds):
    o = Oracle()
    run(ctx, (500 if ctx.thorough else 80) * factor, None, o)
    # several interfaces at once (three-patch chain): the one-sided pieces of EVERY interface reach
    # their faces (seeded change C06-6; the metamorphic check is shared with C07)
    from harness.props import c07
    c07.multi_interface_cases(ctx, o, (30 if ctx.thorough else 6) * factor)
    return o


def replay(ctx, path):
    import sys
    from harness.common import generic_replay
    return generic_replay(sys.modules[__name__], ctx, path)
