"""C01 — lowering to partial-derivative form preserves the meaning of expressions."""
import sympy

from harness.common import Corr, Oracle, Timeout, time_limit
from harness.exprser import Ser, ring_equal
from harness.genexpr import Env, GenericGen, tree_size
from harness.inst import Inst, same_value
from harness.rank import vector_valued_commutative_factor, has_grad_of_scalar
from harness.sexp import dumps, loads_all
from harness.translate import leaf

PID = 'C01'
PROPS_MODULE = 'SympdeModel.Props.C01'
GEN = [leaf.generate]
EXTRA_THEOREM_MODULES = ['SympdeModel.Gen.LeafThms']
RULE = ('random well-typed generic expressions (scalar-, vector-, matrix-valued; grad, div, curl, rot, laplace, hessian, '
        'bracket, dot, cross, inner, sums, products with scalars, powers, elementary functions of scalar expressions; depth <= 3/4; '
        '1D sums mixing terms lowered to a 1x1 matrix and to a bare scalar in either order; laplace of matrix-valued expressions) on mapped (physical operators) and '
        'unmapped (logical operators) domains of dimension 1-3, built with the real constructors; a case is '
        '(dim, logical, expression as TerminalExpr receives it); non-trivial = contains at least one generic operator; '
        'distinct by serialised request')
ASSUMPTIONS = [
    'classical definitions = the component definitions in Sem/DenG.lean (repo convention (grad F)_ij = d_i F_j)',
    'a leaf class applied to generic atoms yields its formula for all arguments of that shape (re-checked on every '
    'correspondence case, where the arguments are compound)',
]
MAXSIZE = 45


def _terminal(e, dom):
    from sympde.expr import TerminalExpr
    try:
        return ('ok', TerminalExpr(e, dom))
    except Exception as ex:
        return ('err', type(ex).__name__)


def mixed_1d_sum(g):
    """1D: a sum of 2-4 vector-valued terms taken from BOTH representation families, at least one of each:
    terms lowered to a 1x1 matrix (F, s*F, -G, c*F, x*F, laplace(F)) and terms lowered to a bare scalar
    (grad(s), c*grad(s), s*grad(s')).  The canonical Add.args order of the generic sum decides which
    representation the lowering meets first, and the random names / coefficients produce both orders
    (matrix before scalar: f*F + grad(g), 2*grad(f) - G; scalar before matrix: grad(h) + F).
    Seeded change C01-9 handled one order only."""
    r, env, C = g.rng, g.env, g.C

    def sc():
        return r.choice(env.sf) if r.random() < 0.7 else g.scalar(g.maxdepth - 1)

    def mat_term():
        k = r.random()
        F = r.choice(env.vf)
        if k < 0.25:
            return F
        if k < 0.5:
            return sc() * F
        if k < 0.65:
            return -F
        if k < 0.8:
            return g.coef() * F
        if k < 0.9:
            return env.coords[0] * F
        return C.laplace(F)

    def sca_term():
        k = r.random()
        if k < 0.4:
            return C.grad(sc())
        if k < 0.7:
            return g.coef() * C.grad(r.choice(env.sf))
        return r.choice(env.sf) * C.grad(sc())

    terms = [mat_term(), sca_term()] + [(mat_term if r.random() < 0.5 else sca_term)() for _ in range(r.choice([0, 0, 1, 2]))]
    return sympy.Add(*terms)


def laplace_of_matrix(g):
    """2D/3D: the component-wise Laplacian of a MATRIX-valued expression (grad of a vector, hessian, sums and
    scalar multiples of them), alone, in a matrix sum, times a scalar, iterated, or under div (a vector).
    GenericGen only applies laplace to scalars and vectors.  Seeded change C01-10 ('laplace = div(grad)')
    returned the n x n Laplacian flattened to an n^2 x 1 column."""
    r, env, C = g.rng, g.env, g.C
    L = C.laplace(g.matrix(g.maxdepth - 1))
    k = r.random()
    if k < 0.35:
        return 'matrix', L
    if k < 0.55:
        return 'matrix', L + g.matrix(g.maxdepth - 1)
    if k < 0.7:
        return 'matrix', r.choice(list(env.sf) + [g.coef()]) * L
    if k < 0.8:
        return 'matrix', C.laplace(L)
    return 'vector', C.div(L)


def gen_cases(ctx, n, maxdepth):
    rng = ctx.rng
    envs = {}
    made = 0
    tries = 0
    while made < n and tries < 20 * n:
        tries += 1
        dim = rng.choice([1, 2, 2, 3, 3])
        logical = rng.random() < 0.4
        key = (dim, logical)
        if key not in envs:
            envs[key] = Env(dim, logical, tag='c1')
        env = envs[key]
        g = GenericGen(rng, env, maxdepth=maxdepth)
        try:
            q = rng.random()
            if dim == 1 and q < 0.3:
                kind, e = 'vector', mixed_1d_sum(g)
            elif dim > 1 and q < 0.08:
                kind, e = laplace_of_matrix(g)
            else:
                kind, e = g.any()
        except Exception:
            continue      # the constructors themselves refused (C02 territory)
        if not hasattr(e, 'args') or tree_size(e) > MAXSIZE:
            continue
        if kind == 'scalar' and rng.random() < 0.12:
            # elementary function of a scalar expression of the fragment (operators included):
            # its argument must be lowered too
            fun = rng.choice([sympy.sin, sympy.cos, sympy.exp, sympy.Abs])
            e = fun(e)
            if rng.random() < 0.5:
                e = e * rng.choice(env.sf)
        made += 1
        yield env, kind, e


def has_generic(e, ser):
    if type(e) in ser.op1_rev or type(e) in ser.op2_rev:
        return True
    return any(has_generic(a, ser) for a in getattr(e, 'args', ()))


def unmodelled_function_of_operator(e, ser):
    """an elementary function the expression AST has no `fn` node for (re, atan, atan2, ...: serialised as an
    opaque `other` node) applied to something that contains a generic operator: the code lowers its
    arguments (since the `fix:` commit), the model leaves an `other` node untouched"""
    from harness.exprser import FUNCS
    if isinstance(e, sympy.Function) and (type(e).__module__ or '').startswith('sympy.functions.') \
            and not (type(e).__name__ in FUNCS and len(e.args) == 1) and has_generic(e, ser):
        return True
    return any(unmodelled_function_of_operator(a, ser) for a in getattr(e, 'args', ()))


def correspondence(ctx):
    c = Corr()
    ser = Ser()
    n = 1500 if ctx.thorough else 220
    cases, seen = [], set()
    for env, kind, e in gen_cases(ctx, n, 4 if ctx.thorough else 3):
        try:
            s = ser.ser(e)
        except Exception:
            c.count('unserialisable')
            continue
        line = 'C01 lower %d %s %s' % (env.dim, 'true' if env.logical else 'false', dumps(s))
        if line in seen:
            continue
        if unmodelled_function_of_operator(e, ser):
            c.count('outside-model:function')
            continue
        seen.add(line)
        try:
            with time_limit(30):
                impl = _terminal(e, env.domain)
        except Timeout:
            c.count('impl-timeout')
            continue
        cases.append((line, env, kind, e, impl))
    outs = ctx.driver.run([x[0] for x in cases])
    for (line, env, kind, e, impl), out in zip(cases, outs):
        c.evaluations += 1
        c.count('dim:%d:%s' % (env.dim, 'logical' if env.logical else 'physical'))
        c.count('kind:' + kind)
        if out == 'err Exception':
            c.count('outside-model')     # a shape the model does not cover (reported, never compared)
            continue
        if impl[0] == 'err':
            c.count('err:' + impl[1])
            if out != 'err ' + impl[1]:
                c.disagreements.append({'input': line, 'impl': 'raised ' + impl[1], 'model': out[:300], 'note': 'error'})
            else:
                c.nontrivial.add(line)
            continue
        if not out.startswith('ok '):
            c.disagreements.append({'input': line, 'impl': str(impl[1])[:300], 'model': out[:300], 'note': 'model refused'})
            continue
        try:
            mres = ser.build(loads_all(out[3:])[0])
        except Exception as ex:
            c.disagreements.append({'input': line, 'impl': str(impl[1])[:300], 'model': out[:300], 'note': 'unbuildable: %r' % (ex,)})
            continue
        try:
            with time_limit(20):
                eq = ring_equal(mres, impl[1])
        except Timeout:
            c.count('compare-timeout')
            continue
        if not eq:
            c.disagreements.append({'input': line, 'impl': str(impl[1])[:400], 'model': str(mres)[:400], 'note': 'value'})
            continue
        if has_generic(e, ser):
            c.nontrivial.add(line)
            if len(c.samples) < 6:
                c.samples.append({'request': line[:300], 'impl': str(impl[1])[:200]})
    return c


def fixed_corpus():
    """witnesses of the defects repaired by the `fix:` commit 7d9d88b (and shapes worth keeping)"""
    import importlib
    C = importlib.import_module("sympde.calculus")
    out = []
    e3 = Env(3, False, tag='k')
    f, g, h = e3.sf
    F, G, H = e3.vf
    out += [(e3, 'vector', C.cross(F, G) + C.cross(G, H), 'corpus:cross+cross'),
            (e3, 'vector', f * C.cross(F, G), 'corpus:f*cross'),
            (e3, 'vector', C.laplace(C.cross(F, G)), 'corpus:laplace(cross)'),
            (e3, 'vector', C.dot(C.grad(F), G), 'corpus:dot(grad F,G) 3d'),
            (e3, 'vector', C.dot(C.grad(F), G) + H, 'corpus:dot(grad F,G)+H 3d'),
            # a compound factor with a Constant AND a coordinate is not a constant coefficient (seed C01-3)
            (e3, 'vector', C.curl((e3.coords[0] + e3.cst[0]) * F), 'corpus:curl((x+c)*F)'),
            (e3, 'matrix', C.hessian(sympy.exp(e3.cst[0] * e3.coords[1]) * f), 'corpus:hessian(exp(c*y)*f)')]
    e2 = Env(2, False, tag='k')
    F2, G2, H2 = e2.vf
    h2 = e2.sf[2]
    out += [(e2, 'matrix', C.grad(h2 * C.dot(C.grad(G2), C.grad(h2))), 'corpus:grad(h*dot(grad G,grad h))'),
            (e2, 'vector', C.dot(C.grad(F2), G2), 'corpus:dot(grad F,G) 2d'),
            (e2, 'scalar', C.inner(C.grad(F2), C.grad(G2)), 'corpus:inner(grad,grad) 2d')]
    # finding C01-function-argument-not-lowered (fixed): elementary functions lower their arguments
    # a scalar factor that vanishes only once lowered, times a vector: the value is the zero VECTOR and a
    # sum with it must still lower (seeded change C01-5 returned the scalar 0)
    out += [(e2, 'vector', C.div(C.rot(h2)) * F2 + G2, 'corpus:div(rot(h))*F+G'),
            (e2, 'vector', C.laplace(e2.coords[0]) * F2 + h2 * G2, 'corpus:laplace(x)*F+h*G'),
            (e2, 'vector', C.div(C.rot(h2)) * F2, 'corpus:div(rot(h))*F')]
    out += [(e2, 'scalar', sympy.sin(C.div(F2)), 'corpus:sin(div F)'),
            (e2, 'scalar', h2 * sympy.exp(C.dot(C.grad(h2), C.grad(h2))), 'corpus:h*exp(|grad h|^2)'),
            (e3, 'vector', sympy.cos(C.div(F)) * C.curl(G), 'corpus:cos(div F)*curl(G)')]
    # a power whose exponent is a coordinate function (no field in it, yet not a constant): the lowering of
    # rot / curl / div / bracket of it needs the log(b)*d(e) term of the power rule (seeded change C01-7)
    x2, y2 = e2.coords[:2]
    b2 = h2 ** 2 + 1
    out += [(e2, 'vector', C.rot(b2 ** x2), 'corpus:rot((h^2+1)^x)'),
            (e2, 'scalar', C.bracket(b2 ** y2, e2.sf[0]), 'corpus:bracket((h^2+1)^y,f)'),
            (e2, 'scalar', C.curl(b2 ** x2 * F2), 'corpus:curl((h^2+1)^x*F)'),
            (e2, 'scalar', C.div(b2 ** (x2 * y2) * C.grad(h2)), 'corpus:div((h^2+1)^(xy)*grad h)'),
            (e3, 'vector', C.curl((h ** 2 + 1) ** e3.coords[2] * F), 'corpus:curl((h^2+1)^z*F) 3d')]
    # a generic operator in the EXPONENT of a power is lowered too (seeded change C01-8 lowered the base only)
    out += [(e2, 'scalar', b2 ** C.div(F2), 'corpus:(h^2+1)^div(F)'),
            (e2, 'scalar', sympy.Integer(2) ** C.dot(F2, G2), 'corpus:2^dot(F,G)'),
            (e2, 'vector', b2 ** C.laplace(e2.sf[0]) * C.grad(e2.sf[0]), 'corpus:(h^2+1)^laplace(f)*grad f'),
            (e2, 'scalar', b2 ** C.curl(G2) + C.div(F2), 'corpus:(h^2+1)^curl(G)+div F')]
    e1 = Env(1, False, tag='k')
    F1, G1, H1 = e1.vf
    # finding C01-1d-mixed (fixed): a scalar form and a 1x1 matrix are added as 1x1 matrices
    out += [(e1, 'vector', C.grad(e1.sf[0]) + F1, 'corpus:1d grad(h)+F'),
            (e1, 'vector', F1 + 2 * C.grad(e1.sf[0]) + C.laplace(G1), 'corpus:1d F+2grad(h)+laplace(G)'),
            (e1, 'scalar', sympy.sin(C.div(F1)), 'corpus:sin(div F) 1d'),
            (e1, 'scalar', C.inner(F1, G1), 'corpus:inner 1d'),
            (e1, 'scalar', C.inner(C.grad(F1), C.grad(G1)), 'corpus:inner(grad,grad) 1d')]
    # ... in EITHER order of the canonical Add.args: the family {1x1-matrix term} + {bare-scalar term}, on a mapped
    # and an unmapped 1D domain (seeded change C01-9 only handled 'scalar partial sum, then a 1x1 matrix';
    # f*F + grad(g) and 2*grad(f) - G put the matrix term first, grad(h) + F above the scalar term)
    for env1 in (e1, Env(1, True, tag='k')):
        f1, g1, h1 = env1.sf
        Fa, Ga, Ha = env1.vf
        x1 = env1.coords[0]
        sfx = ' logical' if env1.logical else ''
        mats = [('F', Fa), ('f*F', f1 * Fa), ('-G', -Ga), ('x*G', x1 * Ga), ('laplace(H)', C.laplace(Ha))]
        scas = [('grad(g)', C.grad(g1)), ('2*grad(f)', 2 * C.grad(f1)), ('h*grad(g)', h1 * C.grad(g1))]
        for mn, mt in mats:
            for sn, st in scas:
                out.append((env1, 'vector', mt + st, 'corpus:1d-mixed%s:%s+%s' % (sfx, mn, sn)))
        out += [(env1, 'vector', f1 * Fa + C.grad(g1) + Ga, 'corpus:1d-mixed%s:f*F+grad(g)+G' % sfx),
                (env1, 'vector', -Ga + C.grad(f1 * g1), 'corpus:1d-mixed%s:-G+grad(f*g)' % sfx),
                (env1, 'vector', C.grad(h1) + C.grad(g1) + f1 * Fa - 3 * Ha, 'corpus:1d-mixed%s:grad(h)+grad(g)+f*F-3H' % sfx)]
    # laplace of a MATRIX-valued argument is the component-wise Laplacian, an n x n matrix (seeded change C01-10
    # returned it flattened to n^2 x 1): alone, in a matrix sum, times a scalar, under div
    for envm in (e2, e3, Env(2, True, tag='k'), Env(3, True, tag='k')):
        fm, gm_, hm = envm.sf
        Fm, Gm, Hm = envm.vf
        sfx = ' %dd%s' % (envm.dim, ' logical' if envm.logical else '')
        out += [(envm, 'matrix', C.laplace(C.grad(Fm)), 'corpus:laplace(grad F)' + sfx),
                (envm, 'matrix', C.laplace(C.hessian(fm)), 'corpus:laplace(hessian f)' + sfx),
                (envm, 'matrix', C.laplace(fm * C.grad(Fm)), 'corpus:laplace(f*grad F)' + sfx),
                (envm, 'matrix', C.laplace(C.grad(Fm)) + C.grad(Gm), 'corpus:laplace(grad F)+grad(G)' + sfx),
                (envm, 'vector', C.div(C.laplace(C.grad(Fm))), 'corpus:div(laplace(grad F))' + sfx),
                (envm, 'matrix', hm * C.laplace(C.hessian(gm_)) + C.laplace(C.laplace(C.grad(Hm))),
                 'corpus:h*laplace(hessian g)+laplace(laplace(grad H))' + sfx)]
    return out


def oracle(ctx, factor, seeds):
    """TerminalExpr(e), instantiated, has the value and shape of the classical definition of e, instantiated"""
    o = Oracle()
    ser = Ser()
    n = (400 if ctx.thorough else 70) * factor
    rng = ctx.rng
    cases = fixed_corpus() + [(env, kind, e, None) for env, kind, e in gen_cases(ctx, n, 3)]
    for env, kind, e, key in cases:
        try:
            with time_limit(30):
                impl = _terminal(e, env.domain)
        except Timeout:
            o.count('impl-timeout')
            continue
        o.evaluations += 1
        if impl[0] == 'err':
            # on the supported fragment lowering must not fail
            if key is None and impl[1] == 'NotImplementedError' and any(
                    (not p.exp.is_number) or p.exp.is_Rational and not p.exp.is_Integer
                    for p in sympy.sympify(e).atoms(sympy.Pow)):
                # a second derivative of f**g needs dx(log(f)): the coordinate operators refuse an
                # elementary function of a field (C05, dEval_refuses_fn) - a refusal, not a wrong value,
                # and outside the fragment for which lower_total states totality
                o.count('refused:second-derivative-of-variable-power')
                continue
            k2 = key                                   # (C01-1d-mixed is fixed: a 1D TypeError is a violation again)
            if k2 is None and env.dim > 1 and impl[1] in ('ShapeError', 'TypeError') and vector_valued_commutative_factor(e, env.dim):
                k2 = 'corpus:grad(h*dot(grad G,grad h))'   # explained by the open finding C01-vector-commutative-factor
            o.fail(k2 or ('fail:%d:%s' % (env.dim, e)), 'TerminalExpr raised %s on the supported expression %s (dim %d)' % (impl[1], e, env.dim))
            continue
        if has_generic(impl[1], ser):
            # the result must be in partial-derivative form: no generic operator may survive
            # (finding C01-function-argument-not-lowered: sin(div(F)) kept Div(F) inside)
            o.fail(key or ('unlowered:%d:%s' % (env.dim, e)), 'TerminalExpr(%s) (dim %d) still contains a generic operator: %s' % (
                e, env.dim, str(impl[1])[:200]), lowered=str(impl[1])[:300])
            continue
        ins = Inst(rng, env.dim, env.coords)
        try:
            with time_limit(20):
                truth = ins.inst(e)
                got = ins.inst(impl[1])
        except NotImplementedError:
            o.count('not-instantiable')
            continue
        except Timeout:
            o.count('timeout')
            continue
        except Exception as ex:
            o.fail(key or ('shape:%d:%s' % (env.dim, e)), 'the lowered form of %s cannot be read as a %s: %s' % (e, kind, ex), lowered=str(impl[1])[:300])
            continue
        o.count('kind:' + kind)
        # shape: scalar / d x 1 column / d x d matrix  (a 1D vector may be a scalar or a 1x1 matrix)
        tm, gm = isinstance(truth, sympy.MatrixBase), isinstance(got, sympy.MatrixBase)
        if env.dim == 1:
            if tm:
                truth = truth[0]
            if gm and got.shape == (1, 1):
                got = got[0]
                gm = False
            tm = False
        if tm != gm or (tm and truth.shape != got.shape):
            o.fail(key or ('shape:%d:%s' % (env.dim, e)), 'TerminalExpr(%s) has shape %s, the classical value has shape %s' % (
                e, getattr(got, 'shape', 'scalar'), getattr(truth, 'shape', 'scalar')), lowered=str(impl[1])[:300])
            continue
        try:
            with time_limit(20):
                ok = same_value(got, truth, ins.coords, rng)
        except Timeout:
            o.count('timeout')
            continue
        if len(o.samples) < 4:
            o.samples.append({'dim': env.dim, 'expr': str(e)[:200], 'lowered': str(impl[1])[:200]})
        if ok is None:
            o.count('undecided')
        elif not ok:
            o.fail(key or ('value:%d:%s' % (env.dim, e)), 'TerminalExpr(%s) (dim %d) does not have the value of the classical definition' % (e, env.dim),
                   lowered=str(impl[1])[:400], instantiation={k: str(v) for k, v in list(ins.sf.items()) + list(ins.vf.items())})
    return o


def replay(ctx, path):
    import sys
    from harness.common import generic_replay
    return generic_replay(sys.modules[__name__], ctx, path)
