"""C08 — linearity verdict at form construction: correspondence with Model/Linear.lean and
independent oracle (numeric additivity / homogeneity of the integrand on concrete instantiations)."""
import contextlib
import io
import json

from harness.common import Corr, Oracle
from harness.sexp import A, dumps
from harness.exprser import Ser

PID = 'C08'
PROPS_MODULE = 'SympdeModel.Props.C08'
RULE = ('integrands on Square/Cube for LinearForm / BilinearForm over scalar, vector and product arguments: sums of '
        'linear terms (products with coefficient fields, Constants, rationals, coordinates; dx/dy, grad, div, curl, '
        'laplace, dot, inner, cross with a field; boundary terms with the normal vector; domain + boundary sums), '
        '45 % perturbed by one non-linear edit (constant term, square, product of the argument with itself / its '
        'derivative / the other component of a product argument, sin / exp / sqrt of the argument, missing argument, '
        'argument in a denominator).  One case = one constructor call; non-trivial = every case (the verdict is computed '
        'by substitution, re-evaluation and expansion); distinct by request line')
ASSUMPTIONS = [
    'the model compares by polynomial normal form over maximal non-arithmetic sub-terms (verified normaliser); sympy '
    'uses expand(): agreement of the two is what the correspondence checks',
    'substitution re-runs the operator constructors (Model/Calc.lean, property C02) and the linear part of dx / F[i]',
    'ground truth of the oracle: additivity and homogeneity of the classical value of the integrand for two draws of '
    'polynomial functions (joint linearity in all components of a product argument)',
]
MIN_NONTRIVIAL = 40


def mods():
    import sympy
    from sympy import Tuple, S, Rational, Matrix, ImmutableDenseMatrix, sin, exp, sqrt
    from sympde.topology import Square, Cube, ScalarFunctionSpace, VectorFunctionSpace, NormalVector
    from sympde.topology.space import ScalarFunction, VectorFunction
    from sympde.calculus import grad, dot, div, inner, laplace, curl, cross
    from sympde.topology.derivatives import dx, dy, dz
    from sympde.expr import BilinearForm, LinearForm, integral
    from sympde.expr.expr import Integral, IntAdd
    from sympde.expr.errors import UnconsistentLinearExpressionError
    from sympde.core import Constant
    return locals()


class World:
    count = 0

    def __init__(self, rng, m):
        World.count += 1
        k = World.count
        self.m = m
        self.dim = rng.choice([2, 2, 3])
        self.domain = (m['Square'] if self.dim == 2 else m['Cube'])('Om08_%d' % k)
        self.bnd = self.domain.boundary
        self.faces = list(self.bnd.args)
        self.V = m['ScalarFunctionSpace']('V08_%d' % k, self.domain)
        self.W = m['VectorFunctionSpace']('W08_%d' % k, self.domain)
        sfx = '%d' % k
        mk = lambda sp, names: [sp.element(n + sfx) for n in names]
        self.u, self.v, self.f, self.g = mk(self.V, ['u', 'v', 'f', 'g'])
        self.F, self.G, self.B = mk(self.W, ['F', 'G', 'B'])
        self.k1 = m['Constant']('kap' + sfx)
        self.nn = m['NormalVector']('nn')
        self.D1 = [m['dx'], m['dy'], m['dz']][:self.dim]
        from harness.inst import PHYS
        self.x = list(PHYS[:self.dim])      # the symbols dx, dy, dz differentiate with respect to


def coef(W, rng):
    m = W.m
    return rng.choice([1, 1, 2, m['Rational'](1, 2), W.k1, W.f, W.x[0], W.f * W.x[1], W.g + 1])


def lin_scalar(W, rng, v):
    """an expression linear in the scalar function v"""
    m = W.m
    d = rng.choice(W.D1)
    return rng.choice([v, d(v), m['laplace'](v), m['dot'](W.B, m['grad'](v)), d(rng.choice(W.D1)(v)),
                       m['dot'](m['grad'](v), m['grad'](W.f))])


def lin_vector(W, rng, G):
    """a scalar expression linear in the vector function G"""
    m = W.m
    opts = [m['dot'](G, W.B), m['div'](G), G[0], G[W.dim - 1], m['inner'](m['grad'](G), m['grad'](W.B)), rng.choice(W.D1)(G[0])]
    if W.dim == 3:
        opts += [m['dot'](m['curl'](G), W.B), m['dot'](m['cross'](G, W.B), W.B + W.F) if False else m['dot'](m['curl'](G), m['curl'](W.B))]
    else:
        opts += [m['curl'](G), m['cross'](G, W.B)]
    return rng.choice(opts)


def lin_of(W, rng, a):
    return lin_vector(W, rng, a) if isinstance(a, W.m['VectorFunction']) else lin_scalar(W, rng, a)


def nonlinear_edit(W, rng, args, others):
    """(label, extra term or None, replace-all?) — a term that is not linear in `args` (jointly)"""
    m = W.m
    a = rng.choice(args)
    vec = isinstance(a, m['VectorFunction'])
    prod_other = 1
    for o in others:
        prod_other = prod_other * lin_of(W, rng, o)
    la = lin_of(W, rng, a)
    k = rng.random()
    if k < 0.14:
        return 'constant', rng.choice([1, W.f, W.k1, W.f * W.x[0]]) * prod_other
    if k < 0.28:
        return 'square', la ** 2 * prod_other
    if k < 0.42:
        lb = lin_of(W, rng, a)
        return 'self-product', la * lb * prod_other
    if k < 0.52:
        return 'sin', m['sin'](la) * prod_other
    if k < 0.60:
        return 'exp', m['exp'](la) * prod_other
    if k < 0.66:
        return 'sqrt', m['sqrt'](la ** 2 + 1) * prod_other
    if k < 0.74:
        return 'denominator', prod_other * W.f / (la + 2)
    if k < 0.80:
        # homogeneous of degree one, not additive: only the additivity test can reject it
        d = rng.choice(W.D1)
        if vec:
            p, q = rng.choice([(a[0], a[W.dim - 1]), (d(a[0]), a[0]), (a[W.dim - 1], d(a[0]))])
        else:
            p, q = rng.choice([(a, d(a)), (d(a), a), (d(a), d(d(a)))])
        return 'ratio', p ** 2 / q * prod_other
    if k < 0.88 and len(args) >= 2:
        b = [x for x in args if x is not a][0]
        return 'cross-product-of-components', lin_of(W, rng, a) * lin_of(W, rng, b) * prod_other
    return 'cube', la ** 3 * prod_other


def make_case(W, rng):
    """returns dict(kind, args…, expr, label) — the integral expression of a candidate form"""
    m = W.m
    integral = m['integral']
    bilinear = rng.random() < 0.5
    shape = rng.choice(['scalar', 'scalar', 'vector', 'product'])
    if shape == 'scalar':
        tests, trials = [W.v], [W.u]
    elif shape == 'vector':
        tests, trials = [W.G], [W.F]
    else:
        tests, trials = [W.v, W.G], [W.u, W.F]
    if not bilinear:
        trials = []

    def term():
        t = coef(W, rng) * lin_of(W, rng, rng.choice(tests))
        if bilinear:
            t = t * lin_of(W, rng, rng.choice(trials))
        return t

    body = sum((term() for _ in range(rng.choice([1, 2, 2, 3]))), m['S'].Zero)
    label = 'linear'
    if rng.random() < 0.45:
        if bilinear and rng.random() < 0.5:
            label, extra = nonlinear_edit(W, rng, trials, tests)
            label = 'trial:' + label
        else:
            label, extra = nonlinear_edit(W, rng, tests, trials)
            label = 'test:' + label
        body = body + extra
    expr = integral(W.domain, body)
    k = rng.random()
    if k < 0.3:
        a = rng.choice(tests)
        bt = (m['dot'](a, W.nn) if isinstance(a, m['VectorFunction']) else a) * rng.choice([1, W.k1, W.f])
        if bilinear:
            b = rng.choice(trials)
            bt = bt * (m['dot'](b, W.nn) if isinstance(b, m['VectorFunction']) else b)
        if label == 'linear' and rng.random() < 0.15:
            bt = bt + rng.choice([1, W.f])
            label = 'boundary:constant'
        expr = expr + integral(W.bnd if rng.random() < 0.5 else rng.choice(W.faces), bt)
    return dict(bilinear=bilinear, trials=trials, tests=tests, expr=expr, label=label)


def int_list(x, m):
    if x == 0:
        return []
    if isinstance(x, m['Integral']):
        return [(str(x.domain), x.expr)]
    return [(str(a.domain), a.expr) for a in x.args]


def construct(case, m):
    """'ok' | exception class name"""
    buf = io.StringIO()
    try:
        with contextlib.redirect_stdout(buf):
            if case['bilinear']:
                m['BilinearForm']((tuple(case['trials']), tuple(case['tests'])), case['expr'])
            else:
                m['LinearForm'](tuple(case['tests']), case['expr'])
        return 'ok'
    except Exception as e:   # noqa
        return type(e).__name__


def request(ser, W, case, m):
    ints = [A('ints')] + [[A('int'), d, ser.ser(e)] for d, e in int_list(case['expr'], m)]
    if case['bilinear']:
        return 'C08 bilinear %d %s %s %s' % (W.dim, dumps([A('trials')] + [ser.ser(t) for t in case['trials']]),
                                             dumps([A('tests')] + [ser.ser(t) for t in case['tests']]), dumps(ints))
    return 'C08 linear %d %s %s' % (W.dim, dumps([A('args')] + [ser.ser(t) for t in case['tests']]), dumps(ints))


# --------------------------------------------------------------------------- the case streams

def stream(stage, tier, seed, n, m):
    """the deterministic sequence of candidate forms of one stage: (index, world, case | None, error | None).
    It depends on (stage, tier, seed) only, so that a replay file (which records them and the index)
    identifies its input exactly."""
    import random
    rng = random.Random('C08/%s/%s/%s' % (stage, tier, seed))
    World.count = {'corr': 0, 'oracle': 50000}[stage]
    W = None
    for i in range(n):
        if i % 10 == 0:
            W = World(rng, m)
        try:
            case = make_case(W, rng)
        except Exception as e:
            yield i, W, None, e
            continue
        yield i, W, case, None


def impl_answer(verdict):
    return {'ok': 'ok true', 'UnconsistentLinearExpressionError': 'ok false'}.get(verdict, 'err ' + verdict)


# --------------------------------------------------------------------------- correspondence

def correspondence(ctx):
    m = mods()
    c = Corr()
    ser = Ser()
    n = 4000 if ctx.thorough else 600
    cases = []
    for i, W, case, err in stream('corr', ctx.tier, ctx.seed, n, m):
        if case is None:
            c.count('unbuildable:' + type(err).__name__)
            continue
        if case['expr'] == 0:
            continue
        verdict = construct(case, m)
        try:
            line = request(ser, W, case, m)
        except Exception as e:
            c.count('unserialisable:' + type(e).__name__)
            continue
        cases.append((line, verdict, case['label'], str(case['expr'])[:300], case['bilinear'], i))
    outs = ctx.driver.run([x[0] for x in cases])
    for (line, verdict, label, shown, bil, i), out in zip(cases, outs):
        c.evaluations += 1
        impl = impl_answer(verdict)
        c.count('verdict:' + verdict)
        c.count('built:' + label.split(':')[-1] if label != 'linear' else 'built:linear')
        c.count('form:' + ('bilinear' if bil else 'linear'))
        if out != impl:
            c.disagreements.append({'input': {'line': line[:2500], 'expr': shown, 'label': label, 'op': 'verdict',
                                              'stage': 'corr', 'index': i},
                                    'impl': verdict, 'model': out, 'note': label})
        c.nontrivial.add(line)
        if len(c.samples) < 6 and len(shown) < 200:
            c.samples.append({'expr': shown, 'built': label, 'constructor': verdict, 'model': out})
    return c


# --------------------------------------------------------------------------- oracle

def make_inst(rng, W, m):
    from harness.inst import Inst

    class Inst2(Inst):
        def inst(self, e):
            if isinstance(e, m['NormalVector']):
                return m['Matrix']([m['Rational'](i + 2, 7) for i in range(self.dim)])
            return super().inst(e)
    return Inst2(rng, W.dim, W.x)


def value(inst, ints):
    return {d: inst.inst(e) for d, e in ints}


def rich_poly(rng, xs):
    """a polynomial none of whose low-order derivatives vanishes identically"""
    import sympy
    e = sympy.S.Zero
    for _ in range(4):
        t = sympy.S(rng.choice([-3, -2, -1, 1, 2, 3, 5]))
        for x in xs:
            t *= x ** rng.choice([1, 2, 3, 4])
        e += t
    return e + sum(x ** 4 for x in xs)


def close(a, b, xs, rng):
    """a == b (scalars), decided at two random rational points"""
    import sympy
    d = sympy.sympify(a) - sympy.sympify(b)
    if d == 0:
        return True
    for _ in range(2):
        pt = {x: sympy.Rational(rng.randint(2, 30), rng.randint(7, 13)) for x in xs}
        v = d.subs(pt)
        if v.is_Rational:
            if v != 0:
                return False
            continue
        try:
            n = sympy.N(v, 40)
            s = sympy.N(sympy.sympify(a).subs(pt), 40)
        except Exception:
            return None
        if not n.is_number or n.is_finite is not True:
            return None
        if abs(n) > sympy.Float('1e-25') * (1 + abs(s)):
            return False
    return True


def truth(W, rng, case, args, m):
    """True / False / None: is the integrand (every integral) jointly linear in `args`, numerically"""
    import copy
    import sympy
    ints = int_list(case['expr'], m)
    base = make_inst(rng, W, m)
    try:
        value(base, ints)       # fixes every symbol that occurs
    except NotImplementedError:
        return None
    # every function (fields and the other arguments too) gets a polynomial with non-vanishing derivatives
    base.sf = {n: rich_poly(rng, W.x) for n in base.sf}
    base.vf = {n: [rich_poly(rng, W.x) for _ in range(W.dim)] for n in base.vf}

    def with_args(fun):
        i2 = copy.copy(base)
        i2.sf, i2.vf = dict(base.sf), dict(base.vf)
        for a in args:
            if isinstance(a, m['VectorFunction']):
                i2.vf[a.name] = fun(a.name, True)
            else:
                i2.sf[a.name] = fun(a.name, False)
        return i2
    mk = lambda a: ([rich_poly(rng, W.x) for _ in range(W.dim)] if isinstance(a, m['VectorFunction']) else rich_poly(rng, W.x))
    L = {a.name: mk(a) for a in args}
    R = {a.name: mk(a) for a in args}
    al = sympy.Rational(rng.choice([3, 5, -2]), rng.choice([1, 2]))
    comb = lambda f: (lambda n, vec: [f(x, y) for x, y in zip(L[n], R[n])] if vec else f(L[n], R[n]))
    try:
        vl = value(with_args(lambda n, vec: L[n]), ints)
        vr = value(with_args(lambda n, vec: R[n]), ints)
        vs = value(with_args(comb(lambda x, y: x + y)), ints)
        va = value(with_args(lambda n, vec: [al * x for x in L[n]] if vec else al * L[n]), ints)
    except Exception:
        return None
    for d in vl:
        s1 = close(vs[d], vl[d] + vr[d], W.x, rng)
        s2 = close(va[d], al * vl[d], W.x, rng)
        if s1 is False or s2 is False:
            return False
        if s1 is None or s2 is None:
            return None
    return True


def judged(W, case, i, m):
    """the semantic verdict on case number i (its own random points, so that it can be recomputed)"""
    import random
    rng = random.Random('C08/truth/%d' % i)
    t = truth(W, rng, case, case['tests'], m)
    if t is True and case['bilinear']:
        t = truth(W, rng, case, case['trials'], m)
    return t


def oracle(ctx, factor, seeds):
    m = mods()
    o = Oracle()
    n = (1800 if ctx.thorough else 200) * factor
    for i, W, case, err in stream('oracle', ctx.tier, ctx.seed, n, m):
        if case is None:
            o.count('unbuildable:' + type(err).__name__)
            continue
        if case['expr'] == 0:
            continue
        verdict = construct(case, m)
        o.evaluations += 1
        if verdict not in ('ok', 'UnconsistentLinearExpressionError'):
            o.fail('raises:%s:%s' % (verdict, str(case['expr'])[:250]),
                   'constructing the %s form over %s from %s raises %s (neither success nor the linearity error)' % (
                       'bilinear' if case['bilinear'] else 'linear', case['tests'], str(case['expr'])[:250], verdict),
                   expr=str(case['expr']), label=case['label'], stage='oracle', index=i)
            continue
        t = judged(W, case, i, m)
        if t is None:
            o.count('truth-undecided')
            continue
        o.count('truth:%s:constructor:%s' % ('linear' if t else 'non-linear', verdict))
        o.count('built:' + case['label'])
        if t and verdict != 'ok':
            o.fail('false-reject:' + str(case['expr'])[:300],
                   'the integrand %s is additive and homogeneous in %s%s but the constructor raises the linearity error' % (
                       str(case['expr'])[:300], case['tests'], (' and in %s' % case['trials']) if case['bilinear'] else ''),
                   expr=str(case['expr']), label=case['label'], bilinear=case['bilinear'], stage='oracle', index=i)
        elif (not t) and verdict == 'ok':
            o.fail('false-accept:' + str(case['expr'])[:300],
                   'the integrand %s is not linear in its arguments (%s) but the %s form is accepted' % (
                       str(case['expr'])[:300], case['label'], 'bilinear' if case['bilinear'] else 'linear'),
                   expr=str(case['expr']), label=case['label'], bilinear=case['bilinear'], stage='oracle', index=i)
        if len(o.samples) < 4 and len(str(case['expr'])) < 160:
            o.samples.append({'expr': str(case['expr']), 'built': case['label'], 'truth': bool(t), 'constructor': verdict})
    return o


def replay(ctx, path):
    """regenerates the recorded case (stage, tier, seed, index) and re-evaluates it on the real code"""
    d = json.load(open(path))
    print(json.dumps(d, indent=1)[:3500])
    m = mods()
    det = d.get('detail') or {}
    if isinstance(det, str):
        try:
            import ast
            det = ast.literal_eval(det)
        except Exception:
            det = {}
    inp = det.get('input', det) if isinstance(det, dict) else {}
    if 'stage' not in inp and d.get('disagreements'):
        inp = d['disagreements'][0].get('input', {})
    stage, index = inp.get('stage'), inp.get('index')
    if stage is None or index is None:
        print('REPLAY: the file does not identify a case')
        return 2
    index = int(index)
    found = None
    for i, W, case, err in stream(stage, d.get('tier'), d.get('seed'), index + 1, m):
        if i == index:
            found = (W, case)
    if found is None or found[1] is None:
        print('REPLAY: case %s/%d cannot be regenerated' % (stage, index))
        return 2
    W, case = found
    verdict = construct(case, m)
    print('REPLAY: case %s/%d: %s' % (stage, index, str(case['expr'])[:400]))
    print('REPLAY: constructor verdict: %s' % verdict)
    if stage == 'corr':
        line = request(Ser(), W, case, m)
        out = ctx.driver.run([line])[0]
        print('REPLAY: model verdict: %s' % out)
        if out != impl_answer(verdict):
            print('REPLAY: still disagreeing')
            return 1
        print('REPLAY: the constructor and the model agree now')
        return 0
    if verdict not in ('ok', 'UnconsistentLinearExpressionError'):
        print('REPLAY: still raising %s' % verdict)
        return 1
    t = judged(W, case, index, m)
    print('REPLAY: semantic verdict (additive and homogeneous on polynomial instances): %s' % t)
    if t is not None and t != (verdict == 'ok'):
        print('REPLAY: still failing')
        return 1
    print('REPLAY: the recorded case no longer fails')
    return 0
