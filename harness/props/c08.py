"""C08 — linearity verdict at form construction: correspondence with Model/Linear.lean and
independent oracle (numeric additivity / homogeneity of the integrand on concrete instantiations)."""
import contextlib
import io
import json

from harness.common import Corr, Oracle
from harness.sexp import A, dumps
from harness.exprser import Ser

PID = 'C08'
PROPS_MODULE = 'SympdeModel.Props.C08'
RULE = ('integrands on Square/Cube for LinearForm / BilinearForm over scalar, vector and product arguments: sums of '
        'linear terms (products with coefficient fields, Constants, rationals, coordinates; dx/dy, grad, div, curl, '
        'laplace, dot, inner, cross with a field; boundary terms with the normal vector; domain + boundary sums), '
        '45 % perturbed by one non-linear edit (constant term, square, product of the argument with itself / its '
        'derivative / the other component of a product argument, sin / exp / sqrt of the argument, missing argument, '
        'argument in a denominator).  One case = one constructor call; non-trivial = every case (the verdict is computed '
        'by substitution, re-evaluation and expansion); distinct by request line')
ASSUMPTIONS = [
    'the model compares by polynomial normal form over maximal non-arithmetic sub-terms (verified normaliser); sympy '
    'uses expand(): agreement of the two is what the correspondence checks',
    'substitution re-runs the operator constructors (Model/Calc.lean, property C02) and the linear part of dx / F[i]',
    'ground truth of the oracle: additivity and homogeneity of the classical value of the integrand for two draws of '
    'polynomial functions (joint linearity in all components of a product argument)',
]
MIN_NONTRIVIAL = 40


def mods():
    import sympy
    from sympy import Tuple, S, Rational, Matrix, ImmutableDenseMatrix, sin, exp, sqrt
    from sympde.topology import Square, Cube, ScalarFunctionSpace, VectorFunctionSpace, NormalVector
    from sympde.topology.space import ScalarFunction, VectorFunction
    from sympde.calculus import grad, dot, div, inner, laplace, curl, cross
    from sympde.topology.derivatives import dx, dy, dz
    from sympde.expr import BilinearForm, LinearForm, integral
    from sympde.expr.expr import Integral, IntAdd
    from sympde.expr.errors import UnconsistentLinearExpressionError
    from sympde.core import Constant
    return locals()


class World:
    count = 0

    def __init__(self, rng, m):
        World.count += 1
        k = World.count
        self.m = m
        self.dim = rng.choice([2, 2, 3])
        self.domain = (m['Square'] if self.dim == 2 else m['Cube'])('Om08_%d' % k)
        self.bnd = self.domain.boundary
        self.faces = list(self.bnd.args)
        self.V = m['ScalarFunctionSpace']('V08_%d' % k, self.domain)
        self.W = m['VectorFunctionSpace']('W08_%d' % k, self.domain)
        sfx = '%d' % k
        mk = lambda sp, names: [sp.element(n + sfx) for n in names]
        self.u, self.v, self.f, self.g = mk(self.V, ['u', 'v', 'f', 'g'])
        self.F, self.G, self.B = mk(self.W, ['F', 'G', 'B'])
        self.k1 = m['Constant']('kap' + sfx)
        self.nn = m['NormalVector']('nn')
        self.D1 = [m['dx'], m['dy'], m['dz']][:self.dim]
        self.x = list(self.domain.coordinates)


def coef(W, rng):
    m = W.m
    return rng.choice([1, 1, 2, m['Rational'](1, 2), W.k1, W.f, W.x[0], W.f * W.x[1], W.g + 1])


def lin_scalar(W, rng, v):
    """an expression linear in the scalar function v"""
    m = W.m
    d = rng.choice(W.D1)
    return rng.choice([v, d(v), m['laplace'](v), m['dot'](W.B, m['grad'](v)), d(rng.choice(W.D1)(v)),
                       m['dot'](m['grad'](v), m['grad'](W.f))])


def lin_vector(W, rng, G):
    """a scalar expression linear in the vector function G"""
    m = W.m
    opts = [m['dot'](G, W.B), m['div'](G), G[0], G[W.dim - 1], m['inner'](m['grad'](G), m['grad'](W.B)), rng.choice(W.D1)(G[0])]
    if W.dim == 3:
        opts += [m['dot'](m['curl'](G), W.B), m['dot'](m['cross'](G, W.B), W.B + W.F) if False else m['dot'](m['curl'](G), m['curl'](W.B))]
    else:
        opts += [m['curl'](G), m['cross'](G, W.B)]
    return rng.choice(opts)


def lin_of(W, rng, a):
    return lin_vector(W, rng, a) if isinstance(a, W.m['VectorFunction']) else lin_scalar(W, rng, a)


def nonlinear_edit(W, rng, args, others):
    """(label, extra term or None, replace-all?) — a term that is not linear in `args` (jointly)"""
    m = W.m
    a = rng.choice(args)
    vec = isinstance(a, m['VectorFunction'])
    prod_other = 1
    for o in others:
        prod_other = prod_other * lin_of(W, rng, o)
    la = lin_of(W, rng, a)
    k = rng.random()
    if k < 0.14:
        return 'constant', rng.choice([1, W.f, W.k1, W.f * W.x[0]]) * prod_other
    if k < 0.28:
        return 'square', la ** 2 * prod_other
    if k < 0.42:
        lb = lin_of(W, rng, a)
        return 'self-product', la * lb * prod_other
    if k < 0.52:
        return 'sin', m['sin'](la) * prod_other
    if k < 0.60:
        return 'exp', m['exp'](la) * prod_other
    if k < 0.66:
        return 'sqrt', m['sqrt'](la ** 2 + 1) * prod_other
    if k < 0.74:
        return 'denominator', prod_other * W.f / (la + 2)
    if k < 0.86 and len(args) >= 2:
        b = [x for x in args if x is not a][0]
        return 'cross-product-of-components', lin_of(W, rng, a) * lin_of(W, rng, b) * prod_other
    return 'cube', la ** 3 * prod_other


def make_case(W, rng):
    """returns dict(kind, args…, expr, label) — the integral expression of a candidate form"""
    m = W.m
    integral = m['integral']
    bilinear = rng.random() < 0.5
    shape = rng.choice(['scalar', 'scalar', 'vector', 'product'])
    if shape == 'scalar':
        tests, trials = [W.v], [W.u]
    elif shape == 'vector':
        tests, trials = [W.G], [W.F]
    else:
        tests, trials = [W.v, W.G], [W.u, W.F]
    if not bilinear:
        trials = []

    def term():
        t = coef(W, rng) * lin_of(W, rng, rng.choice(tests))
        if bilinear:
            t = t * lin_of(W, rng, rng.choice(trials))
        return t

    body = sum((term() for _ in range(rng.choice([1, 2, 2, 3]))), m['S'].Zero)
    label = 'linear'
    if rng.random() < 0.45:
        if bilinear and rng.random() < 0.5:
            label, extra = nonlinear_edit(W, rng, trials, tests)
            label = 'trial:' + label
        else:
            label, extra = nonlinear_edit(W, rng, tests, trials)
            label = 'test:' + label
        body = body + extra
    expr = integral(W.domain, body)
    k = rng.random()
    if k < 0.3:
        a = rng.choice(tests)
        bt = (m['dot'](a, W.nn) if isinstance(a, m['VectorFunction']) else a) * rng.choice([1, W.k1, W.f])
        if bilinear:
            b = rng.choice(trials)
            bt = bt * (m['dot'](b, W.nn) if isinstance(b, m['VectorFunction']) else b)
        if label == 'linear' and rng.random() < 0.15:
            bt = bt + rng.choice([1, W.f])
            label = 'boundary:constant'
        expr = expr + integral(W.bnd if rng.random() < 0.5 else rng.choice(W.faces), bt)
    return dict(bilinear=bilinear, trials=trials, tests=tests, expr=expr, label=label)


def int_list(x, m):
    if x == 0:
        return []
    if isinstance(x, m['Integral']):
        return [(str(x.domain), x.expr)]
    return [(str(a.domain), a.expr) for a in x.args]


def construct(case, m):
    """'ok' | exception class name"""
    buf = io.StringIO()
    try:
        with contextlib.redirect_stdout(buf):
            if case['bilinear']:
                m['BilinearForm']((tuple(case['trials']), tuple(case['tests'])), case['expr'])
            else:
                m['LinearForm'](tuple(case['tests']), case['expr'])
        return 'ok'
    except Exception as e:   # noqa
        return type(e).__name__


def request(ser, W, case, m):
    ints = [A('ints')] + [[A('int'), d, ser.ser(e)] for d, e in int_list(case['expr'], m)]
    if case['bilinear']:
        return 'C08 bilinear %d %s %s %s' % (W.dim, dumps([A('trials')] + [ser.ser(t) for t in case['trials']]),
                                             dumps([A('tests')] + [ser.ser(t) for t in case['tests']]), dumps(ints))
    return 'C08 linear %d %s %s' % (W.dim, dumps([A('args')] + [ser.ser(t) for t in case['tests']]), dumps(ints))


# --------------------------------------------------------------------------- correspondence

def correspondence(ctx):
    m = mods()
    c = Corr()
    rng = ctx.rng
    ser = Ser()
    n = 1500 if ctx.thorough else 260
    cases = []
    W = None
    for i in range(n):
        if i % 10 == 0:
            W = World(rng, m)
        try:
            case = make_case(W, rng)
        except Exception as e:
            c.count('unbuildable:' + type(e).__name__)
            continue
        if case['expr'] == 0:
            continue
        verdict = construct(case, m)
        try:
            line = request(ser, W, case, m)
        except Exception as e:
            c.count('unserialisable:' + type(e).__name__)
            continue
        cases.append((line, verdict, case['label'], str(case['expr'])[:300], case['bilinear']))
    outs = ctx.driver.run([x[0] for x in cases])
    for (line, verdict, label, shown, bil), out in zip(cases, outs):
        c.evaluations += 1
        impl = {'ok': 'ok true', 'UnconsistentLinearExpressionError': 'ok false'}.get(verdict, 'err ' + verdict)
        c.count('verdict:' + verdict)
        c.count('built:' + label.split(':')[-1] if label != 'linear' else 'built:linear')
        c.count('form:' + ('bilinear' if bil else 'linear'))
        if out != impl:
            c.disagreements.append({'input': {'line': line[:2500], 'expr': shown, 'label': label, 'op': 'verdict'},
                                    'impl': verdict, 'model': out, 'note': label})
        c.nontrivial.add(line)
        if len(c.samples) < 6 and len(shown) < 200:
            c.samples.append({'expr': shown, 'built': label, 'constructor': verdict, 'model': out})
    return c


# --------------------------------------------------------------------------- oracle

def make_inst(rng, W, m):
    from harness.inst import Inst

    class Inst2(Inst):
        def inst(self, e):
            if isinstance(e, m['NormalVector']):
                return m['Matrix']([m['Rational'](i + 2, 7) for i in range(self.dim)])
            return super().inst(e)
    return Inst2(rng, W.dim, W.x, trig=True)


def value(inst, ints):
    return {d: inst.inst(e) for d, e in ints}


def truth(W, rng, case, args, m):
    """True / False / None: is the integrand (every integral) jointly linear in `args`, numerically"""
    import copy
    import sympy
    from harness.inst import same_value
    ints = int_list(case['expr'], m)
    for draw in range(2):
        base = make_inst(rng, W, m)
        try:
            value(base, ints)       # fixes every symbol that occurs
        except NotImplementedError:
            return None

        def with_args(fun):
            i2 = copy.copy(base)
            i2.sf, i2.vf = dict(base.sf), dict(base.vf)
            for a in args:
                if isinstance(a, m['VectorFunction']):
                    i2.vf[a.name] = fun(a.name, True)
                else:
                    i2.sf[a.name] = fun(a.name, False)
            return i2
        L = {a.name: ([base.rand_poly() for _ in range(W.dim)] if isinstance(a, m['VectorFunction']) else base.rand_poly()) for a in args}
        R = {a.name: ([base.rand_poly() for _ in range(W.dim)] if isinstance(a, m['VectorFunction']) else base.rand_poly()) for a in args}
        al = sympy.Rational(rng.choice([3, 5, -2]), rng.choice([1, 2]))
        comb = lambda f: (lambda n, vec: [f(x, y) for x, y in zip(L[n], R[n])] if vec else f(L[n], R[n]))
        try:
            vl = value(with_args(lambda n, vec: L[n]), ints)
            vr = value(with_args(lambda n, vec: R[n]), ints)
            vs = value(with_args(comb(lambda x, y: x + y)), ints)
            va = value(with_args(lambda n, vec: [al * x for x in L[n]] if vec else al * L[n]), ints)
        except Exception:
            return None
        for d in vl:
            s1 = same_value(vs[d], vl[d] + vr[d], W.x, rng)
            s2 = same_value(va[d], al * vl[d], W.x, rng)
            if s1 is False or s2 is False:
                return False
            if s1 is None or s2 is None:
                return None
    return True


FIXED = []


def oracle(ctx, factor, seeds):
    m = mods()
    o = Oracle()
    rng = ctx.rng
    n = (700 if ctx.thorough else 130) * factor
    W = None
    for i in range(n):
        if i % 10 == 0:
            W = World(rng, m)
        try:
            case = make_case(W, rng)
        except Exception as e:
            o.count('unbuildable:' + type(e).__name__)
            continue
        if case['expr'] == 0:
            continue
        verdict = construct(case, m)
        o.evaluations += 1
        if verdict not in ('ok', 'UnconsistentLinearExpressionError'):
            o.fail('raises:%s:%s' % (verdict, str(case['expr'])[:250]),
                   'constructing the %s form over %s from %s raises %s (neither success nor the linearity error)' % (
                       'bilinear' if case['bilinear'] else 'linear', case['tests'], str(case['expr'])[:250], verdict),
                   expr=str(case['expr']), label=case['label'])
            continue
        t = truth(W, rng, case, case['tests'], m)
        if t is True and case['bilinear']:
            t = truth(W, rng, case, case['trials'], m)
        if t is None:
            o.count('truth-undecided')
            continue
        o.count('truth:%s:constructor:%s' % ('linear' if t else 'non-linear', verdict))
        o.count('built:' + case['label'])
        if t and verdict != 'ok':
            o.fail('false-reject:' + str(case['expr'])[:300],
                   'the integrand %s is additive and homogeneous in %s%s but the constructor raises the linearity error' % (
                       str(case['expr'])[:300], case['tests'], (' and in %s' % case['trials']) if case['bilinear'] else ''),
                   expr=str(case['expr']), label=case['label'], bilinear=case['bilinear'])
        elif (not t) and verdict == 'ok':
            o.fail('false-accept:' + str(case['expr'])[:300],
                   'the integrand %s is not linear in its arguments (%s) but the %s form is accepted' % (
                       str(case['expr'])[:300], case['label'], 'bilinear' if case['bilinear'] else 'linear'),
                   expr=str(case['expr']), label=case['label'], bilinear=case['bilinear'])
        if len(o.samples) < 4 and len(str(case['expr'])) < 160:
            o.samples.append({'expr': str(case['expr']), 'built': case['label'], 'truth': bool(t), 'constructor': verdict})
    return o


def replay(ctx, path):
    d = json.load(open(path))
    print(json.dumps(d, indent=1)[:3500])
    print('REPLAY: random integrand; re-run `VERIF_SEED=%s ./check C08 --tier %s` to regenerate it' % (d.get('seed'), d.get('tier')))
    return 0
