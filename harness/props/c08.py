"""C08 — linearity verdict at form construction: correspondence with Model/Linear.lean and
independent oracle (ground truth known by construction, cross-checked by numeric additivity /
homogeneity of the integrand on concrete instantiations)."""
import contextlib
import io
import json

from harness.common import Corr, Oracle
from harness.sexp import A, dumps
from harness.exprser import Ser

PID = 'C08'
PROPS_MODULE = 'SympdeModel.Props.C08'
RULE = ('integrands on Square/Cube for LinearForm / BilinearForm over scalar, vector and product arguments (product '
        'arguments with 2-3 scalar components, 2 vector components, and mixed ones): sums of linear terms (products with '
        'coefficient fields, Constants, rationals, coordinates; dx/dy, grad, div, curl, laplace, dot, inner, cross with a '
        'field; differences of two components of a product argument; boundary terms with the normal vector; domain + '
        'boundary sums), about half of them perturbed by one non-linear edit (constant term, square, product of the '
        'argument with itself / its derivative / another component of a product argument, sin / exp / sqrt of the '
        'argument, argument in a denominator; edits that VANISH when two same-kind components of a product argument are '
        'identified: a*(a-b), (op a - op b)**2, a**2/b, dot(A-B, A); integrands, or single integrals of a domain + '
        'boundary sum, in which one argument group does not occur at all: no test function, no trial function, pure '
        'coefficient / coordinate integrands; sums over two regions whose integrands are lin + N and lin - N, N '
        'non-linear or constant: each region non-linear, cancelling only across regions).  Linear ones also with '
        'top-level summands that are individually non-linear but cancel by a polynomial identity inside one integrand '
        '((a+c)**2 - a**2 - c**2, a*(a+c) - a**2, ...).  Floating-point numbers (0.1, 0.2, 0.3, 0.7, 1e-3, 2.5, ...) are in the '
        'coefficient pool of linear and non-linear cases; 8 % of the cases are linear with SEVERAL float contributions to '
        'one monomial, one hidden in a factor ((x+0.1)*t + 0.2*t [+ 0.7*t - 0.3*t]), also on boundaries.  5 % of the linear scalar '
        'terms are NESTED operators holding the gradient of a product with two coefficients (dot(cross(grad(f*g*v), B), C), '
        'inner(outer(grad(f*g*v), B), grad(C)), dot(convect(grad(f*g*v), B), C)); 7 % of the cases involve TWO INSTANCES of an '
        'argument function (same name, space declared again with kind h1 or under another name: equal, different hash): '
        'declared with one and written with the other, or both in one integrand (one more linear term; a product with one '
        'factor per instance = quadratic).  A fixed corpus (u1*(u1-u2)*v1, f*(v1-v2)**2, x*y without test '
        'function, x*v without trial function, int_Om(f*v+v**2)+int_Ga(x*v-v**2), (v+f)**2-v**2-f**2, (x+0.1)*v+0.2*v, (f+0.3)*v+0.7*v, '
        'LinearForm(v_h1, f*v+grad(v).grad(f)), f*v*v_h1, dot(cross(grad(f*g*v), B), C), v*dot(convect(grad(f*g*v), B), C), ...) runs '
        'first on '
        'every seed.  One case = one constructor call; non-trivial = '
        'every case (the verdict is computed by substitution, re-evaluation and expansion); distinct by request line')
ASSUMPTIONS = [
    'the model compares by polynomial normal form over maximal non-arithmetic sub-terms (verified normaliser); sympy '
    'uses expand(): agreement of the two is what the correspondence checks',
    'floats: the serialiser sends a Float as its exact rational value, the oracle instantiates it by the same rational: '
    'linearity does not depend on the numeric type, both decide it in exact arithmetic',
    'substitution re-runs the operator constructors (Model/Calc.lean, property C02) and the linear part of dx / F[i]',
    'ground truth of the oracle: known by construction (a sum of terms each linear in one component of every argument '
    'group is linear, also after adding summands that cancel by a polynomial identity; one added term of a listed '
    'non-linear class in some region — even if compensated in ANOTHER region — or the absence of an argument group, '
    'makes it non-linear), and confirmed case by case by additivity and homogeneity of the classical value of the integrand '
    'for two draws of polynomial functions (joint linearity in all components of a product argument; the components '
    'get independent polynomials); a case on which the two disagree is not judged',
]
MIN_NONTRIVIAL = 40


def mods():
    import sympy
    from sympy import Tuple, S, Rational, Matrix, ImmutableDenseMatrix, sin, exp, sqrt
    from sympde.topology import Square, Cube, ScalarFunctionSpace, VectorFunctionSpace, NormalVector
    from sympde.topology.space import ScalarFunction, VectorFunction
    from sympde.calculus import grad, dot, div, inner, laplace, curl, cross, outer, convect, Laplace
    from sympde.topology.derivatives import dx, dy, dz
    from sympde.expr import BilinearForm, LinearForm, integral
    from sympde.expr.expr import Integral, IntAdd
    from sympde.expr.errors import UnconsistentLinearExpressionError
    from sympde.core import Constant
    return locals()


class World:
    count = 0

    def __init__(self, rng, m, dim=None):
        World.count += 1
        k = World.count
        self.m = m
        self.dim = dim if dim is not None else rng.choice([2, 2, 3])
        self.domain = (m['Square'] if self.dim == 2 else m['Cube'])('Om08_%d' % k)
        self.bnd = self.domain.boundary
        self.faces = list(self.bnd.args)
        self.V = m['ScalarFunctionSpace']('V08_%d' % k, self.domain)
        self.W = m['VectorFunctionSpace']('W08_%d' % k, self.domain)
        sfx = '%d' % k
        mk = lambda sp, names: [sp.element(n + sfx) for n in names]
        self.u, self.v, self.f, self.g = mk(self.V, ['u', 'v', 'f', 'g'])
        self.F, self.G, self.B = mk(self.W, ['F', 'G', 'B'])
        # further components of product arguments, taken from the SAME spaces
        self.ub, self.uc, self.vb, self.vc = mk(self.V, ['ub', 'uc', 'vb', 'vc'])
        self.Fb, self.Gb = mk(self.W, ['Fb', 'Gb'])
        self.C = mk(self.W, ['C'])[0]       # a second coefficient vector field
        # OTHER INSTANCES of the argument functions: the functions declared again, with the same names, in spaces declared
        # again.  For sympde they are the same functions (== compares the names); they hash differently (the hash
        # includes the space).  Two variants: 'h1' = the spaces declared again under the same names with kind='h1' (sympde
        # types laplace(.) away on H1 functions: not used with laplace), 'name' = declared again under other names.
        self.alt = {}
        for var, Va, Wa in (('h1', m['ScalarFunctionSpace']('V08_%d' % k, self.domain, kind='h1'),
                             m['VectorFunctionSpace']('W08_%d' % k, self.domain, kind='h1')),
                            ('name', m['ScalarFunctionSpace']('V08_%d_again' % k, self.domain),
                             m['VectorFunctionSpace']('W08_%d_again' % k, self.domain))):
            for a in (self.u, self.ub, self.uc, self.v, self.vb, self.vc):
                self.alt[var, a.name] = Va.element(a.name)
            for a in (self.F, self.Fb, self.G, self.Gb):
                self.alt[var, a.name] = Wa.element(a.name)
        self.k1 = m['Constant']('kap' + sfx)
        self.nn = m['NormalVector']('nn')
        self.D1 = [m['dx'], m['dy'], m['dz']][:self.dim]
        from harness.inst import PHYS
        self.x = list(PHYS[:self.dim])      # the symbols dx, dy, dz differentiate with respect to

    def group(self, side, shape):
        """the components of an argument group: side 'test' | 'trial', shape a word over s (scalar), v (vector)"""
        sc = [self.v, self.vb, self.vc] if side == 'test' else [self.u, self.ub, self.uc]
        ve = [self.G, self.Gb] if side == 'test' else [self.F, self.Fb]
        out, i, j = [], 0, 0
        for ch in shape:
            if ch == 's':
                out.append(sc[i]); i += 1
            else:
                out.append(ve[j]); j += 1
        return out


SHAPES = ['s', 's', 's', 'v', 'v', 'sv', 'ss', 'ss', 'sss', 'vv', 'ssv', 'svv']


def is_vec(a, m):
    return isinstance(a, m['VectorFunction'])


FLOATS = [0.1, 0.2, 0.3, 0.7, 1e-3, 2.5, 0.5, 0.25, 1.1, 0.6]


def fl(rng, m):
    """a floating-point number (sympy Float): most of them are not exact in binary"""
    return m['sympy'].Float(rng.choice(FLOATS))


def coef(W, rng):
    m = W.m
    if rng.random() < 0.15:
        return rng.choice([fl(rng, m), W.x[0] + fl(rng, m), W.f + fl(rng, m), fl(rng, m) * W.k1])
    return rng.choice([1, 1, 2, m['Rational'](1, 2), W.k1, W.f, W.x[0], W.f * W.x[1], W.g + 1])


def float_contributions(W, rng, tests, trials):
    """several floating-point contributions to the SAME monomial, one of them hidden in a factor: linear in both groups
    (whether a number is a float or a rational is irrelevant for linearity)"""
    m = W.m
    t = lin_in_group(W, rng, tests)
    if trials:
        t = t * lin_in_group(W, rng, trials)
    c = rng.choice([W.x[0], W.f, W.k1, W.x[0] * W.f])
    e = (c + fl(rng, m)) * t + fl(rng, m) * t
    if rng.random() < 0.4:
        e = e + fl(rng, m) * t
    if rng.random() < 0.3:
        e = e - fl(rng, m) * t
    return e


def nested_lin(W, rng, v):
    """linear in the scalar function v: an algebraic operator nested in another one, the inner one holding the gradient
    of a product with two coefficients — after the substitution v -> l + r the product rule leaves a sum inside a product
    inside a sum (f*g*(grad l + grad r) + (l + r)*(f*grad g + g*grad f)) in the inner operator"""
    m = W.m
    dot, cross, inner, outer, convect, grad = m['dot'], m['cross'], m['inner'], m['outer'], m['convect'], m['grad']
    c1, c2 = rng.choice([(W.f, W.g), (W.f, W.g), (W.g, W.f), (W.f, W.x[0]), (W.x[1], W.g)])
    gv = grad(c1 * c2 * v)
    opts = [inner(outer(gv, W.B), grad(W.C)), dot(convect(gv, W.B), W.C), dot(W.C, convect(gv, W.B)),
            inner(outer(gv, W.C), grad(W.B))]
    if W.dim == 3:
        opts += [dot(cross(gv, W.B), W.C), dot(W.C, cross(W.B, gv)), dot(cross(gv, W.C), W.B),
                 dot(cross(gv, W.B), m['curl'](W.C))]
    return rng.choice(opts)


def lin_scalar(W, rng, v):
    """an expression linear in the scalar function v"""
    m = W.m
    if rng.random() < P_NESTED:
        return nested_lin(W, rng, v)
    d = rng.choice(W.D1)
    return rng.choice([v, d(v), m['laplace'](v), m['dot'](W.B, m['grad'](v)), d(rng.choice(W.D1)(v)),
                       m['dot'](m['grad'](v), m['grad'](W.f))])


def lin_vector(W, rng, G):
    """a scalar expression linear in the vector function G"""
    m = W.m
    opts = [m['dot'](G, W.B), m['div'](G), G[0], G[W.dim - 1], m['inner'](m['grad'](G), m['grad'](W.B)), rng.choice(W.D1)(G[0])]
    if W.dim == 3:
        opts += [m['dot'](m['curl'](G), W.B), m['dot'](m['curl'](G), m['curl'](W.B))]
    else:
        opts += [m['curl'](G), m['cross'](G, W.B)]
    return rng.choice(opts)


def lin_of(W, rng, a):
    return lin_vector(W, rng, a) if is_vec(a, W.m) else lin_scalar(W, rng, a)


def same_op(W, rng, vec):
    """ONE scalar-valued linear operator, to be applied to two different components of the same kind"""
    m = W.m
    d = rng.choice(W.D1)
    if vec:
        return rng.choice([lambda t: m['dot'](t, W.B), m['div'], lambda t: t[0], lambda t: t[W.dim - 1], lambda t: d(t[0])])
    return rng.choice([lambda t: t, lambda t: t, d, m['laplace'], lambda t: m['dot'](W.B, m['grad'](t))])


def same_kind_pairs(args, m):
    return [(a, b) for a in args for b in args if a is not b and is_vec(a, m) == is_vec(b, m)]


def lin_in_group(W, rng, args):
    """a scalar expression linear in the argument group (jointly): one component, or — for a product argument with two
    components of the same kind — sometimes the difference of the same operator on two of them"""
    pairs = same_kind_pairs(args, W.m)
    if pairs and rng.random() < 0.3:
        a, b = rng.choice(pairs)
        op = same_op(W, rng, is_vec(a, W.m))
        return op(a) - rng.choice([1, 1, 2]) * op(b)
    return lin_of(W, rng, rng.choice(args))


def diagonal_edit(W, rng, pair, other):
    """(label, term): not linear in the pair (a, b) of DIFFERENT components of one product argument, but linear (mostly
    zero) as soon as a and b are identified"""
    m = W.m
    a, b = pair
    vec = is_vec(a, m)
    op = same_op(W, rng, vec)
    k = rng.random()
    if k < 0.30:
        return 'diag:difference-product', rng.choice([op(a), op(b), lin_of(W, rng, a)]) * (op(a) - op(b)) * other
    if k < 0.55:
        return 'diag:difference-square', coef(W, rng) * (op(a) - op(b)) ** 2 * other
    if k < 0.70:
        if vec:
            return 'diag:difference-dot', m['dot'](a - b, rng.choice([a, b, a - b])) * other
        return 'diag:difference-product', (a - b) * lin_of(W, rng, rng.choice([a, b])) * other
    if k < 0.85:
        p, q = (a[0], b[0]) if vec else (a, b)
        return 'diag:ratio', p ** 2 / q * other
    op2 = same_op(W, rng, vec)
    return 'diag:difference-product', (op(a) - op(b)) * (op2(a) - op2(b)) * other


def nonlinear_edit(W, rng, args, others):
    """(label, extra term) — a term that is not linear in `args` (jointly); it is linear in the other group"""
    m = W.m
    a = rng.choice(args)
    vec = is_vec(a, m)
    prod_other = lin_in_group(W, rng, others) if others else 1
    pairs = same_kind_pairs(args, m)
    if pairs and rng.random() < 0.45:
        return diagonal_edit(W, rng, rng.choice(pairs), prod_other)
    if len(args) >= 2 and rng.random() < 0.2:
        b = rng.choice([x for x in args if x is not a])
        if vec and is_vec(b, m) and rng.random() < 0.5:
            return 'product-of-components', m['dot'](a, b) * prod_other
        return 'product-of-components', lin_of(W, rng, a) * lin_of(W, rng, b) * prod_other
    la = lin_of(W, rng, a)
    k = rng.random()
    if k < 0.16:
        return 'constant', rng.choice([1, W.f, W.k1, W.f * W.x[0]]) * prod_other
    if k < 0.30:
        return 'square', la ** 2 * prod_other
    if k < 0.46:
        lb = lin_of(W, rng, a)
        return 'self-product', la * lb * prod_other
    if k < 0.56:
        return 'sin', m['sin'](la) * prod_other
    if k < 0.64:
        return 'exp', m['exp'](la) * prod_other
    if k < 0.70:
        return 'sqrt', m['sqrt'](la ** 2 + 1) * prod_other
    if k < 0.78:
        return 'denominator', prod_other * W.f / (la + 2)
    if k < 0.86:
        # homogeneous of degree one, not additive: only the additivity test can reject it
        d = rng.choice(W.D1)
        if vec:
            p, q = rng.choice([(a[0], a[W.dim - 1]), (d(a[0]), a[0]), (a[W.dim - 1], d(a[0]))])
        else:
            p, q = rng.choice([(a, d(a)), (d(a), a), (d(a), d(d(a)))])
        return 'ratio', p ** 2 / q * prod_other
    return 'cube', la ** 3 * prod_other


def free_of_args(W, rng):
    """a non-zero scalar expression without any argument: coordinates, coefficient fields, constants"""
    m = W.m
    return rng.choice([W.x[0] * W.x[1], W.f, W.f * W.x[0], W.k1, W.k1 * W.x[1] + 1, m['div'](W.B) * W.f,
                       m['dot'](W.B, m['grad'](W.f)), W.g + 1, m['S'].One, W.x[0] ** 2])


def bnd_factor(W, a):
    return W.m['dot'](a, W.nn) if is_vec(a, W.m) else a


def argfree_case(W, rng, bilinear, tests, trials):
    """an expression in which one whole argument group does not occur (constant in it, hence not linear)"""
    m = W.m
    integral = m['integral']
    if not bilinear:
        missing, present = 'test', []
    else:
        missing, present = rng.choice([('trial', tests), ('trial', tests), ('test', trials), ('both', [])])

    def body():
        if not present:
            return free_of_args(W, rng)
        return sum((coef(W, rng) * lin_in_group(W, rng, present) for _ in range(rng.choice([1, 1, 2]))), m['S'].Zero)
    expr = integral(W.domain, body())
    if rng.random() < 0.35:
        bt = m['S'](rng.choice([1, W.f, W.k1])) * (bnd_factor(W, rng.choice(present)) if present else rng.choice([1, W.f, m['dot'](W.B, W.nn)]))
        expr = expr + integral(W.bnd if rng.random() < 0.5 else rng.choice(W.faces), bt)
    return expr, 'argfree:no-%s' % missing


def cancelling_terms(W, rng, tests, trials):
    """a sum of top-level terms, each of them NOT linear in one argument group, whose non-linear parts cancel: the sum is
    linear in both groups (polynomial identities only: what expansion decides).  The common factor is distributed by
    hand so that the terms stay separate summands of the integrand."""
    if trials and rng.random() < 0.5:
        grp, oth = trials, tests
    else:
        grp, oth = tests, trials
    la = lin_in_group(W, rng, grp)
    o = lin_in_group(W, rng, oth) if oth else W.m['S'].One
    c = rng.choice([W.f, W.x[0], W.k1, W.g + 1, W.m['S'](2), W.f * W.x[1]])
    k = rng.random()
    if k < 0.25:
        return (la + c) ** 2 * o - la ** 2 * o - c ** 2 * o                       # = 2 c la o
    if k < 0.45:
        return la * (la + c) * o - la ** 2 * o                                    # = c la o
    if k < 0.65:
        return la * o * (1 + c * la) - c * la ** 2 * o                            # = la o
    if k < 0.80:
        lb = lin_in_group(W, rng, grp)
        return (la + lb) ** 2 * o - (la - lb) ** 2 * o - 4 * la * lb * o          # = 0
    if k < 0.90:
        return (la + c) ** 3 * o - la ** 3 * o - 3 * c * la ** 2 * o - c ** 3 * o  # = 3 c**2 la o
    return c * la ** 2 * o + la * (o - c * la * o)                                # = la o


def alt(W, a, variant='h1'):
    """another instance of the function a (equal to a, another hash)"""
    return W.alt[variant, a.name]


def other_instances(W, rng, case):
    """rewrites a case with two INSTANCES of its argument functions: the declared argument is not the object the
    integrand was written with (mode 'declared'), or both instances occur in the integrand (mode 'mixed': one more
    linear term, or a product with one factor per instance — the square of a linear expression).  sympde identifies
    functions by name, so do the ground truth (harness/inst.py instantiates by name) and the serialiser (Ser08)."""
    m = W.m
    bil, label = case['bilinear'], case['label']
    var = 'h1' if (rng.random() < 0.5 and not case['expr'].atoms(m['Laplace'])) else 'name'
    if rng.random() < 0.5 or not is_linear_label(label):
        sides = rng.choice(['tests', 'trials', 'both']) if bil else 'tests'
        for side in ('tests', 'trials'):
            if sides in (side, 'both'):
                g = list(case[side])
                j = rng.randrange(len(g))
                case[side] = [alt(W, a, var) if (i == j or rng.random() < 0.5) else a for i, a in enumerate(g)]
        case['instances'] = 'declared-other:' + var
        return case
    if bil and rng.random() < 0.5:
        side, grp, oth = 'trial', case['trials'], case['tests']
    else:
        side, grp, oth = 'test', case['tests'], case['trials']
    a = rng.choice(grp)
    o = lin_in_group(W, rng, oth) if oth else m['S'].One
    if rng.random() < 0.5:
        term = coef(W, rng) * lin_of(W, rng, alt(W, a, 'name')) * o
        case['instances'] = 'mixed-linear'
    else:
        term = rng.choice([1, W.f, W.x[0]]) * lin_of(W, rng, a) * lin_of(W, rng, alt(W, a, 'name')) * o
        case['label'] = side + ':self-product:other-instance'
        case['instances'] = 'mixed-quadratic'
    case['expr'] = case['expr'] + m['integral'](W.domain, term)
    return case


P_NESTED = 0.05        # share of the linear scalar terms that are nested operators
P_INSTANCES = 0.07     # share of the cases rewritten with two instances of an argument function


def make_case(W, rng):
    case = make_case0(W, rng)
    if rng.random() < P_INSTANCES:
        case = other_instances(W, rng, case)
    return case


def make_case0(W, rng):
    """returns dict(kind, args…, expr, label) — the integral expression of a candidate form; `label` is the ground truth
    by construction: 'linear', or the class of the one edit that makes the integrand non-linear"""
    m = W.m
    integral = m['integral']
    bilinear = rng.random() < 0.5
    tests = W.group('test', rng.choice(SHAPES))
    trials = W.group('trial', rng.choice(SHAPES)) if bilinear else []

    if rng.random() < 0.08:
        expr, label = argfree_case(W, rng, bilinear, tests, trials)
        return dict(bilinear=bilinear, trials=trials, tests=tests, expr=expr, label=label)

    def term():
        t = coef(W, rng) * lin_in_group(W, rng, tests)
        if bilinear:
            t = t * lin_in_group(W, rng, trials)
        return t

    body = sum((term() for _ in range(rng.choice([1, 2, 2, 3]))), m['S'].Zero)
    label = 'linear'
    r0 = rng.random()
    if r0 < 0.07:
        # non-linear parts that cancel ACROSS two regions: each integrand is non-linear, only their sum is linear
        if bilinear and rng.random() < 0.5:
            lab, N = nonlinear_edit(W, rng, trials, tests)
            lab = 'trial:' + lab
        else:
            lab, N = nonlinear_edit(W, rng, tests, trials)
            lab = 'test:' + lab
        bt = bnd_factor(W, rng.choice(tests)) * rng.choice([1, W.k1, W.f])
        if bilinear:
            bt = bt * bnd_factor(W, rng.choice(trials))
        if rng.random() < 0.7:
            expr = integral(W.domain, body + N) + integral(rng.choice(W.faces + [W.bnd]), bt - N)
        else:
            g1, g2 = rng.sample(W.faces, 2)
            expr = integral(W.domain, body) + integral(g1, bt + N) + integral(g2, bt - N)
        return dict(bilinear=bilinear, trials=trials, tests=tests, expr=expr, label='cross-region-cancel:' + lab)
    if r0 < 0.25:
        if r0 < 0.17:
            # non-linear terms that cancel INSIDE one integrand: the integrand is linear
            body = body + cancelling_terms(W, rng, tests, trials)
            label = 'linear:cancelling-terms'
        else:
            # floating-point coefficients adding up on one monomial
            body = (body if rng.random() < 0.6 else m['S'].Zero) + float_contributions(W, rng, tests, trials)
            label = 'linear:float-contributions'
        expr = integral(W.domain, body)
        if rng.random() < 0.3:
            bt = bnd_factor(W, rng.choice(tests)) * rng.choice([1, W.k1, W.f])
            if bilinear:
                bt = bt * bnd_factor(W, rng.choice(trials))
            if label == 'linear:float-contributions':
                if rng.random() < 0.6:
                    bt = (W.x[0] + fl(rng, m)) * bt + fl(rng, m) * bt
            elif rng.random() < 0.5:
                # the boundary integrand too
                t2 = bnd_factor(W, rng.choice(tests))
                o2 = bnd_factor(W, rng.choice(trials)) if bilinear else m['S'].One
                bt = bt + (t2 + W.k1) * (t2 - W.k1) * o2 - t2 ** 2 * o2 + W.k1 ** 2 * o2
            expr = expr + integral(rng.choice(W.faces + [W.bnd]), bt)
        return dict(bilinear=bilinear, trials=trials, tests=tests, expr=expr, label=label)
    if rng.random() < 0.45:
        if bilinear and rng.random() < 0.5:
            label, extra = nonlinear_edit(W, rng, trials, tests)
            label = 'trial:' + label
        else:
            label, extra = nonlinear_edit(W, rng, tests, trials)
            label = 'test:' + label
        if rng.random() < 0.2:
            # floating-point numbers around a non-linear term (still non-linear)
            extra = (W.x[0] + fl(rng, m)) * extra + fl(rng, m) * extra
            if rng.random() < 0.5:
                body = body + float_contributions(W, rng, tests, trials)
        body = body + extra
    expr = integral(W.domain, body)
    k = rng.random()
    if k < 0.3:
        a = rng.choice(tests)
        bt = bnd_factor(W, a) * rng.choice([1, W.k1, W.f])
        if bilinear:
            bt = bt * bnd_factor(W, rng.choice(trials))
        if label == 'linear':
            r = rng.random()
            pairs = same_kind_pairs(tests, m)
            if r < 0.12:
                bt = bt + rng.choice([1, W.f])
                label = 'boundary:constant'
            elif r < 0.20 and bilinear:
                # one integral of the sum lacks the trial functions
                bt = bnd_factor(W, a) * rng.choice([1, W.k1, W.f, W.x[0]])
                label = 'boundary:argfree:no-trial'
            elif r < 0.32 and pairs:
                p, q = rng.choice(pairs)
                bt = bnd_factor(W, p) * (bnd_factor(W, p) - bnd_factor(W, q))
                if bilinear:
                    bt = bt * bnd_factor(W, rng.choice(trials))
                label = 'boundary:test:diag:difference-product'
        expr = expr + integral(W.bnd if rng.random() < 0.5 else rng.choice(W.faces), bt)
    return dict(bilinear=bilinear, trials=trials, tests=tests, expr=expr, label=label)


def corpus_cases(W):
    """the fixed corpus: the same shapes on every seed (first cases of both streams)"""
    m = W.m
    I = lambda e: m['integral'](W.domain, e)
    Ib = lambda e: m['integral'](W.bnd, e)
    Ig = lambda e: m['integral'](W.faces[0], e)
    Ig2 = lambda e: m['integral'](W.faces[1], e)
    Fl = m['sympy'].Float
    grad, dot, div = m['grad'], m['dot'], m['div']
    cross, inner, outer, convect = m['cross'], m['inner'], m['outer'], m['convect']
    u1, u2, u3, v1, v2, v3 = W.u, W.ub, W.uc, W.v, W.vb, W.vc
    F1, F2, G1, G2 = W.F, W.Fb, W.G, W.Gb
    f, g, B, C, x, y = W.f, W.g, W.B, W.C, W.x[0], W.x[1]
    u1h, v1h, v2h, G1h = alt(W, u1), alt(W, v1), alt(W, v2), alt(W, G1)      # other instances of the same functions
    fgv, fgu = grad(f * g * v1), grad(f * g * u1)
    dx = W.D1[0]
    L = lambda tests, e, lab: dict(bilinear=False, trials=[], tests=tests, expr=e, label=lab)
    Bi = lambda trials, tests, e, lab: dict(bilinear=True, trials=trials, tests=tests, expr=e, label=lab)
    return [
        # non-linear in a product argument, vanishing when its two components are identified
        Bi([u1, u2], [v1, v2], I(u1 * (u1 - u2) * v1), 'trial:diag:difference-product'),
        L([v1, v2], I(f * (v1 - v2) ** 2), 'test:diag:difference-square'),
        Bi([u1, u2], [v1, v2], I((u1 - u2) * dot(grad(u1), grad(v1)) + u2 * v2), 'trial:diag:difference-product'),
        L([v1, v2], I(x * v1) + Ib(v1 * (v1 - v2)), 'boundary:test:diag:difference-product'),
        L([v1, v2], I(v1 ** 2 / v2), 'test:diag:ratio'),
        Bi([u1, u2], [v1, v2], I(u1 * v1 * (v1 - v2)), 'test:diag:difference-product'),
        L([v1, v2, v3], I((v1 - v2) * (v2 - v3)), 'test:diag:difference-product'),
        L([v1, v2, v3], I(f * (dx(v3) - dx(v1)) ** 2 + v2), 'test:diag:difference-square'),
        L([G1, G2], I(dot(G1 - G2, G1)), 'test:diag:difference-dot'),
        Bi([F1, F2], [G1, G2], I((div(F1) - div(F2)) * div(F1) * dot(G1, B)), 'trial:diag:difference-product'),
        L([v1, v2, G1], I(dot(G1, B) * (v1 - v2) + v1 * (v2 - v1)), 'test:diag:difference-product'),
        L([v1, G1, G2], I((G1[0] - G2[0]) ** 2 + v1), 'test:diag:difference-square'),
        # non-linear in a product argument, also on the diagonal
        Bi([u1, u2], [v1, v2], I(u1 * u2 * v1), 'trial:product-of-components'),
        L([G1, G2], I(dot(G1, G2)), 'test:product-of-components'),
        L([v1, G1], I(v1 * div(G1)), 'test:product-of-components'),
        # an argument group does not occur at all
        L([v1], I(x * y), 'argfree:no-test'),
        Bi([u1], [v1], I(x * v1), 'argfree:no-trial'),
        L([G1], I(f * div(B)), 'argfree:no-test'),
        Bi([F1], [G1], I(f * F1[0]) + Ib(F1[1]), 'argfree:no-test'),
        Bi([u1, u2], [v1, v2], I(f * (v1 - v2)) + Ib(v2), 'argfree:no-trial'),
        Bi([u1], [v1], I(f * x), 'argfree:no-both'),
        L([v1, v2], I(f) + Ib(m['S'].One), 'argfree:no-test'),
        # … in one integral of a sum only
        Bi([u1], [v1], I(u1 * v1) + Ib(x * v1), 'boundary:argfree:no-trial'),
        L([v1], I(x * v1 + 1), 'test:constant'),
        # non-linear / constant parts that cancel across two regions: rejected
        L([v1], I(f * v1 + v1 ** 2) + Ig(x * v1 - v1 ** 2), 'cross-region-cancel:test:square'),
        L([v1], I(f * v1 + 1) + Ig(x * v1 - 1), 'cross-region-cancel:test:constant'),
        Bi([u1], [v1], I(u1 * v1 + y * u1 ** 2 * v1) + Ig(W.k1 * u1 * v1 - y * u1 ** 2 * v1), 'cross-region-cancel:trial:square'),
        Bi([u1], [v1], I(u1 * v1 + f * u1 * v1 ** 2) + Ig(-f * u1 * v1 ** 2), 'cross-region-cancel:test:square'),
        L([v1, v2], I(v1) + Ig(v1 * (v1 - v2)) + Ig2(v2 - v1 * (v1 - v2)), 'cross-region-cancel:test:diag:difference-product'),
        L([v1], I(v1 ** 2) + Ig(x * v1), 'test:square'),
        L([v1], I((v1 + f) ** 2 - v1 ** 2), 'test:constant'),
        # non-linear terms that cancel inside one integrand: accepted
        L([v1], I((v1 + f) ** 2 - v1 ** 2 - f ** 2), 'linear:cancelling-terms'),
        L([v1], I(v1 * (v1 + x) - v1 ** 2), 'linear:cancelling-terms'),
        L([v1], I(f * v1) + Ig((v1 + W.k1) * (v1 - W.k1) - v1 ** 2 + W.k1 ** 2 + v1), 'linear:cancelling-terms'),
        Bi([u1], [v1], I((u1 + f) ** 2 * v1 - u1 ** 2 * v1 - f ** 2 * v1), 'linear:cancelling-terms'),
        Bi([u1], [v1], I(u1 * v1 * (1 + y * v1) - y * u1 * v1 ** 2), 'linear:cancelling-terms'),
        Bi([u1], [v1], I(((u1 + f) ** 2 - u1 ** 2 - f ** 2) * v1), 'linear:cancelling-terms'),
        L([v1, v2], I((v1 + v2) ** 2 - (v1 - v2) ** 2 - 4 * v1 * v2 + dx(v2)), 'linear:cancelling-terms'),
        L([G1], I((div(G1) + f) ** 2 - div(G1) ** 2 - f ** 2 + dot(G1, B) * (dot(G1, B) + x) - dot(G1, B) ** 2), 'linear:cancelling-terms'),
        # floating-point coefficients: several contributions to one monomial (linear: accepted)
        L([v1], I((x + Fl(0.1)) * v1 + Fl(0.2) * v1), 'linear:float-contributions'),
        L([v1], I((f + Fl(0.3)) * v1 + Fl(0.7) * v1), 'linear:float-contributions'),
        L([v1], Ig((x + Fl(0.1)) * v1 + Fl(0.2) * v1), 'linear:float-contributions'),
        L([v1], I((x + Fl(0.1)) * v1 + Fl(0.2) * v1) + Ig((x + Fl(0.1)) * v1 + Fl(0.2) * v1), 'linear:float-contributions'),
        Bi([u1], [v1], I((x + Fl(0.1)) * u1 * v1 + Fl(0.2) * u1 * v1), 'linear:float-contributions'),
        L([v1], I((x + Fl(0.5)) * v1 + Fl(0.25) * v1), 'linear:float-contributions'),
        L([v1], I(Fl(0.1) * x * v1 + Fl(0.2) * f * v1), 'linear:float-contributions'),
        L([v1, v2], I((x + Fl(0.1)) * (dx(v1) - v2) + Fl(0.2) * dx(v1) - Fl(0.7) * v2 + Fl(1e-3) * dx(v1)), 'linear:float-contributions'),
        Bi([F1], [G1], I((f + Fl(0.3)) * div(F1) * div(G1) + Fl(0.7) * div(F1) * div(G1) + Fl(2.5) * dot(F1, G1)), 'linear:float-contributions'),
        # … and non-linear ones with floats (rejected)
        L([v1], I((x + Fl(0.1)) * v1 + Fl(0.2)), 'test:constant'),
        L([v1], I((x + Fl(0.1)) * v1 ** 2 + Fl(0.2) * v1), 'test:square'),
        Bi([u1], [v1], I((x + Fl(0.1)) * u1 * v1 + Fl(0.2) * u1 * v1 * v1), 'test:self-product'),
        # linear integrands in which a constructor left an operator of a sum unevaluated (Dot(B + F, G) behind the
        # factor v): accepted (finding C08-unevaluated-operator-rejected, fixed)
        L([v1], I(dot(v1 * (B + F1), G1)), 'linear:unevaluated-dot'),
        L([v1], I(dot(grad(f * x * v1), B)), 'linear:unevaluated-dot'),
        Bi([u1], [v1], I(dot(u1 * (B + F1), grad(v1))), 'linear:unevaluated-dot'),
        # the declared argument and its occurrences are different instances of the same function (equal by name,
        # different hash: the space declared again with a kind): linear ones accepted …
        L([v1h], I(f * v1 + dot(grad(v1), grad(f))) + Ib(v1), 'linear:other-instance'),
        L([v1], I(f * v1 + dx(v1h)), 'linear:other-instance'),
        L([v1h], I(x * v1h + f * dx(v1)) + Ig(v1), 'linear:other-instance'),
        Bi([u1], [v1h], I(dot(grad(u1), grad(v1)) + u1 * v1), 'linear:other-instance'),
        Bi([u1h], [v1], I(dot(grad(u1), grad(v1h)) + u1h * v1), 'linear:other-instance'),
        L([G1h], I(dot(G1, B) + div(G1)), 'linear:other-instance'),
        L([v1h, v2, G1h], I(dot(G1, B) + f * (v1 - v2h)), 'linear:other-instance'),
        # … and quadratic ones, one factor per instance, rejected
        L([v1], I(f * v1 * v1h), 'test:self-product:other-instance'),
        L([v1h], I(v1 * dot(grad(v1h), grad(f))), 'test:self-product:other-instance'),
        L([v1h], I(f * v1 ** 2), 'test:square'),
        L([v1], I(x * v1) + Ig(v1 * v1h), 'boundary:test:self-product:other-instance'),
        L([G1], I(dot(G1, G1h)), 'test:self-product:other-instance'),
        L([G1], I(div(G1) * dot(G1h, B)), 'test:self-product:other-instance'),
        Bi([u1], [v1], I(u1 * u1h * v1), 'trial:self-product:other-instance'),
        Bi([u1], [v1h], I(u1 * v1 + f * u1 * v1 * dx(v1h)), 'test:self-product:other-instance'),
        # an algebraic operator nested in another one, the inner one holding grad(f*g*v): linear, accepted
        L([v1], I(inner(outer(fgv, B), grad(C))), 'linear:nested-operators'),
        L([v1], I(dot(convect(fgv, B), C)), 'linear:nested-operators'),
        L([v1], I(x * v1 + dot(C, convect(fgv, B))) + Ib(v1), 'linear:nested-operators'),
        Bi([u1], [G1], I(dot(convect(fgu, B), G1)), 'linear:nested-operators'),
        L([v1], I(dot(convect(grad(f * v1), B), C)), 'linear:nested-operators'),
        L([G1], I(dot(convect(f * g * G1, B), C) + inner(outer(f * g * G1, B), grad(C))), 'linear:nested-operators'),
        # … quadratic controls, rejected
        L([v1], I(v1 * dot(convect(fgv, B), C)), 'test:self-product'),
        L([v1], I(dot(convect(fgv, B), grad(v1))), 'test:self-product'),
    ] + ([
        # the scalar triple product (3D)
        L([v1], I(dot(cross(fgv, B), C)), 'linear:nested-operators'),
        L([v1], I(dot(C, cross(B, fgv))), 'linear:nested-operators'),
        L([v1], Ib(dot(cross(W.nn, fgv), C)), 'linear:nested-operators'),
        Bi([u1], [G1], I(dot(cross(fgu, B), G1)), 'linear:nested-operators'),
        L([v1], I(dot(cross(grad(f * v1), B), C)), 'linear:nested-operators'),
        L([v1], I(dot(cross(fgv, B), grad(v1))), 'test:self-product'),
        L([v1], I(dot(cross(fgv, grad(f * v1)), C)), 'test:self-product'),
    ] if W.dim == 3 else [
        L([v1], I(f * v1 + inner(outer(grad(x * g * v1), B), grad(C))), 'linear:nested-operators'),
        L([v1], I(dot(convect(grad(f * y * v1), C), B)) + Ig(v1), 'linear:nested-operators'),
        L([v1], Ib(dot(convect(fgv, B), W.nn)), 'linear:nested-operators'),
        Bi([u1, u2], [G1], I(dot(convect(grad(f * g * (u1 - u2)), B), G1)), 'linear:nested-operators'),
        L([v1], I(inner(outer(grad(f * v1), B), grad(C))), 'linear:nested-operators'),
        L([v1], I(inner(outer(fgv, B), grad(C)) * dx(v1)), 'test:self-product'),
        L([v1], I(dot(convect(fgv, grad(v1)), C)), 'test:self-product'),
    ]) + [
        # linear controls
        Bi([u1, u2], [v1, v2], I(u1 * v1 + dot(grad(u2), grad(v2))), 'linear'),
        Bi([u1, u2], [v1, v2], I(x * f * (u1 - u2) * v1) + Ib(u2 * v2), 'linear'),
        L([v1, v2], I(f * v1 + y * dot(B, grad(v2))), 'linear'),
        L([v1, v2, v3], I(v1 - 2 * v2 + f * dx(v3)), 'linear'),
        Bi([u1, u2, u3], [v1], I((u1 - u2) * v1 + dx(u3) * dx(v1)), 'linear'),
        Bi([F1, F2], [G1, G2], I(dot(F1, G1) + div(F2) * div(G2) + dot(F1 - F2, G2)), 'linear'),
        L([v1, v2, G1], I(f * (v1 - v2) + dot(G1, B)), 'linear'),
        Bi([u1, F1, F2], [v1, G1, G2], I(u1 * div(G1) + (F1[0] - F2[0]) * v1 + dot(F2, G2)), 'linear'),
        Bi([u1], [v1], I(u1 * v1 + dot(grad(u1), grad(v1))) + Ib(u1 * v1), 'linear'),
    ]


def int_list(x, m):
    if x == 0:
        return []
    if isinstance(x, m['Integral']):
        return [(str(x.domain), x.expr)]
    return [(str(a.domain), a.expr) for a in x.args]


def construct(case, m):
    """'ok' | exception class name"""
    buf = io.StringIO()
    try:
        with contextlib.redirect_stdout(buf):
            if case['bilinear']:
                m['BilinearForm']((tuple(case['trials']), tuple(case['tests'])), case['expr'])
            else:
                m['LinearForm'](tuple(case['tests']), case['expr'])
        return 'ok'
    except Exception as e:   # noqa
        return type(e).__name__


class Ser08(Ser):
    """the abstraction identifies functions as sympde's == does, by name: an occurrence of a function that is another
    instance of a declared argument (same name, another space object) is serialised as that argument (the model compares
    `sf name kind` structurally)"""
    canon = {}

    def ser(self, e):
        if isinstance(e, (self.m['ScalarFunction'], self.m['VectorFunction'])):
            c = self.canon.get(e.name)
            if c is not None and c is not e:
                return Ser.ser(self, c)
        return Ser.ser(self, e)


def request(ser, W, case, m):
    ser.canon = {a.name: a for a in list(case['trials']) + list(case['tests'])}
    ints = [A('ints')] + [[A('int'), d, ser.ser(e)] for d, e in int_list(case['expr'], m)]
    if case['bilinear']:
        return 'C08 bilinear %d %s %s %s' % (W.dim, dumps([A('trials')] + [ser.ser(t) for t in case['trials']]),
                                             dumps([A('tests')] + [ser.ser(t) for t in case['tests']]), dumps(ints))
    return 'C08 linear %d %s %s' % (W.dim, dumps([A('args')] + [ser.ser(t) for t in case['tests']]), dumps(ints))


# --------------------------------------------------------------------------- the case streams

def stream(stage, tier, seed, n, m):
    """the deterministic sequence of candidate forms of one stage: (index, world, case | None, error | None).
    It depends on (stage, tier, seed) only, so that a replay file (which records them and the index)
    identifies its input exactly.  The first cases are the fixed corpus (a 2D and a 3D world), independent of the seed."""
    import random
    rng = random.Random('C08/%s/%s/%s' % (stage, tier, seed))
    World.count = {'corr': 0, 'oracle': 50000}[stage]
    fixed = []
    for dim in (2, 3):
        Wc = World(None, m, dim=dim)
        fixed += [(Wc, c) for c in corpus_cases(Wc)]
    assert len(fixed) == N_CORPUS, len(fixed)
    W = None
    for i in range(n):
        if i < len(fixed):
            yield i, fixed[i][0], fixed[i][1], None
            continue
        if i % 10 == 0 or W is None:
            W = World(rng, m)
        try:
            case = make_case(W, rng)
        except Exception as e:
            yield i, W, None, e
            continue
        yield i, W, case, None


N_CORPUS = 186     # 2 worlds x len(corpus_cases)


def is_linear_label(label):
    """ground truth by construction"""
    return label == 'linear' or label.startswith('linear:')


def built_class(label):
    """'linear' or the class of the edit, without the side it was applied to"""
    for pre in ('boundary:', 'test:', 'trial:'):
        if label.startswith(pre):
            label = label[len(pre):]
    return label


def group_shape(case, m):
    w = lambda g: ''.join('v' if is_vec(a, m) else 's' for a in g)
    return ('trial:' + w(case['trials']) + '|' if case['bilinear'] else '') + 'test:' + w(case['tests'])


def impl_answer(verdict):
    return {'ok': 'ok true', 'UnconsistentLinearExpressionError': 'ok false'}.get(verdict, 'err ' + verdict)


# --------------------------------------------------------------------------- correspondence

def correspondence(ctx):
    m = mods()
    c = Corr()
    ser = Ser08()
    n = (4000 if ctx.thorough else 600) + N_CORPUS
    cases = []
    for i, W, case, err in stream('corr', ctx.tier, ctx.seed, n, m):
        if case is None:
            c.count('unbuildable:' + type(err).__name__)
            continue
        if case['expr'] == 0:
            continue
        verdict = construct(case, m)
        try:
            line = request(ser, W, case, m)
        except Exception as e:
            c.count('unserialisable:' + type(e).__name__)
            continue
        if case.get('instances'):
            c.count('instances:' + case['instances'])
        cases.append((line, verdict, case['label'], str(case['expr'])[:300], case['bilinear'], i,
                      group_shape(case, m)))
    outs = ctx.driver.run([x[0] for x in cases])
    for (line, verdict, label, shown, bil, i, case_shape), out in zip(cases, outs):
        c.evaluations += 1
        impl = impl_answer(verdict)
        c.count('verdict:' + verdict)
        c.count('built:' + built_class(label))
        for sh in case_shape.split('|'):
            c.count('args:' + sh)
        c.count('form:' + ('bilinear' if bil else 'linear'))
        if out != impl:
            c.disagreements.append({'input': {'line': line[:2500], 'expr': shown, 'label': label, 'op': 'verdict',
                                              'stage': 'corr', 'index': i},
                                    'impl': verdict, 'model': out, 'note': label})
        c.nontrivial.add(line)
        if len(c.samples) < 6 and len(shown) < 200:
            c.samples.append({'expr': shown, 'built': label, 'constructor': verdict, 'model': out})
    return c


# --------------------------------------------------------------------------- oracle

def make_inst(rng, W, m):
    from harness.inst import Inst

    class Inst2(Inst):
        def inst(self, e):
            if isinstance(e, m['NormalVector']):
                return m['Matrix']([m['Rational'](i + 2, 7) for i in range(self.dim)])
            if isinstance(e, m['sympy'].Float):
                # the exact rational value of the float: linearity is decided in exact arithmetic
                return m['Rational'](e)
            return super().inst(e)
    return Inst2(rng, W.dim, W.x)


def value(inst, ints):
    return {d: inst.inst(e) for d, e in ints}


def rich_poly(rng, xs):
    """a polynomial none of whose low-order derivatives vanishes identically"""
    import sympy
    e = sympy.S.Zero
    for _ in range(4):
        t = sympy.S(rng.choice([-3, -2, -1, 1, 2, 3, 5]))
        for x in xs:
            t *= x ** rng.choice([1, 2, 3, 4])
        e += t
    return e + sum(x ** 4 for x in xs)


class NotRational(Exception):
    pass


def exact_eval(e, pt, memo):
    """the value (a Fraction) of a rational expression at the rational point pt; NotRational otherwise"""
    from fractions import Fraction
    k = id(e)
    if k in memo:
        return memo[k][1]
    if e.is_Rational:
        r = Fraction(int(e.p), int(e.q))
    elif e.is_Symbol:
        if e not in pt:
            raise NotRational('symbol %s' % e)
        r = pt[e]
    elif e.is_Add:
        r = Fraction(0)
        for t in e.args:
            r += exact_eval(t, pt, memo)
    elif e.is_Mul:
        r = Fraction(1)
        for t in e.args:
            r *= exact_eval(t, pt, memo)
    elif e.is_Pow and e.exp.is_Integer:
        r = exact_eval(e.base, pt, memo) ** int(e.exp)       # ZeroDivisionError at a pole
    else:
        raise NotRational(type(e).__name__)
    memo[k] = (e, r)
    return r


def close(a, b, xs, rng):
    """a == b (scalars), decided at two random rational points: exactly (rational arithmetic) when both are rational
    expressions, with 120 digits otherwise; None = undecided"""
    import sympy
    from fractions import Fraction
    from harness.inst import numeval
    a, b = sympy.sympify(a), sympy.sympify(b)
    if a == b:
        return True
    for _ in range(2):
        p, q = [rng.randint(2, 30) for _ in xs], [rng.randint(7, 13) for _ in xs]
        try:
            pt = {x: Fraction(pi, qi) for x, pi, qi in zip(xs, p, q)}
            memo = {}
            if exact_eval(a, pt, memo) != exact_eval(b, pt, memo):
                return False
            continue
        except NotRational:
            pass
        except ZeroDivisionError:
            return None
        try:
            pt = {x: sympy.Rational(pi, qi) for x, pi, qi in zip(xs, p, q)}
            va, vb = numeval(a, pt), numeval(b, pt)
        except Exception:
            return None
        if abs(va - vb) > 1e-60 * (1 + abs(va) + abs(vb)):
            return False
    return True


def truth(W, rng, case, args, m):
    """True / False / None: is the integrand (every integral) jointly linear in `args`, numerically"""
    import copy
    import sympy
    ints = int_list(case['expr'], m)
    base = make_inst(rng, W, m)
    try:
        value(base, ints)       # fixes every symbol that occurs
    except NotImplementedError:
        return None
    # every function (fields and the other arguments too) gets a polynomial with non-vanishing derivatives
    base.sf = {n: rich_poly(rng, W.x) for n in base.sf}
    base.vf = {n: [rich_poly(rng, W.x) for _ in range(W.dim)] for n in base.vf}

    def with_args(fun):
        i2 = copy.copy(base)
        i2.sf, i2.vf = dict(base.sf), dict(base.vf)
        for a in args:
            if isinstance(a, m['VectorFunction']):
                i2.vf[a.name] = fun(a.name, True)
            else:
                i2.sf[a.name] = fun(a.name, False)
        return i2
    mk = lambda a: ([rich_poly(rng, W.x) for _ in range(W.dim)] if isinstance(a, m['VectorFunction']) else rich_poly(rng, W.x))
    L = {a.name: mk(a) for a in args}
    R = {a.name: mk(a) for a in args}
    al = sympy.Rational(rng.choice([3, 5, -2]), rng.choice([1, 2]))
    comb = lambda f: (lambda n, vec: [f(x, y) for x, y in zip(L[n], R[n])] if vec else f(L[n], R[n]))
    try:
        vl = value(with_args(lambda n, vec: L[n]), ints)
        vr = value(with_args(lambda n, vec: R[n]), ints)
        vs = value(with_args(comb(lambda x, y: x + y)), ints)
        va = value(with_args(lambda n, vec: [al * x for x in L[n]] if vec else al * L[n]), ints)
    except Exception:
        return None
    for d in vl:
        s1 = close(vs[d], vl[d] + vr[d], W.x, rng)
        s2 = close(va[d], al * vl[d], W.x, rng)
        if s1 is False or s2 is False:
            return False
        if s1 is None or s2 is None:
            return None
    return True


def judged(W, case, i, m):
    """the semantic verdict on case number i (its own random points, so that it can be recomputed)"""
    import random
    rng = random.Random('C08/truth/%d' % i)
    t = truth(W, rng, case, case['tests'], m)
    if t is True and case['bilinear']:
        t = truth(W, rng, case, case['trials'], m)
    return t


def oracle(ctx, factor, seeds):
    m = mods()
    o = Oracle()
    n = (1800 if ctx.thorough else 300) * factor + N_CORPUS
    for i, W, case, err in stream('oracle', ctx.tier, ctx.seed, n, m):
        if case is None:
            o.count('unbuildable:' + type(err).__name__)
            continue
        if case['expr'] == 0:
            continue
        verdict = construct(case, m)
        o.evaluations += 1
        if verdict not in ('ok', 'UnconsistentLinearExpressionError'):
            o.fail('raises:%s:%s' % (verdict, str(case['expr'])[:250]),
                   'constructing the %s form over %s from %s raises %s (neither success nor the linearity error)' % (
                       'bilinear' if case['bilinear'] else 'linear', case['tests'], str(case['expr'])[:250], verdict),
                   expr=str(case['expr']), label=case['label'], stage='oracle', index=i)
            continue
        t = judged(W, case, i, m)
        if t is None:
            o.count('truth-undecided')
            continue
        if t != is_linear_label(case['label']):
            # the numeric verdict contradicts the construction: the case is not judged (a defect of the generator,
            # never of the code under test); visible in the histogram
            o.count('construction-contradicted:' + case['label'])
            continue
        o.count('truth:%s:constructor:%s' % ('linear' if t else 'non-linear', verdict))
        o.count('built:' + case['label'])
        if case.get('instances'):
            o.count('instances:' + case['instances'])
        for sh in group_shape(case, m).split('|'):
            o.count('args:' + sh)
        two = ''
        if case.get('instances') or 'other-instance' in case['label']:
            two = (' [two instances of an argument function are involved (%s): the same name, declared again in a space '
                   'declared again; equal for sympde, different hash]' % (case.get('instances') or 'corpus'))
        if t and verdict != 'ok':
            o.fail('false-reject:' + str(case['expr'])[:300],
                   'the integrand %s is additive and homogeneous in %s%s but the constructor raises the linearity error%s' % (
                       str(case['expr'])[:300], case['tests'], (' and in %s' % case['trials']) if case['bilinear'] else '', two),
                   expr=str(case['expr']), label=case['label'], bilinear=case['bilinear'], stage='oracle', index=i,
                   instances=case.get('instances'))
        elif (not t) and verdict == 'ok':
            o.fail('false-accept:' + str(case['expr'])[:300],
                   'the integrand %s is not linear in its arguments (%s) but the %s form is accepted%s' % (
                       str(case['expr'])[:300], case['label'], 'bilinear' if case['bilinear'] else 'linear', two),
                   expr=str(case['expr']), label=case['label'], bilinear=case['bilinear'], stage='oracle', index=i,
                   instances=case.get('instances'))
        if len(o.samples) < 4 and len(str(case['expr'])) < 160:
            o.samples.append({'expr': str(case['expr']), 'built': case['label'], 'truth': bool(t), 'constructor': verdict})
    return o


def replay(ctx, path):
    """regenerates the recorded case (stage, tier, seed, index) and re-evaluates it on the real code"""
    d = json.load(open(path))
    print(json.dumps(d, indent=1)[:3500])
    m = mods()
    det = d.get('detail') or {}
    if isinstance(det, str):
        try:
            import ast
            det = ast.literal_eval(det)
        except Exception:
            det = {}
    inp = det.get('input', det) if isinstance(det, dict) else {}
    if 'stage' not in inp and d.get('disagreements'):
        inp = d['disagreements'][0].get('input', {})
    stage, index = inp.get('stage'), inp.get('index')
    if stage is None or index is None:
        print('REPLAY: the file does not identify a case')
        return 2
    index = int(index)
    found = None
    for i, W, case, err in stream(stage, d.get('tier'), d.get('seed'), index + 1, m):
        if i == index:
            found = (W, case)
    if found is None or found[1] is None:
        print('REPLAY: case %s/%d cannot be regenerated' % (stage, index))
        return 2
    W, case = found
    verdict = construct(case, m)
    print('REPLAY: case %s/%d: %s' % (stage, index, str(case['expr'])[:400]))
    print('REPLAY: constructor verdict: %s' % verdict)
    if stage == 'corr':
        line = request(Ser08(), W, case, m)
        out = ctx.driver.run([line])[0]
        print('REPLAY: model verdict: %s' % out)
        if out != impl_answer(verdict):
            print('REPLAY: still disagreeing')
            return 1
        print('REPLAY: the constructor and the model agree now')
        return 0
    if verdict not in ('ok', 'UnconsistentLinearExpressionError'):
        print('REPLAY: still raising %s' % verdict)
        return 1
    t = judged(W, case, index, m)
    print('REPLAY: built as: %s; semantic verdict (additive and homogeneous on polynomial instances): %s' % (case['label'], t))
    if t is not None and t == is_linear_label(case['label']) and t != (verdict == 'ok'):
        print('REPLAY: still failing')
        return 1
    print('REPLAY: the recorded case no longer fails')
    return 0
