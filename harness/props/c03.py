"""C03 — pull-back to logical coordinates preserves meaning for every space kind."""
import importlib

import sympy
from sympy import Matrix, Rational, S

from harness.common import Corr, Oracle, Timeout, time_limit
from harness.inst import Inst, same_value, PHYS, LOGI
from harness.mapenv import MEnv, MSer, MapInst, MTYPES, num_equal, pulled_back_fields
from harness.sexp import dumps, loads_all

PID = 'C03'
PROPS_MODULE = ['SympdeModel.Props.C03', 'SympdeModel.Props.C03Inst']
RULE = ('a case is (mapping type, dimension, expression, route); expressions are terminal (coordinates, constants, functions of '
        'every kind, components, first and second physical derivatives, sums, products, quotients, sin/cos/exp of coordinates) '
        'or generic (grad, div, curl, laplace, dot, inner of fields of the matching kinds with coordinate coefficients); routes are '
        'A = TerminalExpr(LogicalExpr(e, D), D.logical_domain) and B = LogicalExpr(TerminalExpr(e, D), D) (lowered afterwards); '
        'non-trivial = the expression contains a derivative or a function of kind hcurl/hdiv/l2; distinct by request line')
ASSUMPTIONS = [
    'physical derivatives are related to logical ones by the chain rule d_i k = sum_j (J^-1)_ji dhat_j k (the hypothesis `chain` of '
    'Props/C03.lean `MapRel`; it is the definition of "derivative with respect to the physical coordinate" for a function given in '
    'logical coordinates, and it forces d_i x_k = delta_ik: theorem `phys_coordinates`)',
    'the pull-backs are those named in the property: H1/undefined u∘F, H(curl) Jᵀ(u∘F), H(div) det(J) J⁻¹(u∘F), L2 det(J)(u∘F)',
    'the mapping is smooth with invertible Jacobian at the point considered (det J · inv(det J) = 1)',
    'mappings containing pi (Collela) are checked by the oracle only (the exchange format has no transcendental constants)',
]

C = None


def calc():
    global C
    if C is None:
        C = importlib.import_module('sympde.calculus')
    return C


# ---------------------------------------------------------------------------------------------- generators
def pick_env(rng, envs, thorough, dims=(1, 2, 2, 2, 3)):
    dim = rng.choice(dims)
    mt = rng.choice(MTYPES[dim])
    key = (dim, mt, rng.randrange(2 if thorough else 1))
    if key not in envs:
        envs[key] = MEnv(rng, dim, mt, tag='c3')
    return envs[key]


def coordexpr(rng, env, depth=0):
    x = env.coords
    k = rng.random()
    if depth >= 2 or k < 0.45:
        return rng.choice(x)
    if k < 0.6:
        return rng.choice(x) ** 2
    if k < 0.75:
        return coordexpr(rng, env, depth + 1) * coordexpr(rng, env, depth + 1)
    if k < 0.85:
        return coordexpr(rng, env, depth + 1) + rng.choice([1, 2, Rational(1, 2)])
    return rng.choice([sympy.sin, sympy.cos, sympy.exp])(rng.choice(x))


def field_atom(rng, env):
    """a function or a component of a vector function of a random kind"""
    if rng.random() < 0.5:
        k = rng.choice(list(env.sf))
        return rng.choice(env.sf[k]), k
    k = rng.choice(list(env.vf))
    return rng.choice(env.vf[k])[rng.randrange(env.dim)], k


def gen_terminal(rng, env, depth=0, budget=None):
    """scalar expression in terminal physical form; derivative order <= 2 (<= 1 in 3D for the
    kinds whose pull-back involves the Jacobian: the symbolic 3x3 inverse is slow)"""
    r = rng.random()
    if depth >= 2 or r < 0.35:
        a, k = field_atom(rng, env)
        heavy = k in ('hcurl', 'hdiv', 'l2')
        maxord = 2 if env.dim <= 2 and not (heavy and env.mtype in ('sym', 'czarny', 'target')) else 1
        if env.dim == 3 and heavy and env.mtype not in ('poly', 'polyneg', 'identity', 'affine'):
            maxord = rng.choice([0, 1])
        for _ in range(rng.choice([0, 1, 1, 2][:maxord + 2])):
            a = rng.choice(env.ops)(a)
        return a
    if r < 0.45:
        return coordexpr(rng, env)
    if r < 0.5:
        return rng.choice(env.cst + [S(2), Rational(-1, 3)])
    if r < 0.68:
        return sympy.Add(gen_terminal(rng, env, depth + 1), gen_terminal(rng, env, depth + 1))
    if r < 0.88:
        fs = [gen_terminal(rng, env, depth + 1) for _ in range(rng.choice([2, 2, 3]))]
        if rng.random() < 0.4:
            fs.append(coordexpr(rng, env))
        return sympy.Mul(*fs)
    if r < 0.91:
        return gen_terminal(rng, env, depth + 1) ** 2
    if r < 0.935:
        # a power whose exponent is not a number: the exponent is transformed like any other sub-expression
        # (coordinates -> F, an L2 function gets its 1/det J, a physical derivative its J^-T; seeded change C03-8)
        a, _ = field_atom(rng, env)
        b, _ = field_atom(rng, env)
        k = rng.random()
        if k < 0.35:
            return rng.choice([S(2), S(3)]) ** a
        if k < 0.7:
            return (1 + b ** 2) ** (1 + coordexpr(rng, env))
        return (1 + b ** 2) ** rng.choice(env.ops)(a)
    if r < 0.97:
        return gen_terminal(rng, env, depth + 1) / (1 + coordexpr(rng, env) ** 2)
    # derivative of a product (dx evaluates it with the Leibniz rule at construction)
    a, _ = field_atom(rng, env)
    return rng.choice(env.ops)(coordexpr(rng, env) * a)


def gen_generic(rng, env):
    """generic expressions the transformation supports, with fields of the matching kinds"""
    c = calc()
    d = env.dim
    u, v = env.sf['h1']
    uu = env.sf['undefined'][0]
    p = env.sf['l2'][0]
    w, w2 = env.vf['hcurl']
    q, q2 = env.vf['hdiv']
    Fh, Gh = env.vf['h1']
    Fu = env.vf['undefined'][0]
    opts = [
        lambda: c.grad(u), lambda: c.dot(c.grad(u), c.grad(v)), lambda: c.laplace(uu), lambda: c.div(q),
        lambda: c.div(q) * p, lambda: c.div(Fh), lambda: c.div(Fu) * u, lambda: c.dot(q, q2), lambda: c.dot(w, w2),
        lambda: c.dot(q, w), lambda: c.dot(Fh, c.grad(u)), lambda: c.inner(c.grad(Fh), c.grad(Gh)), lambda: p * u,
        lambda: coordexpr(rng, env) * c.dot(c.grad(u), c.grad(v)) + u * v, lambda: c.dot(c.grad(uu), q),
        lambda: c.grad(u * v), lambda: c.dot(w, c.grad(u)), lambda: coordexpr(rng, env) * c.div(q) + p,
    ]
    # operators applied to a product with a coordinate-dependent coefficient, transposed gradients
    # (added after seeded changes C03-3 and C03-4, which only showed on these shapes, route A)
    from sympde.calculus.matrices import Transpose
    opts += [lambda: c.grad(coordexpr(rng, env) * u), lambda: c.div(coordexpr(rng, env) * q),
             lambda: c.div(coordexpr(rng, env) * Fh), lambda: c.laplace(coordexpr(rng, env) * uu),
             lambda: c.dot(c.grad(coordexpr(rng, env) * u), c.grad(v)),
             lambda: c.grad(coordexpr(rng, env) * u), lambda: c.laplace(coordexpr(rng, env) * uu),
             lambda: Transpose(c.grad(Fh)), lambda: c.inner(c.grad(Fh), Transpose(c.grad(Gh))),
             lambda: c.inner(c.grad(Fh) + Transpose(c.grad(Fh)), c.grad(Gh)),
             lambda: c.inner(c.grad(Fh), Transpose(c.grad(Fh)))]
    if d >= 2:
        opts += [lambda: c.curl(w), lambda: c.curl(w) * p if d == 2 else c.dot(c.curl(w), c.curl(w2)),
                 lambda: c.dot(c.curl(w), q) if d == 3 else c.curl(w) * c.curl(w2),
                 lambda: coordexpr(rng, env) * c.curl(w)]
    return rng.choice(opts)()


def entries(t):
    if isinstance(t, (sympy.MatrixBase, sympy.ImmutableDenseMatrix)):
        return list(t)
    if isinstance(t, (sympy.Tuple, tuple, list)):
        return list(t)
    return [t]


def route_a(env, e):
    from sympde.topology.mapping import LogicalExpr
    from sympde.expr.evaluation import TerminalExpr
    return TerminalExpr(LogicalExpr(e, env.domain), env.logical_domain)


def route_b(env, e):
    from sympde.topology.mapping import LogicalExpr
    from sympde.expr.evaluation import TerminalExpr
    t = TerminalExpr(e, env.domain)
    return TerminalExpr(LogicalExpr(t, env.domain), env.logical_domain)


def phys_terminal(env, e):
    from sympde.expr.evaluation import TerminalExpr
    return TerminalExpr(e, env.domain)


def nontrivial(e):
    from sympde.topology.derivatives import _partial_derivatives
    from sympde.topology.space import ScalarFunction, VectorFunction
    from sympde.calculus.core import BasicOperator
    if e.atoms(*_partial_derivatives) or e.atoms(BasicOperator):
        return True
    for f in e.atoms(ScalarFunction, VectorFunction):
        if type(f.space.kind).__name__ in ('HcurlSpaceType', 'HdivSpaceType', 'L2SpaceType'):
            return True
    return False


def sample_stream(ctx, n):
    rng = ctx.rng
    envs = {}
    for i in range(n):
        env = pick_env(rng, envs, ctx.thorough)
        generic = rng.random() < 0.35
        try:
            e = gen_generic(rng, env) if generic else gen_terminal(rng, env)
        except Exception as ex:      # refused at construction (space kind checks, dx(sin(u)) …): not a case
            yield env, None, 'construct:' + type(ex).__name__
            continue
        yield env, e, 'generic' if generic else 'terminal'


def run_impl(f, env, e, limit):
    try:
        with time_limit(limit):
            return ('ok', f(env, e))
    except Timeout:
        return ('timeout', None)
    except Exception as ex:
        return ('err', type(ex).__name__)


# ---------------------------------------------------------------------------------------------- correspondence
def correspondence(ctx):
    c = Corr()
    ser = MSer()
    n = 700 if ctx.thorough else 50
    limit = 60 if ctx.thorough else 20
    cases, seen = [], set()
    for env, e, kind in sample_stream(ctx, n):
        if e is None:
            c.count(kind)
            continue
        if not env.model_ok():
            c.count('oracle-only-mapping')
            continue
        tp = run_impl(lambda env, e: phys_terminal(env, e), env, e, limit)
        if tp[0] != 'ok':
            c.count('phys-lowering-' + tp[0])
            continue
        comps = entries(tp[1])
        try:
            mcomps = dumps(env.components_sexp(ser))
            lines = ['C03 logical %s %s %s' % (dumps(env.mapping.name), mcomps, dumps(ser.ser(t))) for t in comps]
        except Exception as ex:
            c.count('unserialisable:' + type(ex).__name__)
            continue
        key = '|'.join(lines)
        if key in seen:
            continue
        seen.add(key)
        if any('(other ' in ln for ln in lines):
            c.count('outside-exchange-format')
            continue
        ra = run_impl(route_a, env, e, limit)
        rb = run_impl(route_b, env, e, limit)
        cases.append((env, e, kind, lines, ra, rb))
    flat = [ln for cs in cases for ln in cs[3]]
    outs = ctx.driver.run(flat) if flat else []
    pos = 0
    for env, e, kind, lines, ra, rb in cases:
        mouts = outs[pos:pos + len(lines)]
        pos += len(lines)
        c.evaluations += 1
        c.count('%s:dim%d:%s' % (kind, env.dim, env.mtype))
        label = '%s on %s (dim %d)' % (e, env.mtype, env.dim)
        good = True
        for route, res in (('A', ra), ('B', rb)):
            if res[0] == 'timeout':
                c.count('impl-timeout:' + route)
                continue
            if res[0] == 'err':
                c.count('impl-err:%s:%s' % (route, res[1]))
                if not all(m == 'err ' + res[1] for m in mouts):
                    # route A legitimately refuses some generic shapes (NotImplementedError TODO) that
                    # the terminal route transforms: only a disagreement when the model also claims them
                    if route == 'B':
                        good = False
                        c.disagreements.append({'input': lines[0][:600], 'expr': label[:300], 'route': route,
                                                'impl': 'raised ' + res[1], 'model': mouts[0][:300], 'note': 'error'})
                continue
            got = entries(res[1])
            if len(got) != len(lines):
                good = False
                c.disagreements.append({'input': lines[0][:600], 'expr': label[:300], 'route': route, 'impl': str(res[1])[:300],
                                        'model': '%d components' % len(lines), 'note': 'shape'})
                continue
            for ln, m, g in zip(lines, mouts, got):
                if not m.startswith('ok '):
                    good = False
                    c.disagreements.append({'input': ln[:600], 'expr': label[:300], 'route': route, 'impl': str(g)[:300],
                                            'model': m[:300], 'note': 'model refused'})
                    break
                try:
                    gs = ser.ser(g)
                    ftol = '1e-9' if sympy.sympify(g).atoms(sympy.Float) else '1e-30'   # float-literal mappings: 15-digit arithmetic
                    eq = num_equal(loads_all(m[3:])[0], gs, tol=ftol)
                except Exception as ex:
                    c.count('compare-failed:' + type(ex).__name__)
                    eq = None
                if eq is None:
                    c.count('undecided')
                elif not eq:
                    good = False
                    c.disagreements.append({'input': ln[:800], 'expr': label[:300], 'route': route, 'impl': str(g)[:500],
                                            'model': m[:500], 'note': 'value'})
                    break
        if good and nontrivial(e):
            c.nontrivial.add(lines[0])
        if good and len(c.samples) < 6 and nontrivial(e):
            c.samples.append({'expr': label[:200], 'routeA': str(ra[1])[:200]})
    # the commuting relations themselves: rule-level requests
    rule_cases = []
    cc = calc()
    for dim in (1, 2, 3):
        for mt in ('sym', 'poly'):
            env = MEnv(ctx.rng, dim, mt, tag='c3r')
            u = env.sf['h1'][0]
            q = env.vf['hdiv'][0]
            w = env.vf['hcurl'][0]
            mcomps = dumps(env.components_sexp(ser))
            hdr = '%s %s' % (dumps(env.mapping.name), mcomps)
            rule_cases.append((env, cc.div(q), ['C03 rule div %s %s 0' % (hdr, dumps(q.name))]))
            rule_cases.append((env, cc.grad(u), ['C03 rule grad %s %s %d' % (hdr, dumps(u.name), i) for i in range(dim)]))
            if dim == 2:
                rule_cases.append((env, cc.curl(w), ['C03 rule curl %s %s 0' % (hdr, dumps(w.name))]))
            if dim == 3:
                rule_cases.append((env, cc.curl(w), ['C03 rule curl %s %s %d' % (hdr, dumps(w.name), i) for i in range(3)]))
    flat = [ln for _, _, ls in rule_cases for ln in ls]
    outs = ctx.driver.run(flat)
    pos = 0
    for env, e, ls in rule_cases:
        mouts = outs[pos:pos + len(ls)]
        pos += len(ls)
        c.evaluations += 1
        c.count('rule:%s:dim%d:%s' % (type(e).__name__, env.dim, env.mtype))
        ra = run_impl(route_a, env, e, 120)
        if ra[0] != 'ok':
            c.disagreements.append({'input': ls[0][:400], 'impl': str(ra), 'model': mouts[0][:200], 'note': 'rule: impl failed'})
            continue
        got = entries(ra[1])
        for ln, m, g in zip(ls, mouts, got):
            if not m.startswith('ok '):
                c.disagreements.append({'input': ln[:400], 'impl': str(g)[:300], 'model': m[:300], 'note': 'rule: model refused'})
                break
            eq = num_equal(loads_all(m[3:])[0], ser.ser(g), tol='1e-9' if sympy.sympify(g).atoms(sympy.Float) else '1e-30')
            if eq is False:
                c.disagreements.append({'input': ln[:400], 'impl': str(g)[:400], 'model': m[:400], 'note': 'rule value'})
                break
        else:
            c.nontrivial.add(ls[0])
    return c


# ---------------------------------------------------------------------------------------------- oracle
def check_case(ctx, o, env, e, key, routes=('A', 'B'), limit=40):
    """value of e at F(x̂) (classical operators on explicit fields) against the value of the
    transformed expression at x̂ with the fields replaced by their pull-backs"""
    rng = ctx.rng
    dim = env.dim
    label = '%s on %s (dim %d)' % (e, env.mtype, dim)
    try:
        with time_limit(limit):
            pins = Inst(rng, dim, PHYS[:dim])
            F, cst = env.concrete(rng)
            pins.cst = dict(cst)
            orig = pins.inst(e)
            sub = {PHYS[i]: F[i] for i in range(dim)}
            orig = orig.subs(sub, simultaneous=True) if hasattr(orig, 'subs') else sympy.sympify(orig)
            sfs, vfs, J, det = pulled_back_fields(env, pins, F)
    except (Timeout, NotImplementedError):
        o.count('skipped:setup')
        return
    if isinstance(orig, sympy.MatrixBase) and orig.shape == (1, 1):
        orig = orig[0]
    for route in routes:
        res = run_impl(route_a if route == 'A' else route_b, env, e, limit)
        o.evaluations += 1
        if res[0] == 'timeout':
            o.count('impl-timeout:' + route)
            continue
        if res[0] == 'err':
            o.count('refused:%s:%s' % (route, res[1]))
            if key is not None:
                o.fail(key + ':' + route, 'route %s raised %s on %s' % (route, res[1], label))
            continue
        t = res[1]
        try:
            with time_limit(limit):
                lins = MapInst(rng, dim, F, pins.cst)
                lins.sf, lins.vf = dict(sfs), dict(vfs)
                new = lins.inst(t)
                if isinstance(new, sympy.MatrixBase) and new.shape == (1, 1):
                    new = new[0]
                if isinstance(new, sympy.MatrixBase) and isinstance(orig, sympy.MatrixBase) and new.shape != orig.shape \
                        and new.shape == orig.T.shape and 1 in new.shape:
                    new = new.T
                # a mapping written with floating-point literals (Collela: '2.*x1') is transformed in
                # 15-digit arithmetic: compare up to rounding
                floats = any(sympy.sympify(v).atoms(sympy.Float) for v in entries(t)) or env.mtype in ('affinef', 'czarnyf')
                ok = same_value(orig, new, LOGI[:dim], rng, numeric=True, tol=1e-9 if floats else 1e-35)
        except NotImplementedError as ex:
            # an unevaluated node (Derivative of a symbolic determinant, LogicalExpr(...)) in the result
            if not any(w in str(ex) for w in ('Derivative', 'LogicalExpr', 'Determinant', 'PullBack', 'Jacobian', 'Inverse',
                                              'Transpose', 'Trace', 'MatrixElement')):
                o.count('skipped:' + str(ex)[:40])
                continue
            o.fail(key + ':' + route if key else 'unevaluated:%s:%s' % (route, label[:150]),
                   'route %s returns a result that is not a function of the logical point (%s): %s' % (route, ex, str(t)[:300]),
                   expr=label)
            continue
        except Timeout:
            o.count('compare-timeout')
            continue
        o.count('%s:dim%d:%s' % (route, dim, env.mtype))
        if ok is True and (key is not None or rng.random() < 0.35):
            sp = special_point(ctx, o, dim, F, orig, new, floats)
            if sp is not None:
                o.fail(key + ':' + route if key else 'special-point:%s:%s' % (route, label[:150]),
                       'route %s: the transformed expression of %s %s (a regular point of the mapping: det J != 0): %s'
                       % (route, label, sp, str(t)[:300]), expr=label, mapping=[str(f) for f in F])
                continue
        if ok is None:
            o.count('undecided')
        if ok is False:
            o.fail(key + ':' + route if key else 'value:%s:%s' % (route, label[:150]),
                   'route %s: the transformed expression of %s does not have the value of the original at F(x̂): %s'
                   % (route, label, str(t)[:300]), expr=label, mapping=[str(f) for f in F])
        elif len(o.samples) < 5 and nontrivial(e):
            o.samples.append({'expr': label[:200], 'route': route, 'transformed': str(t)[:200]})


def special_point(ctx, o, dim, F, orig, new, floats):
    """the identity also holds at the regular points where an entry of the Jacobian (a pivot of an
    elimination) vanishes: one logical coordinate is set to 0 or pi/2 EXACTLY (random points never hit such a
    point; seeded change C03-7 inverted the 3x3 Jacobian by an unsimplified LU, 0/0 where J[0,0] = 0).
    Returns a description of the failure or None."""
    from harness.inst import numeval
    rng = ctx.rng
    xs = list(LOGI[:dim])
    x = rng.choice(xs)
    val = rng.choice([S.Zero, sympy.pi / 2, sympy.pi / 2])
    rest = [y for y in xs if y != x]
    detJ = Matrix(dim, dim, lambda i, j: sympy.diff(F[i], xs[j])).det()
    J00 = sympy.diff(F[0], xs[0])
    try:
        with time_limit(30):
            pts = []
            for _ in range(2):
                pt = {y: Rational(rng.randint(2, 30), rng.randint(17, 23)) for y in rest}
                pt[x] = val
                d = sympy.sympify(detJ).subs(pt)
                if d.has(sympy.nan, sympy.zoo) or abs(sympy.N(d, 30)) < 1e-12:
                    o.count('special-point:singular')
                    continue
                pts.append(pt)
            for pt in pts:
                tv = [sympy.sympify(a).subs(pt) for a in entries(orig)]
                if any(a.has(sympy.nan, sympy.zoo, sympy.oo) for a in tv):
                    o.count('special-point:original-undefined')
                    continue
                nv = [sympy.sympify(a).subs(pt) for a in entries(new)]
                o.count('special-point:%s' % ('pivot-zero' if sympy.sympify(J00).subs(pt) == 0 else 'other'))
                if len(nv) != len(tv):
                    return None
                for a, b in zip(tv, nv):
                    if b.has(sympy.nan, sympy.zoo, sympy.oo):
                        return 'has no value (0/0 or 1/0) at the logical point %s where the original is %s' % (pt, sympy.N(a, 12))
                    va, vb = sympy.N(a, 60), sympy.N(b, 60)
                    if abs(va - vb) > (1e-9 if floats else 1e-30) * (abs(va) + abs(vb) + 1):
                        return 'has the value %s at the logical point %s where the original is %s' % (sympy.N(vb, 12), pt, sympy.N(va, 12))
    except Timeout:
        o.count('special-point:timeout')
    except (TypeError, ValueError, ZeroDivisionError, NotImplementedError, AttributeError):
        o.count('special-point:not-evaluable')
    return None


def fixed_corpus(ctx):
    """witnesses of repaired defects and the commuting relations on every mapping family"""
    cc = calc()
    rng = ctx.rng
    out = []
    for dim, mt in ((1, 'sym'), (2, 'sym'), (2, 'polar'), (2, 'polyneg'), (3, 'poly'), (2, 'affinef')):
        env = MEnv(rng, dim, mt, tag='c3k')
        p = env.sf['l2'][0]
        u = env.sf['h1'][0]
        dx = env.ops[0]
        out.append((env, dx(p), 'corpus:dx(l2 function) %s %dd' % (mt, dim)))
        out.append((env, dx(p * u), 'corpus:dx(l2*h1) %s %dd' % (mt, dim)))
        out.append((env, env.coords[0] * p, 'corpus:x*l2 %s %dd' % (mt, dim)))
        out.append((env, cc.div(env.vf['hdiv'][0]), 'corpus:div(hdiv) %s %dd' % (mt, dim)))
        if dim > 1:
            out.append((env, cc.curl(env.vf['hcurl'][0]), 'corpus:curl(hcurl) %s %dd' % (mt, dim)))
        if (dim, mt) == (3, 'poly'):
            # first derivatives on an analytical 3-D mapping whose Jacobian has vanishing entries at regular points
            tenv = MEnv(rng, 3, 'torus', tag='c3k')
            tu = tenv.sf['h1'][0]
            for kk, op in enumerate(tenv.ops):
                out.append((tenv, op(tu), 'corpus:d%s(h1) torus 3d' % 'xyz'[kk]))
        if dim == 2 and mt in ('polar', 'polyneg'):
            # exponents are transformed too (seeded change C03-8 kept them physical)
            out.append((env, S(2) ** p, 'corpus:2**l2 %s' % mt))
            out.append((env, (1 + u ** 2) ** (1 + env.coords[0] * env.coords[1]), 'corpus:(1+u^2)**(1+x*y) %s' % mt))
            out.append((env, (1 + u ** 2) ** env.ops[1](u), 'corpus:(1+u^2)**dy(u) %s' % mt))
        if (dim, mt) == (2, 'sym'):
            # a coordinate coefficient below a LOGICAL derivative of a symbolic mapping: the chain rule
            # df/dM[i] * dM[i]/dx̂_k of derivatives.py (seeded change C03-5 transposed it)
            x_, y_ = env.coords
            uu = env.sf['undefined'][0]
            Fh = env.vf['h1'][0]
            out.append((env, cc.laplace(x_ * y_ ** 2 * uu), 'corpus:laplace(x*y**2*u) sym'))
            out.append((env, cc.inner(cc.grad(sympy.sin(x_) * Fh), cc.grad(Fh)), 'corpus:inner(grad(sin(x)*F),grad F) sym'))
        if (dim, mt) in ((2, 'polar'), (2, 'polyneg')):
            from sympde.calculus.matrices import Transpose
            f = sympy.sin(env.coords[0] * env.coords[1]) + env.coords[0] ** 2
            uu = env.sf['undefined'][0]
            Fh, Gh = env.vf['h1']
            out.append((env, cc.grad(f * u), 'corpus:grad(f*u) %s' % mt))
            out.append((env, cc.laplace(f * uu), 'corpus:laplace(f*u) %s' % mt))
            out.append((env, cc.div(f * env.vf['hdiv'][0]), 'corpus:div(f*q) %s' % mt))
            out.append((env, Transpose(cc.grad(Fh)), 'corpus:Transpose(grad(F)) %s' % mt))
            out.append((env, cc.inner(cc.grad(Fh) + Transpose(cc.grad(Fh)), cc.grad(Gh)), 'corpus:symmetric gradient %s' % mt))
    return out


def oracle(ctx, factor, seeds):
    o = Oracle()
    for env, e, key in fixed_corpus(ctx):
        check_case(ctx, o, env, e, key, limit=120)
    n = (260 if ctx.thorough else 22) * factor
    for env, e, kind in sample_stream(ctx, n):
        if e is None:
            o.count(kind)
            continue
        check_case(ctx, o, env, e, None, limit=60 if ctx.thorough else 20)
    return o


def replay(ctx, path):
    import sys
    from harness.common import generic_replay
    return generic_replay(sys.modules[__name__], ctx, path)
