"""C12 — results depend only on inputs: no leakage from history, cache or hash seed.

translator (GEN): the identity table Gen/Identity.lean, learnt from the live classes on every run.
correspondence: the memo model (Model/Memo.lean: a table keyed by what ==/hash read) against the real
`@cacheit` on TerminalExpr.eval: random histories of calls / clear_cache() on objects that reuse names.
oracle: differential execution - every computation is run alone in a fresh interpreter state and after
random histories, under several PYTHONHASHSEED values, with the cache on / cleared / off, with permuted
supplies, with snapshots of the inputs before and after.
"""
import copy
import json
import os
import subprocess
import sys
import threading

from harness.common import Corr, Oracle, ROOT
from harness.sexp import A, dumps, loads_all
from harness.translate import identity

PID = 'C12'
PROPS_MODULE = 'SympdeModel.Props.C12'
GEN = [identity.generate]
LEANCHECKER = True
RULE = ('computations = 21 parametrised recipes on the real API (joins of two squares with catalogue mappings of numeric parameters: the interface mapping / Jacobians / lowered interface kernels after an earlier join under the same names, Domain.corners of nx x ny arrangements of squares under every hash seed, Mapping.constants of catalogue mappings with symbolic parameters, multi-patch domains built directly from interiors + boundaries with patches of different bounds listed in any order: dtype / todict / export-from_file against the recipe\'s own table, joins of patches with symbolic mappings and lowerings on the same objects with / without an earlier join, symmetric products of same-class operands over one function, chains of coordinate operators, catalogue mappings with numeric parameter sets, sums of integrals over different regions in every operand order and association, interface forms with explicit normals / Dn / jump / avg, TerminalExpr of grad/laplace/dot/div/curl/rot, bilinear forms with '
        'domain and boundary integrals, LogicalExpr on plain / polar / identity mapped squares for every space kind, SymbolicExpr, '
        'derivative-index helpers, hodge/d/infere_type on differential forms, Union, Domain.join + todict, Dot/Inner of permuted '
        'operands, Equation with essential BCs, mapped n-cubes) with names drawn from small pools; case = (history of 1-6 '
        'computations with clear_cache() at random points, final computation); modes: hygienic history (fresh names), consistent '
        'universe (equal names = equal objects), free reuse (equal names, different dimension / kind / mapping / bounds / degree). '
        'Each case is executed in forked children of worker interpreters (pristine state after `import sympde`): the final '
        'computation alone (reference), history + final under 5 (quick) / 40 (thorough) PYTHONHASHSEED values with the cache on, and '
        'with SYMPY_USE_CACHE=no; permuted supplies are compared with the identity order; inputs are snapshotted (structure + every '
        'instance attribute of every node) before and after each computation. Correspondence cases: random call/clear histories '
        'over objects with name collisions, real results vs the memo model fed with the real ==/hash classes and fresh values')
ASSUMPTIONS = [
    'a forked child of an interpreter that has only imported sympde stands for a fresh interpreter (same module state, pristine '
    'sympy cache); PYTHONHASHSEED and SYMPY_USE_CACHE are per worker process',
    'the `reads` column of the identity table is learnt by differential execution on one pair of instances per (class, attribute) '
    'with the cache cleared before every evaluation - not derived from the source text',
    'results are compared as printed form + structural dump (class names, argument order, dim of topological atoms)',
    'lazily filled private memo attributes (_mhash, _assumptions, _hash, _prop_handler) are not counted as alterations of an input',
]
MIN_NONTRIVIAL = 2
WORKER = os.path.join(ROOT, 'harness', 'c12worker.py')


# --------------------------------------------------------------------------- worker processes

class Server:
    def __init__(self, repo, seed, cache=True):
        env = dict(os.environ)
        env['SYMPDE_REPO'] = repo
        env['PYTHONHASHSEED'] = str(seed)
        if cache:
            env.pop('SYMPY_USE_CACHE', None)
        else:
            env['SYMPY_USE_CACHE'] = 'no'
        self.seed, self.cache = seed, cache
        self.p = subprocess.Popen([sys.executable, WORKER], stdin=subprocess.PIPE, stdout=subprocess.PIPE,
                                  stderr=subprocess.PIPE, text=True, env=env)
        self.lock = threading.Lock()

    def ask(self, steps):
        with self.lock:
            self.p.stdin.write(json.dumps({'steps': steps}) + '\n')
            self.p.stdin.flush()
            line = self.p.stdout.readline()
        if not line:
            raise RuntimeError('worker (seed %s) died: %s' % (self.seed, self.p.stderr.read()[-1500:]))
        ans = json.loads(line)
        if 'crash' in ans:
            return [{'err': 'CRASH ' + ans['crash']}] * len(steps)
        return ans['out']

    def close(self):
        try:
            self.p.stdin.close()
            self.p.wait(timeout=20)
        except Exception:
            self.p.kill()


class Farm:
    """one worker per (hash seed, cache switch); jobs for different workers run concurrently"""

    def __init__(self, repo, seeds):
        self.on = [Server(repo, s, True) for s in seeds]
        self.off = Server(repo, seeds[0], False)

    def all(self):
        return self.on + [self.off]

    def subset(self, rng, n, off_p):
        """the reference worker, n-1 other hash seeds chosen at random, sometimes the cache-off worker"""
        others = self.on[1:]
        pick = rng.sample(others, min(len(others), n - 1))
        return [self.on[0]] + pick + ([self.off] if rng.random() < off_p else [])

    def map(self, servers, steps):
        res = [None] * len(servers)

        def work(i, sv):
            try:
                res[i] = sv.ask(steps)
            except Exception as e:
                res[i] = [{'err': 'INFRA %r' % (e,)}] * len(steps)
        ts = [threading.Thread(target=work, args=(i, sv)) for i, sv in enumerate(servers)]
        for t in ts:
            t.start()
        for t in ts:
            t.join()
        return res

    def close(self):
        for s in self.all():
            s.close()


def view(out):
    """what is compared of one computation"""
    if 'err' in out:
        return ('err', out['err'])
    return (out['s'], out['t'])


# --------------------------------------------------------------------------- generators

POOLS = {'domain': ['Omega', 'D'], 'space': ['V', 'W'], 'function': ['u', 'w'], 'vfunction': ['F', 'G'],
         'mapping': ['M', 'N'], 'form': ['v1', 'w2']}
CLASSES = ['domain', 'space', 'function', 'mapping', 'form']


class Universe:
    """names -> attributes; `consistent` = a name always denotes the same object"""

    def __init__(self, rng, consistent):
        self.rng, self.consistent, self.memo = rng, consistent, {}

    def pick(self, kind, key, gen):
        if not self.consistent:
            return gen()
        k = (kind, key)
        if k not in self.memo:
            self.memo[k] = gen()
        return copy.deepcopy(self.memo[k])

    def dom(self, shape=None, dims=(1, 2, 3)):
        r = self.rng
        name = r.choice(POOLS['domain'])

        def gen():
            sh = shape or r.choice(['abs', 'abs', 'cube', 'map'])
            dim = r.choice(dims)
            if sh == 'abs':
                return ['abs', name, dim]
            if sh == 'cube':
                return ['cube', name, dim, r.choice([0, 1, 5])]
            d2 = r.choice([d for d in dims if d >= 2] or [2])
            return ['map', r.choice(POOLS['mapping']), r.choice(['plain', 'plain', 'polar', 'identity']), name, d2, r.choice([0, 1])]
        d = self.pick('dom', (name, shape, tuple(dims)), gen)
        if self.consistent and d[0] == 'map':
            # the mapping name denotes one mapping, too
            m = self.pick('map', d[1], lambda: [d[2], d[4]])
            d[2], d[4] = m[0], m[1]
        return d

    def space(self, vec, dom):
        r = self.rng
        name = r.choice(POOLS['space'])
        kinds = ['h1', 'hcurl', 'hdiv', 'l2', None] if vec else ['h1', 'h1', None, None, 'l2']
        s = self.pick('space', (name, vec, json.dumps(dom)), lambda: ['V' if vec else 'S', name, r.choice(kinds)])
        return s

    def fn(self, vec, sp, dom):
        name = self.rng.choice(POOLS['vfunction'] if vec else POOLS['function'])
        self.pick('fn', (name,), lambda: [json.dumps(sp), json.dumps(dom)])
        return name


def dom_dim(d):
    return d[2] if d[0] != 'map' else d[4]


def gen_step(rng, U):
    k = rng.choice(['tgrad', 'tgrad', 'tvec', 'form', 'logical', 'symbolic', 'idxder', 'hodge', 'union', 'join', 'comm',
                    'equation', 'mapped', 'chain', 'chain', 'amap', 'intsum', 'iface', 'joinlow', 'symprod', 'mpatch', 'mjoin', 'corners'])
    if k == 'mjoin':
        return gen_mjoin(rng, U)
    if k == 'corners':
        return gen_corners(rng, U)
    if k == 'mpatch':
        return gen_mpatch(rng, U)
    if k == 'joinlow':
        return gen_joinlow(rng, U)
    if k == 'symprod':
        return gen_symprod(rng, U)
    if k == 'iface':
        return gen_iface(rng, U)
    if k == 'amap':
        return gen_amap(rng, U)
    if k == 'intsum':
        return gen_intsum(rng, U)
    if k == 'chain':
        # chains of coordinate operators sharing inner derivatives (added after seed C12-2)
        d = U.dom(shape='abs')
        sp = U.space(False, d)
        dim = dom_dim(d)
        fam = rng.choice([['dx1', 'dx2', 'dx3'], ['dx1', 'dx2', 'dx3'], ['dx', 'dy', 'dz']])[:dim]
        inner = rng.choice(fam)
        ops = [inner] + [rng.choice(fam) for _ in range(rng.choice([1, 1, 2]))]
        return {'r': k, 'p': {'dom': d, 'sp': sp, 'fn': U.fn(False, sp, d), 'ops': ops}}
    if k == 'tgrad':
        d = U.dom()
        sp = U.space(False, d)
        return {'r': k, 'p': {'dom': d, 'sp': sp, 'fn': U.fn(False, sp, d), 'op': rng.choice(['grad', 'lap', 'gg'])}}
    if k == 'tvec':
        d = U.dom(dims=(2, 3))
        sp = U.space(True, d)
        op = rng.choice(['div', 'dotFF', 'curl' if dom_dim(d) == 3 else 'rot'])
        return {'r': k, 'p': {'dom': d, 'sp': sp, 'fn': U.fn(True, sp, d), 'op': op}}
    if k == 'form':
        d = U.dom(shape=rng.choice(['abs', 'cube']))
        sp = U.space(False, d)
        f1 = U.fn(False, sp, d)
        p = {'dom': d, 'sp': sp, 'fn': f1, 'fn2': f1 + 't'}
        if d[0] == 'cube':
            p['bnd'] = [rng.randrange(6) for _ in range(rng.choice([0, 1, 2]))]
        return {'r': k, 'p': p}
    if k == 'logical':
        d = U.dom(shape='map', dims=(2,))       # a symbolic 3-D mapping costs minutes per call without cache
        vec = rng.random() < 0.5
        sp = U.space(vec, d)
        op = rng.choice(['div', 'dot']) if vec else rng.choice(['dx', 'grad', 'dxdy'])
        if op == 'dxdy' and (dom_dim(d) == 3 or d[2] == 'plain'):
            op = 'dx'           # second derivatives through a symbolic 3-D mapping take minutes without cache
        return {'r': k, 'p': {'dom': d, 'sp': sp, 'fn': U.fn(vec, sp, d), 'op': op}}
    if k in ('symbolic', 'idxder'):
        d = U.dom(shape='abs')
        sp = U.space(False, d)
        return {'r': k, 'p': {'dom': d, 'sp': sp, 'fn': U.fn(False, sp, d)}}
    if k == 'hodge':
        name = rng.choice(POOLS['form'])
        kn = U.pick('form', name, lambda: (lambda n: [rng.randint(0, n), n])(rng.choice([2, 3])))
        return {'r': k, 'p': {'name': name, 'k': kn[0], 'n': kn[1]}}
    if k == 'union':
        dim = U.pick('uniondim', 0, lambda: rng.choice([1, 2, 3]))
        names = rng.sample(['A', 'B', 'C', 'Dd', 'E'], rng.randint(2, 4))
        return {'r': k, 'p': {'names': names, 'dim': dim}}
    if k == 'join':
        dim = U.pick('joindim', 0, lambda: rng.choice([1, 2, 3]))
        n = rng.randint(2, 3)
        patches = [['cube', 'P%d' % i, dim, i] for i in range(n)]
        if dim >= 2 and rng.random() < 0.4:
            # patches with symbolic mappings: join builds InterfaceMappings from the patches' mappings
            patches = [['map', 'F%d' % i, 'plain', 'P%d' % i, dim, i] for i in range(n)]
        conns = []
        for i in range(n - 1):
            cn = [[i, 0, 1], [i + 1, 0, -1]]
            if dim == 2:
                cn.append(rng.choice([1, -1]))
            elif dim == 3:
                cn.append([1, rng.choice([1, -1]), rng.choice([1, -1])])
            conns.append(cn)
        if dim >= 2 and n == 3 and rng.random() < 0.5:
            conns.append([[0, 1, 1], [2, 1, -1]] + ([1] if dim == 2 else [[1, 1, -1]]))
        rng.shuffle(conns)
        return {'r': k, 'p': {'patches': patches, 'conns': conns, 'name': rng.choice(POOLS['domain'])}}
    if k == 'comm':
        d = U.dom(shape='abs', dims=(2, 3))
        sp = U.space(True, d)
        return {'r': k, 'p': {'dom': d, 'sp': sp, 'fns': ['F', 'G']}}
    if k == 'equation':
        d = U.dom(shape='cube', dims=(1, 2))
        return {'r': k, 'p': {'dom': d, 'sp': rng.choice(POOLS['space']), 'fn': rng.choice(POOLS['function']),
                              'single': rng.random() < 0.4}}
    d = U.dom(shape='map', dims=(2, 3))
    return {'r': 'mapped', 'p': {'dom': d}}


CATALOGUE = {
    # analytical mappings of the catalogue with their numeric parameters (2-D); Collela / Czarny cost 10-20 s per
    # lowering without cache and are left out
    'PolarMapping': {'c1': [0, 1, -2], 'c2': [0, 3], 'rmin': [0, 1, 0.5], 'rmax': [1, 3, 2]},
    'TargetMapping': {'c1': [0, 1], 'c2': [0, 2], 'k': [0.3, 0.1, 0.5], 'D': [0.2, 0.1, 0.4]},
    'AffineMapping': {'c1': [0, 1], 'c2': [0, 2], 'a11': [1, 2, 3], 'a12': [0, 1], 'a21': [0, 1], 'a22': [1, 3, 5]},
}


def fix_params(mcls, params):
    """numeric parameter sets that give an invertible mapping (only where both numbers are given)"""
    if mcls == 'PolarMapping' and 'rmax' in params and 'rmin' in params and params['rmax'] <= params['rmin']:
        params['rmax'] = params['rmin'] + 2
    if mcls == 'AffineMapping' and all(k in params for k in ('a11', 'a12', 'a21', 'a22')) \
            and params['a11'] * params['a22'] == params['a12'] * params['a21']:
        params['a22'] += 1
    return params


def gen_amap(rng, U):
    """a catalogue mapping with a random parameter set - numeric, or (one case in seven) with some or all parameters left
    symbolic, so that the mapping has `constants` - applied to a square"""
    mname = rng.choice(POOLS['mapping'])

    def gen():
        mcls = rng.choice(['AffineMapping', 'AffineMapping', 'PolarMapping', 'PolarMapping', 'TargetMapping'])
        params = {k: rng.choice(v) for k, v in sorted(CATALOGUE[mcls].items())}
        if rng.random() < 0.15:
            keys = sorted(params)
            for k in (keys if rng.random() < 0.4 else rng.sample(keys, rng.randint(1, len(keys)))):
                del params[k]
        return [mcls, params]
    mcls, params = U.pick('amap', mname, gen)
    fix_params(mcls, params)
    d = U.dom(shape='cube', dims=(2,))
    sp = U.space(False, d)
    p = {'mcls': mcls, 'mname': mname, 'params': params, 'dom': d, 'sp': sp,
         'fn': U.fn(False, sp, d), 'op': rng.choice(['dx', 'dx', 'dy'])}
    if len(params) < len(CATALOGUE[mcls]) and (mcls != 'AffineMapping' or rng.random() < 0.7):
        p['lower'] = False        # lowering through symbolic parameters costs 10 s and more without the cache
    return {'r': 'amap', 'p': p}


MJ_CATALOGUE = {k: CATALOGUE[k] for k in ('AffineMapping', 'PolarMapping', 'TargetMapping')}


def gen_mjoin(rng, U, lower=None):
    """two squares side by side, each mapped by its own catalogue mapping (numeric parameters), joined: what the interface
    knows of the geometry and (lower) the kernels of an interface form; added after seed C12-9"""
    # (in a consistent universe the patch names are the recipe's own: 'A' is a 1-3 D cube elsewhere)
    names = ['Am', 'Bm'] if U is not None and U.consistent else rng.choice([['A', 'B'], ['A', 'B'], ['P0', 'P1']])
    mnames = rng.sample(['F1', 'F2', 'M', 'N'], 2)
    maps = []
    for mn in mnames:
        def gen():
            mcls = rng.choice(['AffineMapping', 'AffineMapping', 'AffineMapping', 'PolarMapping', 'TargetMapping'])
            return [mcls, fix_params(mcls, {k: rng.choice(v) for k, v in sorted(MJ_CATALOGUE[mcls].items())})]
        mcls, params = U.pick('amap', mn, gen) if U is not None else gen()
        if len(params) < len(MJ_CATALOGUE[mcls]):          # the name denotes a mapping with symbolic parameters (amap)
            params = fix_params(mcls, dict({k: v[0] for k, v in MJ_CATALOGUE[mcls].items()}, **params))
            if U is not None and U.consistent:
                mn = mn + 'j'
        maps.append([mn, mcls, params])
    own = '_mj' if U is not None and U.consistent else ''
    return {'r': 'mjoin', 'p': {'names': names, 'name': rng.choice(POOLS['domain']) + own, 'amaps': maps, 'sp': rng.choice(POOLS['space']),
                                'fn': rng.choice(POOLS['function']), 'bil': rng.choice(['jj', 'jj', 'aj']),
                                'lower': (rng.random() < 0.6) if lower is None else lower}}


GRIDS = [[2, 2], [2, 2], [2, 1], [1, 2], [3, 1], [3, 2], [2, 3]]


def gen_corners(rng, U):
    """an nx x ny arrangement of unit squares joined along all inner edges; result = Domain.corners (printed, members,
    structure) - the walk around a vertex goes through sets, so the hash seed must not show; added after seed C12-10"""
    grid = U.pick('cgrid', 0, lambda: rng.choice(GRIDS))
    n = grid[0] * grid[1]
    pool = rng.choice([['A0', 'A1', 'A2', 'A3', 'A4', 'A5'], ['Q0', 'Q1', 'Q2', 'Q3', 'Q4', 'Q5'], ['zc', 'za', 'ze', 'zb', 'zf', 'zd']])
    names = U.pick('cnames', pool[0], lambda: pool[:n])
    p = {'grid': grid, 'names': names, 'name': rng.choice(POOLS['domain']) + ('_cg' if U.consistent else '')}
    nconn = grid[0] * (grid[1] - 1) + grid[1] * (grid[0] - 1)
    if rng.random() < 0.5:
        p['corder'] = rng.sample(range(nconn), nconn)
    if rng.random() < 0.5:
        p['porder'] = rng.sample(names, n)
    return {'r': 'corners', 'p': p}


IFACE_BIL = ['jn_jdn', 'jj', 'adn_j', 'mp', 'jn_a', 'fn_gn', 'dn_n']
IFACE_LIN = ['jdn', 'jn', 'a_dnp']


def gen_iface(rng, U):
    """forms over the interface of two joined patches (explicit normals 'n' / 'nn', Dn, jump, avg, minus, plus)"""
    dim = U.pick('ifacedim', 0, lambda: rng.choice([1, 2, 2, 3]))
    return {'r': 'iface', 'p': {'dim': dim, 'names': ['A', 'B'], 'name': rng.choice(POOLS['domain']), 'sp': rng.choice(POOLS['space']),
                                'fn': rng.choice(POOLS['function']), 'normal': rng.choice(['n', 'n', 'nn']),
                                'bil': rng.sample(IFACE_BIL, rng.randint(1, 3)), 'lin': rng.sample(IFACE_LIN, rng.randint(0, 2))}}


def gen_joinlow(rng, U, join_first=None):
    """two patches with symbolic mappings; Domain.join on them first or not; then a form on one of them is lowered"""
    ms = rng.sample(['F1', 'F2', 'M', 'N'], 2)
    return {'r': 'joinlow', 'p': {'dim': 2, 'maps': ms, 'names': ['A', 'B'], 'name': rng.choice(POOLS['domain']),
                                  'sp': rng.choice(POOLS['space']), 'fn': rng.choice(POOLS['function']),
                                  'side': rng.choice(['plus', 'plus', 'minus']),
                                  'join_first': (rng.random() < 0.5) if join_first is None else join_first}}


SYMPAIRS = {'gg_lap': (2, 3), 'cc': (3,), 'f_cf': (3,), 'inner_gg': (2, 3), 'gdiv': (2, 3), 'cross_cc': (3,)}


def gen_symprod(rng, U):
    """dot / inner / cross of two operands of one class built from the same function with different nesting depth"""
    pair = rng.choice(sorted(SYMPAIRS))
    dim = rng.choice(SYMPAIRS[pair])
    return {'r': 'symprod', 'p': {'dom': ['cube', rng.choice(POOLS['domain']), dim, 0], 'sp': rng.choice(POOLS['space']),
                                  'fn': rng.choice(POOLS['function']), 'pair': pair}}


MP_NAMES = ['A', 'B', 'C', 'P0', 'P1', 'Q', 'a', 'Z_2', 'Omega_1', 'Omega_2']


def gen_mpatch(rng, U, n=None):
    """a multi-patch domain built directly with Domain(name, interiors=[...], boundaries=[...]): 1-4 n-cube patches of
    pairwise different bounds (sometimes one undefined InteriorDomain among them), listed in random - in general not
    sorted - order of their names; all faces or a subset of them as boundaries, in patch order or reversed"""
    dim = U.pick('mpdim', 0, lambda: rng.choice([1, 2, 2, 3]))
    dname = rng.choice(POOLS['domain'])

    def bounds():
        bs = []
        for _ in range(dim):
            lo = rng.choice([0, 1, 2, -1, 0.5, 3])
            bs.append([lo, lo + rng.choice([1, 2, 0.5, 4])])
        return bs

    def gen():
        k = n or rng.choice([1, 2, 2, 3, 3, 4])
        cells, seen = [], set()
        for nm in rng.sample(MP_NAMES, k):
            for _ in range(20):
                bs = U.pick('cell', nm, bounds)
                if json.dumps(bs) not in seen or U.consistent or rng.random() < 0.1:   # now and then two patches with the same bounds
                    break
            seen.add(json.dumps(bs))
            cells.append([nm, bs])
        p = {'name': dname, 'cells': cells, 'pdim': dim}
        if k >= 2 and not U.consistent and rng.random() < 0.15:
            cells[rng.randrange(k)][1] = None                        # an undefined interior (dtype None)
        if rng.random() < 0.3:
            p['faces'] = rng.sample(range(2 * dim), rng.randint(1, 2 * dim))
        if rng.random() < 0.3:
            p['brev'] = True
        return p
    p = U.pick('mpatch', dname, gen)
    return {'r': 'mpatch', 'p': p}


def gen_intsum(rng, U):
    """a sum of 2 or 3 integrals over pairwise different regions (0 = the interior, k = the k-th face)"""
    d = U.dom(shape='cube', dims=(2, 3))
    sp = U.space(False, d)
    n = rng.choice([2, 2, 3])
    nfaces = 2 * dom_dim(d)
    regions = rng.sample(list(range(nfaces + 1)), n)
    if 0 not in regions and rng.random() < 0.7:
        regions[rng.randrange(n)] = 0
    sp[2] = None
    return {'r': 'intsum', 'p': {'dom': d, 'sp': sp, 'fn': U.fn(False, sp, d), 'regions': regions,
                                 'shape': rng.choice(['left', 'right'])}}


def perturb(rng, step):
    """a computation that looks like `step` (same recipe, same names) but differs in one or two attributes:
    dimension, shape, bounds, mapping type, space kind, degree - the targeted form of name reuse"""
    st = copy.deepcopy(step)
    p = st['p']
    for _ in range(rng.choice([1, 1, 2])):
        opts = []
        if 'dom' in p:
            opts += ['dim', 'lo' if p['dom'][0] != 'abs' else 'dim', 'mtype' if p['dom'][0] == 'map' else 'dim']
        if isinstance(p.get('sp'), list):
            opts.append('kind')
        if st['r'] == 'hodge':
            opts += ['k', 'n']
        if st['r'] == 'amap':
            opts = ['mparams', 'mparams', 'mparams', 'lo', 'kind']
        if st['r'] == 'mjoin':
            opts = ['jparams', 'jparams', 'jparams', 'jclass']
        if st['r'] == 'corners':
            opts = ['grid']
        if 'dim' in p:
            opts.append('pdim')
        if st['r'] == 'mpatch':
            opts = ['cellbounds', 'cellswap'] if len(p['cells']) > 1 else ['cellbounds']
        if not opts:
            return st
        o = rng.choice(opts)
        if o == 'dim':
            d = p['dom']
            i = 4 if d[0] == 'map' else 2
            allowed = {'tvec': (2, 3), 'logical': (2,), 'comm': (2, 3), 'equation': (1, 2), 'mapped': (2, 3)}.get(st['r'], (1, 2, 3))
            d[i] = rng.choice([x for x in allowed if x != d[i]] or [d[i]])
            if st['r'] == 'tvec' and p.get('op') in ('curl', 'rot'):
                p['op'] = 'curl' if d[i] == 3 else 'rot'
        elif o == 'lo':
            p['dom'][-1] = p['dom'][-1] + rng.choice([1, 2, 7])
        elif o == 'mtype':
            p['dom'][2] = rng.choice([x for x in ('plain', 'polar', 'identity') if x != p['dom'][2]])
        elif o == 'kind':
            kinds = ['h1', 'hcurl', 'hdiv', 'l2', None] if p['sp'][0] == 'V' else ['h1', None, 'l2']
            p['sp'][2] = rng.choice([x for x in kinds if x != p['sp'][2]])
        elif o == 'mparams':
            # the same class and name, another parameter set (other numbers; now and then numeric <-> symbolic)
            cat = CATALOGUE[p['mcls']]
            for k in rng.sample(sorted(cat), rng.randint(1, len(cat))):
                if k in p['params'] and rng.random() < 0.15:
                    del p['params'][k]
                    p['lower'] = False
                else:
                    p['params'][k] = rng.choice([x for x in cat[k] if x != p['params'].get(k)])
            fix_params(p['mcls'], p['params'])
        elif o in ('jparams', 'jclass'):
            # the same patch, mapping and domain names; other parameters (or another class) for one or both mappings
            for m in rng.sample(p['amaps'], rng.choice([1, 2])):
                if o == 'jclass':
                    m[1] = rng.choice([c for c in sorted(MJ_CATALOGUE) if c != m[1]])
                    m[2] = {k: rng.choice(v) for k, v in sorted(MJ_CATALOGUE[m[1]].items())}
                else:
                    for k in rng.sample(sorted(m[2]), rng.randint(1, len(m[2]))):
                        m[2][k] = rng.choice([x for x in MJ_CATALOGUE[m[1]][k] if x != m[2][k]])
                fix_params(m[1], m[2])
        elif o == 'grid':
            # the same patch names in another arrangement
            n = p['grid'][0] * p['grid'][1]
            alt = [g for g in GRIDS if g[0] * g[1] == n and g != p['grid']]
            if alt:
                p['grid'] = rng.choice(alt)
                p.pop('corder', None)
            elif p.get('porder'):
                p['names'] = list(reversed(p['names']))
                p['porder'] = list(reversed(p['porder']))
        elif o == 'cellbounds':
            # the same patch names, other bounds for one of them
            c = rng.choice([c for c in p['cells'] if c[1] is not None] or [None])
            if c is not None:
                ax = rng.randrange(len(c[1]))
                c[1][ax] = [c[1][ax][0] + rng.choice([1, 2, 7]), c[1][ax][1] + rng.choice([7, 8])]
        elif o == 'cellswap':
            # the same patch names and the same bounds, attached to each other's name
            i, j = rng.sample(range(len(p['cells'])), 2)
            p['cells'][i][1], p['cells'][j][1] = p['cells'][j][1], p['cells'][i][1]
        elif o == 'k':
            p['k'] = rng.choice([x for x in range(p['n'] + 1) if x != p['k']] or [p['k']])
        elif o == 'n':
            p['n'] = 5 - p['n']
            p['k'] = min(p['k'], p['n'])
        elif o == 'pdim':
            p['dim'] = rng.choice([x for x in (1, 2, 3) if x != p['dim']])
            if 'patches' in p:
                return step     # a join in another dimension needs other connections: keep it as it is
    return st


def rename(step, classes, suffix):
    """the same computation on objects whose names (of the given classes) carry a suffix"""
    st = copy.deepcopy(step)
    p = st.get('p', {})

    def ren_dom(d):
        if 'domain' in classes:
            d[3 if d[0] == 'map' else 1] += suffix
        if 'mapping' in classes and d[0] == 'map':
            d[1] += suffix
    if 'dom' in p:
        ren_dom(p['dom'])
    if 'mname' in p and 'mapping' in classes:
        p['mname'] += suffix
    if 'patches' in p:
        for d in p['patches']:
            ren_dom(d)
        if 'domain' in classes:
            p['name'] += suffix
    if 'names' in p and 'domain' in classes:
        p['names'] = [n + suffix for n in p['names']]
        if 'porder' in p:
            p['porder'] = [n + suffix for n in p['porder']]
        if st.get('r') in ('iface', 'joinlow', 'mjoin', 'corners'):
            p['name'] += suffix
    if 'cells' in p and 'domain' in classes:
        p['cells'] = [[c[0] + suffix, c[1]] for c in p['cells']]
        p['name'] += suffix
    if 'maps' in p and 'mapping' in classes:
        p['maps'] = [m + suffix for m in p['maps']]
    if 'amaps' in p and 'mapping' in classes:
        p['amaps'] = [[m[0] + suffix] + m[1:] for m in p['amaps']]
    if 'space' in classes:
        if isinstance(p.get('sp'), list):
            p['sp'][1] += suffix
        elif isinstance(p.get('sp'), str):
            p['sp'] += suffix
    if 'function' in classes:
        for k in ('fn', 'fn2'):
            if k in p:
                p[k] += suffix
        if 'fns' in p:
            p['fns'] = [n + suffix for n in p['fns']]
    if 'form' in classes and st.get('r') == 'hodge':
        p['name'] += suffix
    return st


def step_str(st):
    if st['r'] == 'clear':
        return 'clear_cache()'
    return '%s%s' % (st['r'], json.dumps(st['p'], sort_keys=True))


def with_clears(rng, hist):
    out = []
    for st in hist:
        out.append(st)
        if rng.random() < 0.2:
            out.append({'r': 'clear'})
    return out


ORDERED = {'union': lambda p: len(p['names']), 'join': lambda p: len(p['conns']), 'comm': lambda p: 2,
           'form': lambda p: 2 + len(p.get('bnd') or []), 'intsum': lambda p: len(p['regions']), 'symprod': lambda p: 2,
           'mpatch': lambda p: len(p['cells'])}
WHAT = {'intsum': 'the sum of integrals over different regions', 'symprod': 'the symmetric product',
        'mpatch': 'the multi-patch domain built from its interiors and boundaries'}


# --------------------------------------------------------------------------- correspondence: the memo model

def correspondence(ctx):
    c = Corr()
    rng = ctx.rng
    sv = Server(ctx.repo, 0, True)
    try:
        ncase = 300 if ctx.thorough else 30
        lines, metas = [], []
        for i in range(ncase):
            # objects: TerminalExpr(grad u | laplace u, Omega) with colliding names
            nobj = rng.randint(2, 5)
            objs = []
            for _ in range(nobj):
                objs.append({'dom': ['abs', rng.choice(POOLS['domain']), rng.choice([1, 2, 3])],
                             'sp': ['S', rng.choice(POOLS['space']), None],
                             'fn': rng.choice(POOLS['function']), 'op': rng.choice(['grad', 'lap'])})
            # fresh values, one pristine child each; ==/hash classes from one child
            fresh = [view(sv.ask([{'r': 'tgrad', 'p': o}])[0]) for o in objs]
            keys = sv.ask([{'r': 'tkeys', 'p': {'objs': objs}}])[0]
            if 'err' in keys:
                c.disagreements.append({'input': json.dumps(objs), 'impl': keys['err'], 'model': 'n/a', 'note': 'key classes'})
                continue
            cls = json.loads(keys['s'])
            ops = []
            for _ in range(rng.randint(3, 12 if ctx.thorough else 9)):
                ops.append('clear' if rng.random() < 0.15 else rng.randrange(nobj))
            steps = [{'r': 'clear'} if o == 'clear' else {'r': 'tgrad', 'p': objs[o]} for o in ops]
            real = sv.ask(steps)
            vals = sorted(set(fresh))
            sobjs = [[cls[j], 'v%d' % vals.index(fresh[j])] for j in range(nobj)]
            sops = [A('clear') if o == 'clear' else [A('call'), 0, o] for o in ops]
            lines.append('C12 run %s %s' % (dumps([A('objs')] + sobjs), dumps([A('ops')] + sops)))
            metas.append((objs, ops, real, vals, cls, fresh))
        outs = ctx.driver.run(lines)
        for line, out, (objs, ops, real, vals, cls, fresh) in zip(lines, outs, metas):
            c.evaluations += 1
            if not out.startswith('ok '):
                c.disagreements.append({'input': line, 'impl': '', 'model': out, 'note': 'model refused'})
                continue
            pred = [str(x) for x in loads_all(out[3:])[0]]
            got = []
            for o, r in zip(ops, real):
                if o == 'clear':
                    got.append('-')
                else:
                    v = view(r)
                    got.append('v%d' % vals.index(v) if v in vals else 'OTHER:' + repr(v)[:200])
            hits = sum(1 for k, o in enumerate(ops) if o != 'clear' and got[k] != 'v%d' % vals.index(fresh[o]))
            c.count('history:calls', sum(1 for o in ops if o != 'clear'))
            c.count('history:clears', sum(1 for o in ops if o == 'clear'))
            c.count('history:stale-values-returned', hits)
            if got != pred:
                c.disagreements.append({'input': line, 'impl': ' '.join(got), 'model': ' '.join(pred),
                                        'note': 'memo model vs real cache; objects %s' % json.dumps(objs)})
            if len(set(cls)) < len(cls) or hits:
                c.nontrivial.add(line)
            if len(c.samples) < 3 and hits:
                c.samples.append({'request': line, 'impl': ' '.join(got), 'model': out,
                                  'objects': [json.dumps(o) for o in objs]})
    finally:
        sv.close()
    return c


# --------------------------------------------------------------------------- oracle

def named(st):
    """class -> {name: attributes} of the objects a computation builds"""
    out = {c: {} for c in CLASSES}
    p = st.get('p', {})

    def dom(d):
        if d[0] == 'map':
            out['domain'][d[3]] = ('cube', d[4], d[5])
            out['mapping'][d[1]] = (d[2], d[4])
        else:
            out['domain'][d[1]] = tuple(d[0:1] + d[2:])
    if 'dom' in p:
        dom(p['dom'])
    for d in p.get('patches', []):
        dom(d)
    if 'patches' in p:
        out['domain'][p['name']] = ('joined', json.dumps(p['patches']), json.dumps(p['conns']))
    for i, n in enumerate(p.get('names', [])):
        out['domain'][n] = ('interior', p.get('dim', 2))
        if 'grid' in p:
            x, y = i % p['grid'][0], i // p['grid'][0]
            out['domain'][n] = ('cell', 2, json.dumps([[x, x + 1], [y, y + 1]]))
    if 'grid' in p:
        out['domain'][p['name']] = ('grid', json.dumps(p['grid']), json.dumps(p['names']))
    for m_ in p.get('amaps', []):
        out['mapping'][m_[0]] = (m_[1], 2, json.dumps(m_[2], sort_keys=True))
    for c in p.get('cells', []):
        out['domain'][c[0]] = ('cell', p['pdim'], json.dumps(c[1]))
    if 'cells' in p:
        out['domain'][p['name']] = ('patches', json.dumps(sorted(p['cells'], key=lambda c: c[0])))
    ctx = json.dumps(p.get('dom'))
    if isinstance(p.get('sp'), list):
        out['space'][p['sp'][1]] = (p['sp'][0], p['sp'][2], ctx)
    elif isinstance(p.get('sp'), str):
        out['space'][p['sp']] = ('S', None, ctx)
        out['space'][p['sp'] + '2'] = ('S', None, ctx)
    for k in ('fn', 'fn2'):
        if k in p:
            out['function'][p[k]] = (json.dumps(p.get('sp')), ctx)
    for n in p.get('fns', []):
        out['function'][n] = (json.dumps(p.get('sp')), ctx)
    if st.get('r') == 'hodge':
        out['form'][p['name']] = (p['k'], p['n'])
    for m_ in p.get('maps', []):
        out['mapping'][m_] = ('plain', p['dim'])
    if st.get('r') == 'amap':
        out['mapping'][p['mname']] = (p['mcls'], 2, json.dumps(p['params'], sort_keys=True))
    return out


def explain(farm, ref, culprit, final):
    """the class of names (root cause first) that denote different objects in the two computations and whose
    renaming in the earlier computation removes the difference; [] if there is none"""
    sv = farm.on[0]
    a, b = named(culprit), named(final)
    for cls in ['domain', 'form', 'mapping', 'space', 'function']:
        clash = [n for n in a[cls] if n in b[cls] and a[cls][n] != b[cls][n]]
        if not clash:
            continue
        out = sv.ask([rename(culprit, [cls], '_x9'), final])
        if view(out[-1]) == ref:
            if cls == 'mapping' and all(len(a[cls][n]) == 3 and len(b[cls][n]) == 3 and a[cls][n][:2] == b[cls][n][:2] for n in clash):
                # same class, name and dimension: only the numeric parameters of the analytical mapping differ
                return ['mapping-parameters']
            return [cls]
    return []


def check_case(o, farm, hist, final, mode, rng, clears=True, label=None):
    sv0 = farm.on[0]
    ref_out = sv0.ask([final])[0]
    ref = view(ref_out)
    fs = step_str(final)
    o.count('mode:' + mode)
    o.count('final:' + final['r'])
    if ref_out.get('mut'):
        o.fail('mutates-input:%s' % final['r'], 'computing %s alters its inputs: %s' % (fs, ref_out['mut']), step=fs)
    if ref_out.get('bad'):
        # the recipe's own ground truth (its table of what it built, the same computation in the reference order)
        o.fail('inconsistent:%s' % (label or fs), 'in a fresh interpreter the result of %s is not consistent with its inputs: %s'
               % (fs, ref_out['bad']), step=fs)
        return
    # the final computation alone: other hash seeds, cache off
    servers = farm.subset(rng, farm.per_case, farm.off_p)
    alone = farm.map(servers[1:], [final])
    for sv, out in zip(servers[1:], alone):
        o.count('alone:seed/cache')
        if out[0].get('bad') and view(out[0]) == ref:
            o.fail('inconsistent:%s' % (label or fs), 'in a fresh interpreter the result of %s is not consistent with its inputs: %s'
                   % (fs, out[0]['bad']), step=fs)
            return
        if view(out[0]) != ref:
            what = 'PYTHONHASHSEED=%s' % sv.seed if sv.cache else 'SYMPY_USE_CACHE=no'
            o.fail('config:%s:%s' % ('seed' if sv.cache else 'cache-off', label or fs),
                   'in a fresh interpreter %s gives %s under %s but %s under PYTHONHASHSEED=%s with the cache on'
                   % (fs, view(out[0]), what, ref, sv0.seed), step=fs)
            return
    # history + final under every configuration
    steps = (with_clears(rng, hist) if clears else list(hist)) + [final]
    res = farm.map(servers, steps)
    for sv, out in zip(servers, res):
        o.count('history-run')
        for st, r in zip(steps, out):
            if r.get('mut'):
                o.fail('mutates-input:%s' % st['r'], 'computing %s alters its inputs: %s' % (step_str(st), r['mut']), step=step_str(st))
        if view(out[-1]) == ref:
            continue
        conf = ('PYTHONHASHSEED=%s, cache on' % sv.seed) if sv.cache else 'SYMPY_USE_CACHE=no'
        hs = [step_str(s) for s in steps[:-1]]
        if not sv.cache:
            o.fail('history-leak-cache-off:%s|%s' % (fs, hs), 'with the cache switched off, %s after the history %s gives %s instead of %s'
                   % (fs, hs, view(out[-1]), ref), history=hs, final=fs)
            return
        # find one earlier computation that is enough
        culprit = None
        for st in hist:
            if view(sv0.ask([st, final])[-1]) != ref:
                culprit = st
                break
        if culprit is None:
            o.fail('history-leak:%s|%s' % (fs, hs), '%s gives %s after the history %s (%s) but %s in a fresh interpreter; no single earlier '
                   'computation reproduces it' % (fs, view(out[-1]), hs, conf, ref), history=hs, final=fs)
            return
        if mode != 'reuse':
            o.fail('history-leak:%s|%s' % (fs, step_str(culprit)),
                   '%s gives %s after %s but %s in a fresh interpreter, although %s' %
                   (fs, view(sv0.ask([culprit, final])[-1]), step_str(culprit), ref,
                    'the two share no name' if mode == 'hygienic' else 'equal names denote equal objects in this history'),
                   history=[step_str(culprit)], final=fs)
            return
        why = explain(farm, ref, culprit, final)
        o.count('reuse-leak:' + '+'.join(why or ['unexplained']))
        if not why:
            o.fail('history-leak:%s|%s' % (fs, step_str(culprit)),
                   '%s gives a different result after %s, and renaming every object of the earlier computation does not remove the difference'
                   % (fs, step_str(culprit)), history=[step_str(culprit)], final=fs, got=view(sv0.ask([culprit, final])[-1]), expected=ref)
        else:
            o.fail('name-reuse:%s' % why[0],
                   'history leak through name identity (%s): %s gives %s after %s but %s in a fresh interpreter'
                   % ('+'.join(why), fs, view(sv0.ask([culprit, final])[-1]), step_str(culprit), ref),
                   history=[step_str(culprit)], final=fs, renaming_that_removes_it=why)
        return


def check_order(o, farm, st, rng):
    n = ORDERED[st['r']](st['p'])
    if n < 2:
        return
    sv0 = farm.on[0]
    base = copy.deepcopy(st)
    base['p']['order'] = list(range(n))
    ref_out = sv0.ask([base])[0]
    ref = view(ref_out)
    if ref_out.get('bad'):
        if st['r'] == 'mpatch':
            o.fail('order:mpatch:%s:supplied' % json.dumps(st['p'], sort_keys=True),
                   '%s is not consistent with the patches as they were supplied: %s' % (WHAT['mpatch'], ref_out['bad']), step=step_str(base))
            return
        o.fail('order:%s:%s:assoc' % (st['r'], json.dumps(st['p'], sort_keys=True)),
               '%s depends on the order / association of its operands (%%s-nested vs left-nested / swapped, same '
               'supplied order): %%s' % WHAT[st['r']] % (base['p'].get('shape', 'left'), ref_out['bad']), step=step_str(base))
        return
    for _ in range(2):
        perm = list(range(n))
        rng.shuffle(perm)
        if perm == list(range(n)):
            perm.reverse()
        var = copy.deepcopy(st)
        var['p']['order'] = perm
        o.count('order:' + st['r'])
        # alone in a fresh state, and in the same interpreter right after the identity order
        r1 = farm.map(farm.on[:3], [var])
        r2 = sv0.ask([base, var])
        for out in [x[0] for x in r1] + [r2[-1]]:
            if out.get('bad'):
                o.fail('order:%s:%s:%s' % (st['r'], json.dumps(st['p'], sort_keys=True), perm),
                       '%s depends on the order / association of its operands (order %%s, %%s-nested, '
                       'compared in one interpreter with the reference order %%s): %%s' % WHAT[st['r']]
                       % (perm, var['p'].get('shape', 'left'), list(range(n)), out['bad']), step=step_str(var))
                return
            if out.get('mut'):
                o.fail('mutates-input:%s' % st['r'], 'computing %s alters its inputs: %s' % (step_str(var), out['mut']), step=step_str(var))
            if view(out) != ref:
                o.fail('order:%s:%s:%s' % (st['r'], json.dumps(st['p'], sort_keys=True), perm),
                       'the result of %s depends on the order of supply: order %s gives %s, order %s gives %s'
                       % (st['r'], list(range(n)), ref, perm, view(out)), step=step_str(var))
                return


_AMAP = lambda rmin, rmax: {'r': 'amap', 'p': {'mcls': 'PolarMapping', 'mname': 'F', 'params': {'c1': 0, 'c2': 0, 'rmin': rmin, 'rmax': rmax},
                                               'dom': ['cube', 'A', 2, 0], 'sp': ['S', 'V', None], 'fn': 'u', 'op': 'dx'}}
_AFF = lambda n, a, b: [n, 'AffineMapping', {'c1': 0, 'c2': 0, 'a11': a, 'a12': 0, 'a21': 0, 'a22': b}]
_MJOIN = lambda a, b, lower: {'r': 'mjoin', 'p': {'names': ['A', 'B'], 'name': 'Omega', 'amaps': [_AFF('F1', a, b), _AFF('F2', a, b)],
                                                  'sp': 'V', 'fn': 'u', 'bil': 'jj', 'lower': lower}}
FIXED_ORDER = [
    # sums of integrals over different regions (seed C12-4): 2 terms, and 2+1 / 1+2 association
    {'r': 'intsum', 'p': {'dom': ['cube', 'Omega', 2, 0], 'sp': ['S', 'V', None], 'fn': 'u', 'regions': [0, 2], 'shape': 'left'}},
    {'r': 'intsum', 'p': {'dom': ['cube', 'Omega', 2, 0], 'sp': ['S', 'V', None], 'fn': 'u', 'regions': [0, 2, 3], 'shape': 'right'}},
    {'r': 'intsum', 'p': {'dom': ['cube', 'Omega', 3, 0], 'sp': ['S', 'V', None], 'fn': 'u', 'regions': [5, 1], 'shape': 'left'}},
]
FIXED_ORDER += [
    # symmetric products of operands of one class over the same function (seed C12-6)
    {'r': 'symprod', 'p': {'dom': ['cube', 'Omega', 2, 0], 'sp': 'V', 'fn': 'u', 'pair': 'gg_lap'}},
    {'r': 'symprod', 'p': {'dom': ['cube', 'Omega', 3, 0], 'sp': 'V', 'fn': 'u', 'pair': 'cc'}},
    {'r': 'symprod', 'p': {'dom': ['cube', 'Omega', 3, 0], 'sp': 'V', 'fn': 'u', 'pair': 'inner_gg'}},
]
_SQ = lambda lo1, hi1, hi2: [[lo1, hi1], [0, hi2]]
FIXED_ORDER += [
    # multi-patch domains built directly from interiors + boundaries, patches of different bounds listed in an order
    # that is not the sorted one (seed C12-8): dtype / todict / export must follow the patches of Domain.interior
    {'r': 'mpatch', 'p': {'name': 'D', 'pdim': 2, 'cells': [['C', _SQ(3, 7, 5)], ['A', _SQ(0, 1, 1)], ['B', _SQ(1, 3, 2)]]}},
    {'r': 'mpatch', 'p': {'name': 'Omega', 'pdim': 1, 'cells': [['P1', [[2, 5]]], ['P0', [[0, 1]]]], 'brev': True}},
    {'r': 'mpatch', 'p': {'name': 'Omega', 'pdim': 3, 'cells': [['Q', [[0, 1], [0, 1], [0, 2]]], ['B', [[1, 3], [0, 1], [0, 1]]],
                                                              ['A', None]], 'faces': [0, 3]}},
]
FIXED_SHARED = [
    # Domain.join on two symbolic-mapped patches before a lowering on the plus-side patch (seed C12-5)
    {'r': 'joinlow', 'p': {'dim': 2, 'maps': ['F1', 'F2'], 'names': ['A', 'B'], 'name': 'Omega', 'sp': 'V', 'fn': 'u', 'side': 'plus'}},
    {'r': 'joinlow', 'p': {'dim': 2, 'maps': ['F1', 'F2'], 'names': ['A', 'B'], 'name': 'Omega', 'sp': 'V', 'fn': 'u', 'side': 'minus'}},
]


def check_shared(o, farm, st):
    """the same objects with and without an earlier Domain.join on them: the lowering must not change, the patches
    (and their mappings) must be left as they were"""
    sv0 = farm.on[0]
    a, b = copy.deepcopy(st), copy.deepcopy(st)
    a['p']['join_first'], b['p']['join_first'] = False, True
    ra, rb = sv0.ask([a])[0], sv0.ask([b])[0]
    o.count('shared:' + st['r'])
    for r_, s_ in ((ra, a), (rb, b)):
        if r_.get('mut'):
            o.fail('mutates-input:%s' % st['r'], 'computing %s alters its inputs: %s' % (step_str(s_), r_['mut']), step=step_str(s_))
    if view(ra) != view(rb):
        o.fail('shared-objects:%s' % step_str(a),
               'lowering a form on a mapped patch gives %s, but %s after Domain.join was called on the same two patches in the same interpreter'
               % (view(ra), view(rb)), step=step_str(b))


FIXED = [
    # (key expected on the pre-fix tree, history, final, mode)
    ('name-reuse:mapping-parameters', [_AMAP(0, 1)], _AMAP(1, 3), 'reuse'),      # seed C12-3
    # fixed by ab99c06: the plus-face kernel changed sign with the hash seed (normal reversed once or twice)
    ('config:seed:iface-normal', [], {'r': 'iface', 'p': {'dim': 2, 'names': ['A', 'B'], 'name': 'D', 'sp': 'V', 'fn': 'v', 'normal': 'n',
                                                         'bil': ['jn_jdn'], 'lin': []}}, 'same'),
    ('history-leak', [{'r': 'chain', 'p': {'dom': ['abs', 'Omega', 2], 'sp': ['S', 'V', None], 'fn': 'u', 'ops': ['dx2', 'dx1']}}],
     {'r': 'chain', 'p': {'dom': ['abs', 'Omega', 2], 'sp': ['S', 'V', None], 'fn': 'u', 'ops': ['dx2', 'dx2']}}, 'same'),
    ('history-leak', [{'r': 'chain', 'p': {'dom': ['abs', 'Omega', 3], 'sp': ['S', 'V', None], 'fn': 'u', 'ops': ['dx3', 'dx1']}},
                      {'r': 'chain', 'p': {'dom': ['abs', 'Omega', 3], 'sp': ['S', 'V', None], 'fn': 'u', 'ops': ['dx3', 'dx2', 'dx1']}}],
     {'r': 'chain', 'p': {'dom': ['abs', 'Omega', 3], 'sp': ['S', 'V', None], 'fn': 'u', 'ops': ['dx3', 'dx3']}}, 'same'),
    ('name-reuse:domain', [{'r': 'tgrad', 'p': {'dom': ['abs', 'Omega', 2], 'sp': ['S', 'V', None], 'fn': 'u', 'op': 'grad'}}],
     {'r': 'tgrad', 'p': {'dom': ['abs', 'Omega', 3], 'sp': ['S', 'V', None], 'fn': 'u', 'op': 'grad'}}, 'reuse'),
    ('name-reuse:form', [{'r': 'hodge', 'p': {'name': 'v1', 'k': 1, 'n': 2}}], {'r': 'hodge', 'p': {'name': 'v1', 'k': 1, 'n': 3}}, 'reuse'),
    ('mutates-input:equation', [], {'r': 'equation', 'p': {'dom': ['cube', 'A', 2, 0], 'sp': 'V', 'fn': 'u'}}, 'same'),
    ('mutates-input:equation', [{'r': 'equation', 'p': {'dom': ['cube', 'A', 2, 0], 'sp': 'V', 'fn': 'u', 'single': True}}],
     {'r': 'idxder', 'p': {'dom': ['abs', 'Omega', 2], 'sp': ['S', 'V', None], 'fn': 'u'}}, 'same'),
    # seed C12-8: the same patch names with each other's bounds before, non-sorted supply (label = stable key)
    ('inconsistent:mpatch-unsorted', [{'r': 'mpatch', 'p': {'name': 'D', 'pdim': 2, 'cells': [['A', _SQ(1, 3, 2)], ['B', _SQ(0, 1, 1)]]}}],
     {'r': 'mpatch', 'p': {'name': 'D', 'pdim': 2, 'cells': [['B', _SQ(1, 3, 2)], ['A', _SQ(0, 1, 1)]]}}, 'reuse'),
    # seed C12-9: an earlier join of equally named faces of differently mapped patches (constructed only) must not reach
    # the interface of a later join: its minus / plus mappings, Jacobians and the lowered kernel of jump(u)*jump(v)
    ('name-reuse:mapping-parameters', [_MJOIN(2, 2, False)], _MJOIN(3, 5, True), 'reuse'),
    # seed C12-10: Domain.corners of a 2 x 2 arrangement of squares under every hash seed (label = stable key)
    ('config:seed:corners-2x2', [], {'r': 'corners', 'p': {'grid': [2, 2], 'names': ['A0', 'A1', 'A2', 'A3'], 'name': 'D'}}, 'same'),
    # fixed by eb4ed64: Mapping.constants of a mapping with symbolic parameters was list(set(...)), ordered by the hash seed
    ('config:seed:mapping-constants', [], {'r': 'amap', 'p': {'mcls': 'AffineMapping', 'mname': 'F', 'params': {}, 'lower': False,
                                                              'dom': ['cube', 'A', 2, 0], 'sp': ['S', 'V', None], 'fn': 'u', 'op': 'dx'}}, 'same'),
    ('history-leak', [{'r': 'idxmut', 'p': {'dom': ['abs', 'Omega', 2], 'sp': ['S', 'V', None], 'fn': 'u'}}],
     {'r': 'idxder', 'p': {'dom': ['abs', 'Omega', 2], 'sp': ['S', 'V', None], 'fn': 'u'}}, 'same'),
]


def oracle(ctx, factor, seeds):
    o = Oracle()
    rng = ctx.rng
    nseed = 40 if ctx.thorough else 5
    # the seeds are spread: small ones and a few large ones
    seedvals = [0, 1, 2, 3, 4][:nseed] if nseed <= 5 else list(range(30)) + [101, 977, 4242, 65537, 99991, 123456789, 2**31 - 1, 7919, 31337, 4294967295]
    farm = Farm(ctx.repo, seedvals)
    farm.per_case = 5 if not ctx.thorough else 8       # per case: the reference seed + 4 / 7 others (all 40 seeds get used)
    farm.off_p = 0.5 if not ctx.thorough else 0.25     # the worker without cache is several times slower
    try:
        for key, hist, final, mode in FIXED:
            o.evaluations += 1
            check_case(o, farm, hist, final, mode, rng, clears=False,
                       label=key.split(':', 2)[2] if key.startswith('config:seed:') else
                       (key.split(':', 1)[1] if key.startswith('inconsistent:') else None))
        ncase = (900 if ctx.thorough else 50) * factor
        for i in range(ncase):
            mode = rng.choice(['hygienic', 'same', 'same', 'reuse', 'reuse'])
            U = Universe(rng, consistent=(mode == 'same'))
            final = gen_step(rng, U)
            hist = [gen_step(rng, U) for _ in range(rng.randint(1, 6))]
            if mode == 'reuse' and rng.random() < 0.6:
                # targeted reuse: computations that look like the final one but differ in an attribute
                for k in range(rng.randint(1, 2)):
                    hist.insert(rng.randint(0, len(hist)), perturb(rng, final))
                o.count('reuse:targeted')
            elif mode == 'same' and rng.random() < 0.5:
                hist.insert(rng.randint(0, len(hist)), copy.deepcopy(final))     # the very same computation before
            if mode == 'reuse':
                # an earlier LOWERING on a joined domain of the same patch and mapping names already reaches the final one on the
                # unchanged tree (open finding C12-domain-identity-by-name, through the patches 'F(A)' identified by name):
                # under free reuse of names the earlier joined geometries are only constructed, so that the check sees past it
                for st in hist:
                    if st['r'] == 'mjoin':
                        st['p']['lower'] = False
            if mode == 'hygienic':
                hist = [rename(st, CLASSES, '_h%d' % k) for k, st in enumerate(hist)]
            o.evaluations += 1
            check_case(o, farm, hist, final, mode, rng)
            if len(o.samples) < 4:
                o.samples.append({'mode': mode, 'history': [step_str(s) for s in hist], 'final': step_str(final)})
        for st in FIXED_ORDER:
            o.evaluations += 1
            check_order(o, farm, st, rng)
        for st in FIXED_SHARED + [gen_joinlow(rng, None) for _ in range(6 if ctx.thorough else 2)]:
            o.evaluations += 1
            check_shared(o, farm, st)
        nord = (240 if ctx.thorough else 24) * factor
        U = Universe(rng, consistent=False)
        k = 0
        while k < nord:
            st = gen_intsum(rng, U) if k % 4 == 0 else (gen_symprod(rng, U) if k % 4 == 1 else
                                                        (gen_mpatch(rng, U, n=rng.choice([2, 3, 3, 4])) if k % 8 == 2 else gen_step(rng, U)))
            if st['r'] in ORDERED:
                o.evaluations += 1
                check_order(o, farm, st, rng)
                k += 1
    finally:
        farm.close()
    return o


def replay(ctx, path):
    d = json.load(open(path))
    print(json.dumps(d, indent=1)[:3000])
    import random
    ctx.rng = random.Random('%s/%s/%d' % (PID, d.get('tier', 'quick'), int(d.get('seed', 0))))
    ctx.thorough = d.get('tier') == 'thorough'
    try:
        correspondence(ctx)
    except Exception:
        pass
    o = oracle(ctx, 1, [])
    from harness.common import load_known
    opened = {e['key'] for e in load_known(PID) if e.get('status') == 'open'}
    key = d.get('key', '')
    fails = [f for f in o.failures if f['key'] not in opened or f['key'] == key]
    for f in ([f for f in fails if f['key'] == key] or fails[:3]):
        print('REPRODUCED %s: %s' % (f['key'], f['what'][:600]))
    if not fails:
        print('not reproduced on the current tree (%d oracle evaluations)' % o.evaluations)
    return 1 if fails else 0
