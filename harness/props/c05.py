"""C05 — coordinate partial-derivative operators are exact derivations."""
import sympy

from harness.common import Corr, Oracle, Timeout, time_limit
from harness.exprser import Ser, ring_equal
from harness.genexpr import Env, ScalarGen, tree_size
from harness.inst import Inst, same_value, PHYS, LOGI
from harness.sexp import dumps, loads_all

PID = 'C05'
PROPS_MODULE = 'SympdeModel.Props.C05'
RULE = ('random scalar expression trees (functions, vector components, derivative chains, coordinates, constants, '
        'sums, n-ary products, quotients, integer/rational/constant/variable powers, elementary functions; depth <= 4/5, '
        'dims 1-3, physical and logical operators) plus vector / tuple / matrix arguments and mixed physical-logical '
        'chains; a case is (operator, argument); non-trivial = the result is not just the unevaluated node around '
        'the argument; distinct by serialised request')
ASSUMPTIONS = [
    'the integer-literal power rule n*b**(n-1)*db is what sympy Mul makes of the code formula (log(b)*0 + n*db/b)*b**n; '
    'checked by the correspondence on every power case',
    'smooth functions with their partial derivatives form a DRing (Schwarz theorem) — classical analysis, not proved',
    'D(rpow b e) = (log b * D e + e * D b / b) * rpow b e is a law of the semantic structure (the classical formula)',
]


MAXSIZE = 60


def _apply(op, e):
    try:
        return ('ok', op(e))
    except Exception as ex:   # noqa
        return ('err', type(ex).__name__)


def gen_cases(ctx, n, maxdepth):
    """yield (env, op, expr)"""
    rng = ctx.rng
    envs = {}
    for i in range(n):
        dim = rng.choice([1, 2, 2, 3, 3])
        logical = rng.random() < 0.4
        key = (dim, logical)
        if key not in envs:
            envs[key] = Env(dim, logical)
        env = envs[key]
        g = ScalarGen(rng, env, maxdepth=maxdepth)
        k = rng.random()
        if k < 0.80:
            e = g.expr()
        elif k < 0.85:
            e = rng.choice(env.vf)
        elif k < 0.90:
            e = sympy.Tuple(*[g.expr(2) for _ in range(rng.choice([2, 3]))])
        elif k < 0.95:
            e = sympy.Matrix(2, 2, [g.expr(2) for _ in range(4)])
        else:
            # mixed physical / logical chains
            e = rng.choice(env.sf)
            for _ in range(rng.randint(2, 4)):
                e = rng.choice(env.all_ops[:env.dim] + env.all_ops[3:3 + env.dim])(e)
        op = rng.choice(env.ops) if rng.random() < 0.9 else rng.choice(env.all_ops[:env.dim] + env.all_ops[3:3 + env.dim])
        if tree_size(e) > MAXSIZE:
            continue
        if hasattr(e, 'has') and e.has(sympy.Abs, sympy.sign, sympy.I):
            continue       # sqrt(x**2) of a real coordinate: Abs is outside the modelled elementary functions
        yield env, op, e


def correspondence(ctx):
    c = Corr()
    ser = Ser()
    n = 2500 if ctx.thorough else 350
    cases, seen = [], set()
    for env, op, e in gen_cases(ctx, n, 5 if ctx.thorough else 4):
        try:
            s = ser.ser(e)
        except Exception:
            c.count('unserialisable')
            continue
        line = 'C05 pd %d %s %s' % (env.dim, ser.pd_rev[op], dumps(s))
        if '(other ' in line:
            c.count('outside-ast')
            continue
        if line in seen:
            continue
        seen.add(line)
        cases.append((line, env, op, e, _apply(op, e)))
    outs = ctx.driver.run([x[0] for x in cases])
    for (line, env, op, e, impl), out in zip(cases, outs):
        c.evaluations += 1
        c.count('dim:%d' % env.dim)
        c.count('arg:' + type(e).__name__)
        c.count('size:%s' % ('<10' if tree_size(e) < 10 else '<30' if tree_size(e) < 30 else '>=30'))
        if impl[0] == 'err':
            c.count('err:' + impl[1])
            if out != 'err ' + impl[1]:
                c.disagreements.append({'input': line, 'impl': 'raised ' + impl[1], 'model': out[:300], 'note': 'error'})
            else:
                c.nontrivial.add(line)
            continue
        if not out.startswith('ok '):
            c.disagreements.append({'input': line, 'impl': str(impl[1])[:300], 'model': out[:300], 'note': 'model refused'})
            continue
        try:
            mres = ser.build(loads_all(out[3:])[0])
        except Exception as ex:
            c.disagreements.append({'input': line, 'impl': str(impl[1])[:300], 'model': out[:300], 'note': 'unbuildable model output: %r' % (ex,)})
            continue
        try:
            with time_limit(10):
                eq = ring_equal(mres, impl[1])
        except Timeout:
            c.count('compare-timeout')
            continue
        if not eq:
            c.disagreements.append({'input': line, 'impl': str(impl[1])[:400], 'model': str(mres)[:400], 'note': 'value'})
            continue
        if not (type(impl[1]) is op and impl[1].args[0] == e):
            c.nontrivial.add(line)
            if len(c.samples) < 6:
                c.samples.append({'request': line[:300], 'impl': str(impl[1])[:200]})
    return c


def pd_depth(e):
    from sympde.topology.derivatives import DifferentialOperator
    k = 1 if isinstance(e, DifferentialOperator) else 0
    return k + max([pd_depth(a) for a in getattr(e, 'args', ())] or [0])


def oracle(ctx, factor, seeds):
    """the property itself on the real code: op(e), instantiated, is the true partial derivative of e, instantiated"""
    o = Oracle()
    n = (600 if ctx.thorough else 90) * factor
    rng = ctx.rng
    fixed = []
    # fixed corpus: mixed physical/logical chain (re-ordering counted buried logical derivatives twice)
    env = Env(2, True, tag='m')
    dv = env.all_ops
    f = env.sf[0]
    fixed.append((env, dv[3], dv[3](dv[0](dv[3](f))), 'corpus:dx1(dx1(dx(dx1(f))))'))
    cases = fixed + [(env, op, e, None) for env, op, e in gen_cases(ctx, n, 4)]
    for env, op, e, key in cases:
        impl = _apply(op, e)
        if impl[0] == 'err':
            o.count('refused:' + impl[1])
            # refusing is allowed by the property ("refuse rather than return a value"); nothing to check
            continue
        o.evaluations += 1
        transcend = bool(e.atoms(sympy.sin, sympy.cos, sympy.exp)) if hasattr(e, 'atoms') else False
        varexp = any(not p.exp.is_number or not p.exp.is_Integer for p in e.atoms(sympy.Pow)) if hasattr(e, 'atoms') else False
        deep = pd_depth(e) >= 2
        negpow = any(p.exp.is_number and p.exp.is_negative for p in e.atoms(sympy.Pow)) if hasattr(e, 'atoms') else False
        transcend = transcend or deep or negpow
        # quotients: denominators must not vanish identically (derivative atoms of low-degree polynomials do)
        ins = Inst(rng, env.dim, PHYS[:env.dim] + LOGI[:env.dim], positive=varexp or negpow, trig=deep or negpow)
        try:
            with time_limit(10):
                ev = ins.inst(e)
                rv = ins.inst(impl[1])
        except NotImplementedError as ex:
            o.count('not-instantiable')
            continue
        except Timeout:
            o.count('timeout')
            continue
        x = ins.pd[op]
        if isinstance(ev, sympy.MatrixBase):
            truth = ev.applyfunc(lambda t: sympy.diff(t, x))
            if isinstance(rv, sympy.MatrixBase) and rv.shape != truth.shape and rv.shape == truth.T.shape:
                truth = truth.T     # dx of a vector / tuple is returned as a row
        else:
            truth = sympy.diff(ev, x)
        o.count('kind:%s' % ('varexp' if varexp else 'transcendental' if transcend else 'rational'))
        if isinstance(rv, sympy.MatrixBase) != isinstance(truth, sympy.MatrixBase) or \
                (isinstance(rv, sympy.MatrixBase) and rv.shape != truth.shape):
            o.fail(key or ('shape:%s:%s' % (op.__name__, e)), 'result of %s(%s) has the wrong shape' % (op.__name__, e))
            continue
        try:
            with time_limit(15):
                ok = same_value(rv, truth, ins.coords, rng, numeric=varexp or transcend)
        except Timeout:
            o.count('timeout')
            continue
        if len(o.samples) < 4:
            o.samples.append({'op': op.__name__, 'arg': str(e)[:200], 'result': str(impl[1])[:200]})
        if ok is None:
            o.count('undecided')
            continue
        if not ok:
            o.fail(key or ('deriv:%s:%s' % (op.__name__, e)),
                   '%s(%s) = %s is not the partial derivative of its argument' % (op.__name__, e, impl[1]),
                   instantiation={k: str(v) for k, v in list(ins.sf.items()) + list(ins.vf.items())},
                   result_inst=str(rv)[:500], truth=str(truth)[:500])
    mapping_chain_cases(ctx, o, (60 if ctx.thorough else 14) * factor)
    return o


def mapping_chain_cases(ctx, o, n):
    """logical operators on function-free expressions of the coordinates AND of the components M[i] of a
    symbolic mapping (sympde/topology/derivatives.py: chain rule df/dM[i]·∂̂_k M[i] + explicit ∂f/∂x̂_k),
    alone and multiplied by a field; M[i] is instantiated by explicit polynomials with a non-symmetric
    Jacobian and the result compared with sympy.diff (added after seeded changes C05-6 and C03-5)"""
    from sympde.topology import Mapping, Square, Cube, ScalarFunctionSpace, element_of
    from sympde.topology import derivatives as dv
    from harness.mapenv import MapInst
    rng = ctx.rng
    for i in range(n):
        dim = rng.choice([2, 2, 3])
        # a surface mapping (ldim 2 < pdim 3): the chain rule runs over all pdim components (seeded change C05-7
        # summed over ldim and lost the last one)
        surf = dim == 2 and (i % 4 == 3 or (i >= 9 and rng.random() < 0.3))
        pdim = 3 if surf else dim
        if surf:
            M = Mapping('Ms5_%d' % (i % 3), ldim=2, pdim=3)
        else:
            M = Mapping('Mc5%d_%d' % (dim, i % 3), dim=dim)
        D = M((Square if dim == 2 else Cube)('A%s5%d_%d' % ('s' if surf else 'c', dim, i % 3)))
        u = element_of(ScalarFunctionSpace('V%s5%d_%d' % ('s' if surf else 'c', dim, i % 3), D), name='u%s5%d' % ('s' if surf else 'c', dim))
        xs = list(LOGI[:dim])
        ops = [dv.dx1, dv.dx2, dv.dx3][:dim]
        mi, mj = M[rng.randrange(pdim)], M[rng.randrange(pdim)]
        if surf and rng.random() < 0.7:
            mi = M[2]
        x = rng.choice(xs)
        shapes = [x * mi, x * sympy.sin(mi), mj ** 2 + x ** 3, x * rng.choice(xs) * mi, sympy.exp(mi) * mj + x,
                  mi * mj, x ** 2 * mi + mj, u * x * mi, u * sympy.sin(mi) + x * mj * u]
        e = shapes[i % len(shapes)] if i < len(shapes) else rng.choice(shapes)
        chain = [rng.choice(ops) for _ in range(rng.choice([1, 1, 2]))]
        key = 'corpus:mapping-chain:%d' % i if i < len(shapes) + 3 else None
        name = '%s(%s)' % ('∘'.join(op.__name__ for op in chain), e)
        try:
            with time_limit(20):
                r = e
                for op in reversed(chain):
                    r = op(r)
        except Timeout:
            o.count('timeout:mapping-chain')
            continue
        except Exception as ex:
            o.count('refused:mapping-chain:' + type(ex).__name__)
            continue
        o.evaluations += 1
        # explicit components with a non-symmetric Jacobian
        F = [xs[0] + sympy.Rational(1, 2) * xs[1] + sympy.Rational(1, 10) * xs[0] * xs[1],
             sympy.Rational(1, 5) * xs[0] + xs[1] + sympy.Rational(1, 10) * xs[0] ** 2]
        if dim == 3:
            F = [F[0] + sympy.Rational(1, 3) * xs[2], F[1], xs[2] + sympy.Rational(1, 4) * xs[0] * xs[2]]
        if surf:
            F = F + [xs[0] ** 2 + sympy.Rational(1, 3) * xs[0] * xs[1] + sympy.Rational(1, 2) * xs[1]]
        try:
            with time_limit(20):
                ins = MapInst(rng, dim, F, {})
                ev = ins.inst(e)
                truth = ev
                for op in reversed(chain):
                    truth = sympy.diff(truth, ins.pd[op])
                rv = ins.inst(r)
                ok = same_value(rv, truth, xs, rng, numeric=True)
        except (NotImplementedError, Timeout):
            o.count('skipped:mapping-chain')
            continue
        o.count('mapping-chain:%d%s' % (len(chain), ':surface' if surf else ''))
        if ok is False:
            o.fail(key or ('mapping-chain:' + name[:200]),
                   '%s = %s is not the logical derivative of its argument when M is instantiated by %s' % (name, str(r)[:300], F))


def replay(ctx, path):
    import sys
    from harness.common import generic_replay
    return generic_replay(sys.modules[__name__], ctx, path)
