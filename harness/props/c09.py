"""C09 — linearisation of a nonlinear form is its Gateaux derivative."""
import sympy
from sympy import expand, S

from harness.common import Corr, Oracle, Timeout, time_limit
from harness.exprser import Ser, ring_equal
from harness.genexpr import Env
from harness.inst import Inst, same_value
from harness.sexp import dumps, loads_all

PID = 'C09'
PROPS_MODULE = 'SympdeModel.Props.C09'
RULE = ('random nonlinear linear-forms l(v; u) = sum of integrals of (test part) x (nonlinear coefficient in the field(s) and '
        'their derivatives: polynomial, rational, elementary functions; scalar, vector and two fields; domain and boundary '
        'integrals; dims 1-3) linearised about the field(s) with given trial functions; a case is one form; non-trivial = '
        'the field enters non-linearly; distinct by printed form')
ASSUMPTIONS = [
    'Gateaux derivative = epsilon-coefficient over the dual numbers with u -> u + eps*du (Props/C09.lean); the oracle uses '
    'sympy.diff with respect to eps on explicit instantiations',
    'the theorem covers the terminal scalar fragment with natural-number exponents and elementary functions; generic '
    'operators, negative and variable exponents are covered by model + correspondence',
    'auxiliary names (eps_xxxx, *_trial_xxxx) are drawn at random by sympde; results are compared modulo them',
]


def _api():
    from sympde.topology import Domain, ScalarFunctionSpace, VectorFunctionSpace, element_of, Square, Cube, Line
    from sympde.calculus import grad, dot, inner, div, laplace
    from sympde.expr.expr import BilinearForm, LinearForm, integral, linearize
    from sympde.expr.evaluation import TerminalExpr
    from sympde.expr.equation import NewtonIteration
    from sympde.core import Constant
    return locals()


class World:
    def __init__(self, dim, tag):
        m = _api()
        self.m, self.dim = m, dim
        mk = {1: m['Line'], 2: m['Square'], 3: m['Cube']}[dim]
        sfx = '%s%d' % (tag, dim)
        self.domain = mk('L' + sfx)
        self.V = m['ScalarFunctionSpace']('V' + sfx, self.domain)
        self.W = m['VectorFunctionSpace']('W' + sfx, self.domain)
        e = m['element_of']
        # hygienic names (functions compare by name): the dimension is part of every name
        self.u, self.du, self.v, self.p, self.dp, self.f = [e(self.V, name=n + sfx) for n in ('u', 'du', 'v', 'p', 'dp', 'f')]
        self.U, self.dU, self.Vt = [e(self.W, name=n + sfx) for n in ('U', 'dU', 'Vt')]
        self.c = m['Constant']('c')
        # a user coefficient with the most likely name of an internal auxiliary (seed C09-2)
        self.c2 = m['Constant']('eps')
        self.coords = list(self.domain.coordinates) if dim > 1 else [self.domain.coordinates]
        b = self.domain.boundary
        self.faces = list(b.args) if hasattr(b, 'args') and len(getattr(b, 'args', ())) > 1 else [b]


def nonlinear(rng, w, fields):
    """a scalar nonlinear function of the fields and their derivatives"""
    m = w.m
    u = rng.choice(fields)
    vec = u is w.U
    base = m['dot'](u, u) if vec else u
    gr = m['inner'](m['grad'](u), m['grad'](u)) if vec else m['dot'](m['grad'](u), m['grad'](u))
    k = rng.random()
    if k < 0.2:
        return base ** rng.choice([2, 3]) if not vec else base
    if k < 0.35:
        return 1 + gr
    if k < 0.5:
        return base * gr if not vec else gr
    if k < 0.62:
        return rng.choice([sympy.sin, sympy.cos, sympy.exp])(base if not vec else u[0])
    if k < 0.72:
        return 1 / (1 + base ** 2) if not vec else 1 / (1 + base)
    if k < 0.8:
        return sympy.sqrt(1 + gr)
    if k < 0.9 and len(fields) > 1:
        a, b = fields[0], fields[1]
        aa = m['dot'](a, a) if a is w.U else a
        bb = m['dot'](b, b) if b is w.U else b
        return aa * bb
    return w.c * base + rng.choice(w.coords) * base ** 2 if not vec else w.c * base


def test_part(rng, w, fields, boundary):
    """(expression linear in the test function v, possibly also mentioning the field)"""
    m = w.m
    k = rng.random()
    u = rng.choice(fields)
    if boundary or k < 0.3:
        return w.v
    if k < 0.7:
        if u is w.U:
            return m['div'](u) * w.v
        return m['dot'](m['grad'](u), m['grad'](w.v))
    if u is w.U:
        return m['dot'](u, m['grad'](w.v))
    return u * w.v


def gen_form(rng, w):
    m = w.m
    which = rng.random()
    if which < 0.55:
        fields, trials = [w.u], [w.du]
    elif which < 0.8:
        fields, trials = [w.U], [w.dU]
    else:
        fields, trials = [w.u, w.p], [w.du, w.dp]
    ints = []
    for _ in range(rng.choice([1, 1, 2])):
        bnd = rng.random() < 0.25
        reg = rng.choice(w.faces) if bnd else w.domain
        e = S.Zero
        for _ in range(rng.choice([1, 2])):
            e += rng.choice([1, 1, 1, w.c2, w.c2 ** 2]) * nonlinear(rng, w, fields) * test_part(rng, w, fields, bnd)
        if rng.random() < 0.3:
            e += w.f * w.v            # a term independent of the field
        ints.append((reg, e))
    return fields, trials, ints


def build_form(w, ints):
    m = w.m
    expr = sum((m['integral'](r, e) for r, e in ints[1:]), m['integral'](*ints[0]))
    return m['LinearForm'](w.v, expr)


def region_integrands(form_expr, m):
    """{domain: integrand} of a sum of integrals"""
    from sympde.expr.expr import Integral
    out = {}
    terms = form_expr.args if isinstance(form_expr, sympy.Add) else [form_expr]
    for t in terms:
        if isinstance(t, Integral):
            out[t.domain] = out.get(t.domain, S.Zero) + t.expr
    return out


def lower(w, e):
    t = w.m['TerminalExpr'](e, w.domain)
    if isinstance(t, sympy.MatrixBase) and t.shape == (1, 1):
        t = t[0]
    return t


def run(ctx, n, c, o):
    rng = ctx.rng
    worlds = {}
    ser = Ser()
    lines, payload = [], []
    for it in range(n):
        dim = rng.choice([1, 2, 2, 3])
        if dim not in worlds:
            worlds[dim] = World(dim, 'g')
        w = worlds[dim]
        m = w.m
        try:
            fields, trials, ints = gen_form(rng, w)
        except Exception as ex:
            # e.g. sympy InconsistentAssumptions on sqrt(1 + Dot(a, a))*v: Dot sets is_real / is_positive by hand
            if o is not None:
                o.count('expression-refused:' + type(ex).__name__)
            if c is not None:
                c.count('expression-refused:' + type(ex).__name__)
            continue
        name = 'linearize(l, %s, trials=%s), l = %s' % (fields, trials, ' + '.join('int(%s, %s)' % (r, e) for r, e in ints))
        try:
            l = build_form(w, ints)
        except Exception as ex:
            if o is not None:
                o.count('form-refused:' + type(ex).__name__)
            continue
        fl, tl = (fields[0], trials[0]) if len(fields) == 1 else (tuple(fields), tuple(trials))
        try:
            with time_limit(90):
                a = m['linearize'](l, fl, trials=tl)
        except Timeout:
            continue
        except Exception as ex:
            if o is not None:
                o.evaluations += 1
                if type(ex).__name__ == 'InconsistentAssumptions':
                    o.count('sympy-InconsistentAssumptions')
                else:
                    o.fail(classify(fields, ints, ex) or ('raise:' + name), 'linearize raised %s: %s  [%s]' % (type(ex).__name__, str(ex)[:100], name))
            continue
        got = region_integrands(a.expr, m)
        exp = region_integrands(l.expr, m)
        for t in trials:
            ser.ser(t)
        if o is not None:
            o.evaluations += 1
            if len(o.samples) < 3:
                o.samples.append({'case': name[:300], 'result': str(a.expr)[:300]})
            ins = Inst(rng, w.dim, w.coords, positive=True)
            eps = sympy.Symbol('eps_oracle')
            for r, e in exp.items():
                try:
                    with time_limit(60):
                        g = ins.inst(e)
                        # independent Gateaux derivative: perturb the instantiated field values
                        pert = Inst(rng, w.dim, w.coords, positive=True)
                        pert.sf, pert.vf, pert.cst = dict(ins.sf), dict(ins.vf), ins.cst
                        for fld, tr in zip(fields, trials):
                            if fld is w.U:
                                ins.of_vf(fld.name); ins.of_vf(tr.name)
                                pert.vf[fld.name] = [x + eps * y for x, y in zip(ins.vf[fld.name], ins.vf[tr.name])]
                                pert.vf[tr.name] = ins.vf[tr.name]
                            else:
                                ins.of_sf(fld.name); ins.of_sf(tr.name)
                                pert.sf[fld.name] = ins.sf[fld.name] + eps * ins.sf[tr.name]
                                pert.sf[tr.name] = ins.sf[tr.name]
                        for k2 in list(ins.sf):
                            pert.sf.setdefault(k2, ins.sf[k2])
                        for k2 in list(ins.vf):
                            pert.vf.setdefault(k2, ins.vf[k2])
                        gp = pert.inst(e)
                        # names instantiated lazily by pert only must be shared back
                        for k2, v2 in pert.sf.items():
                            ins.sf.setdefault(k2, v2 if not v2.has(eps) else ins.sf.get(k2, v2))
                        for k2, v2 in pert.vf.items():
                            ins.vf.setdefault(k2, v2)
                        truth = sympy.diff(gp, eps).subs(eps, 0)
                        res = got.get(r, S.Zero)
                        val = ins.inst(res) if res != 0 else S.Zero
                        ok = same_value(sympy.sympify(val), sympy.sympify(truth), w.coords, rng, numeric=True)
                except (NotImplementedError, Timeout):
                    o.count('skipped')
                    continue
                o.count('region-checked')
                if ok is False:
                    o.fail('value:%s:%s' % (r, name), 'the integrand of the linearised form over %s is not the Gateaux derivative  [%s]' % (r, name),
                           got=str(got.get(r))[:300])
            extra = set(got) - set(exp)
            if extra:
                o.fail('regions:' + name, 'linearize invented integrals over %s' % sorted(map(str, extra)))
        if c is not None:
            dirs = [[f.name, t.name] for f, t in zip(fields, trials)]
            for r, e in exp.items():
                try:
                    line = 'C09 gd %s %s' % (dumps(dirs), dumps(ser.ser(e)))
                except Exception:
                    c.count('unserialisable')
                    continue
                if '(other ' in line:
                    c.count('outside-ast')
                    continue
                lines.append(line)
                payload.append((name, r, got.get(r, S.Zero), w))
    if c is None:
        return
    outs = ctx.driver.run(lines)
    for line, (name, r, impl, w), out in zip(lines, payload, outs):
        c.evaluations += 1
        c.count('dim:%d' % w.dim)
        if not out.startswith('ok '):
            c.disagreements.append({'input': line[:300], 'impl': str(impl)[:300], 'model': out[:200], 'note': 'model refused'})
            continue
        try:
            mres = ser.build(loads_all(out[3:])[0])
        except Exception as ex:
            if type(ex).__name__ == 'InconsistentAssumptions':
                c.count('sympy-InconsistentAssumptions')       # Dot(a, a) sets assumptions by hand (see notes/C09.md)
                continue
            c.disagreements.append({'input': line[:300], 'impl': str(impl)[:300], 'model': out[:300], 'note': 'unbuildable: %r' % (ex,)})
            continue
        try:
            with time_limit(60):
                a1 = lower(w, mres) if mres != 0 else S.Zero
                a2 = lower(w, impl) if impl != 0 else S.Zero
                eq = ring_equal(a1, a2)
        except Timeout:
            c.count('compare-timeout')
            continue
        except Exception as ex:
            if type(ex).__name__ == 'InconsistentAssumptions':
                c.count('sympy-InconsistentAssumptions')
                continue
            c.disagreements.append({'input': line[:300], 'impl': str(impl)[:300], 'model': str(mres)[:300], 'note': 'lowering raised %r' % (ex,)})
            continue
        if not eq:
            c.disagreements.append({'input': line[:300], 'impl': str(a2)[:400], 'model': str(a1)[:400], 'note': 'value over %s of %s' % (r, name[:200])})
            continue
        c.nontrivial.add(line)
        if len(c.samples) < 5:
            c.samples.append({'case': name[:200], 'region': str(r), 'model': str(mres)[:200]})


def classify(fields, ints, ex):
    """keys of the open findings"""
    return None


def fixed(ctx, o):
    """fixed corpus: Newton pairing, independence of auxiliary names, known shapes"""
    w = World(2, 'gk')
    m = w.m
    u, du, v, f = w.u, w.du, w.v, w.f
    g = m['dot'](m['grad'](v), m['grad'](u)) * (1 + u ** 2) + f * v
    l = m['LinearForm'](v, m['integral'](w.domain, g))
    # auxiliary names: two calls with automatically generated trial names agree up to the trial's name
    a1 = m['linearize'](l, u)
    a2 = m['linearize'](l, u)
    t1, t2 = a1.variables[0], a2.variables[0]
    t1 = t1[0] if isinstance(t1, (tuple, list, sympy.Tuple)) else t1
    t2 = t2[0] if isinstance(t2, (tuple, list, sympy.Tuple)) else t2
    e1 = list(region_integrands(a1.expr, m).values())[0]
    e2 = list(region_integrands(a2.expr, m).values())[0]
    o.evaluations += 1
    if expand(e1.subs(t1, du) - e2.subs(t2, du)) != 0 or any('eps' in str(s) for s in e1.free_symbols):
        o.fail('corpus:aux-names', 'two linearisations of the same form differ beyond the auxiliary trial name, or the auxiliary eps survives', a1=str(e1), a2=str(e2))
    # Newton iteration pairs the linearised form with the negated original form
    nt = m['NewtonIteration'](l, u, trials=du)
    a = m['linearize'](l, u, trials=du)
    o.evaluations += 1
    lhs_i = region_integrands(nt.lhs.expr, m)
    ref_i = region_integrands(a.expr, m)
    rhs_i = region_integrands(nt.rhs.expr, m)
    ok = (set(lhs_i) == set(ref_i) and all(expand(lhs_i[k] - ref_i[k]) == 0 for k in ref_i)
          and all(expand(rhs_i[k] + region_integrands(l.expr, m)[k]) == 0 for k in rhs_i))
    if not ok:
        o.fail('corpus:newton', 'NewtonIteration(l, u) is not (linearize(l, u), -l)')
    # an integral that does not depend on the field, on another region, listed with the field-dependent one:
    # its derivative vanishes and the others stay on THEIR regions (seeded change C09-6 shifted them)
    xs = w.coords
    for fc in w.faces[:2]:
        o.evaluations += 1
        l2 = m['LinearForm'](v, m['integral'](w.domain, g) - m['integral'](fc, sympy.cos(sum(xs)) * v))
        try:
            got = region_integrands(m['linearize'](l2, u, trials=du).expr, m)
            ok2 = set(got) == set(ref_i) and all(expand(got[k] - ref_i[k]) == 0 for k in ref_i)
        except Exception as ex:
            ok2 = False
            got = type(ex).__name__
        if not ok2:
            o.fail('corpus:field-independent-integral', 'linearize(int_D g(u) - int_%s cos(..)*v) is %s, expected the derivative of the domain integral on the domain only' % (fc, str(got)[:300]))
    # Newton iteration with a listed field that does not occur in the form: the other fields are still
    # perturbed along THEIR trial functions (seeded change C09-5 dropped the field but not its trial)
    o.evaluations += 1
    try:
        nt2 = m['NewtonIteration'](l, [w.p, u], trials=[w.dp, du])
        got = region_integrands(nt2.lhs.expr, m)
        ok3 = set(got) == set(ref_i) and all(expand(got[k] - ref_i[k]) == 0 for k in ref_i)
    except Exception as ex:
        ok3, got = False, type(ex).__name__
    if not ok3:
        o.fail('corpus:newton-absent-field', 'NewtonIteration(l, [p, u], trials=[dp, du]) with p absent from l has lhs %s, expected linearize(l, u, trials=du)' % (str(got)[:300],))
    # open findings (see known_findings.json)
    try:
        m['linearize'](m['LinearForm'](v, m['integral'](w.domain, f * v)), u, trials=du)
    except Exception as ex:
        o.fail('corpus:field-independent-form', 'linearize of a form that does not depend on the field raised %s instead of returning the zero form' % type(ex).__name__)
    try:
        gq = m['dot'](m['grad'](v), m['grad'](u)) / (1 + m['dot'](m['grad'](u), m['grad'](u)))
        m['linearize'](m['LinearForm'](v, m['integral'](w.domain, gq)), u, trials=du)
    except Exception as ex:
        if type(ex).__name__ == 'InconsistentAssumptions':
            # Dot(a, a) sets is_real / is_positive by hand; depending on what sympy has cached earlier in the
            # interpreter its assumption system then contradicts itself.  History dependence is C12's subject.
            o.count('sympy-InconsistentAssumptions')
        else:
            o.fail('corpus:rational-in-grad', 'linearize of int grad(v).grad(u)/(1+|grad u|^2) raised %s' % type(ex).__name__)


def correspondence(ctx):
    c = Corr()
    run(ctx, 300 if ctx.thorough else 45, c, None)
    return c


def oracle(ctx, factor, seeds):
    o = Oracle()
    try:
        fixed(ctx, o)
    except Exception as ex:
        o.fail('corpus:raised:' + type(ex).__name__, 'the fixed corpus raised %r' % (ex,))
    run(ctx, (200 if ctx.thorough else 35) * factor, None, o)
    return o


def replay(ctx, path):
    import sys
    from harness.common import generic_replay
    return generic_replay(sys.modules[__name__], ctx, path)
