"""C04 — integrals transform to logical coordinates with the exact volume / surface element."""
import itertools

import sympy
from sympy import Matrix, Rational, S, Symbol, sqrt

from harness.common import Corr, Oracle, Timeout, time_limit
from harness.inst import Inst, same_value, PHYS, LOGI
from harness.mapenv import MEnv, MSer, MapInst, MTYPES, num_equal, pulled_back_fields, poly_expressions
from harness.sexp import A, dumps, loads_all

PID = 'C04'
PROPS_MODULE = 'SympdeModel.Props.C04'
RULE = ('a case is (patch layout, mapping type(s), region, integrand): single patches in 1-D/2-D/3-D with symbolic, polynomial '
        '(orientation preserving / reversing), catalogue and surface (3 components, 2 logical directions) mappings; regions are '
        'the interior and every face (axis, side); two- and three-patch domains whose patches carry different mappings, '
        'integrated over the whole domain and over its whole boundary; volume-preserving mappings that are no isometries '
        '(unimodular affine, polynomial shears); catalogue mappings set up again under the same name with other parameter '
        'values in one process (oracle); non-trivial = the mapping is not the identity; '
        'distinct by request line')
ASSUMPTIONS = [
    'the change-of-variables theorem itself (integral over F(P) of f = integral over P of (f∘F)·sqrt(det(JᵀJ))) is classical '
    'analysis: it is the specification, what is proved and checked is that the kernel is exactly (f∘F)·sqrt(det(JᵀJ)) with the '
    'Jacobian of the right patch restricted to the right region',
    'x ↦ x^(1/2) is interpreted as a square root (hypothesis `hsqrt` of element_sq)',
    'the transformation of the integrand is property C03 (PB.logical_sound); integrands here are linear in one test function',
    'the oracle evaluates kernels at points of the region (x̂_axis = the bound of the face)',
]

_n = itertools.count()


class SurfEnv:
    """a surface in R^3 over a logical square"""

    def __init__(self, rng, mtype, tag='c4'):
        from sympde.topology import Mapping, Square, ScalarFunctionSpace, element_of
        from sympde.topology import analytical_mapping as am
        from sympde.core import Constant
        sfx = '%ss%s%d' % (tag, mtype, next(_n))
        self.sfx, self.mtype, self.dim, self.pdim = sfx, mtype, 2, 3
        name = 'M' + sfx
        if mtype == 'torussurf':
            M = am.TorusSurfaceMapping(name, R0=rng.choice([3, 4]), a=rng.choice([1, 2]))
        elif mtype == 'twistedsurf':
            M = am.TwistedTargetSurfaceMapping(name, c1=0, c2=0, c3=0, k=Rational(3, 10), D=Rational(1, 5))
        elif mtype == 'polysurf':
            a, b, c = (Rational(rng.randint(1, 3), rng.choice([5, 7])) for _ in range(3))
            ex = {'x': 'x1 + %s*x2**2' % a, 'y': 'x2 + %s*x1*x2' % b, 'z': '%s*x1**2 + x1*x2' % c}
            M = type('UserSurf' + sfx, (Mapping,), {'_expressions': ex, '_ldim': 2, '_pdim': 3})(name)
        else:
            M = Mapping(name, ldim=2, pdim=3)
        self.mapping = M
        self.logical_domain = Square('Om' + sfx)
        self.domain = M(self.logical_domain)
        self.coords = list(PHYS[:3])
        V = ScalarFunctionSpace('V' + sfx, self.domain, kind='h1')
        self.sf = {'h1': [element_of(V, name=n + sfx) for n in ('u', 'v')]}
        self.vf = {}
        self.cst = [Constant('c' + sfx)]
        self.ops = []

    def model_ok(self):
        return True

    def components_sexp(self, ser):
        M = self.mapping
        if not M.is_analytical:
            return [[A('idx'), [A('vf'), M.name, A('undefined')], i] for i in range(3)]
        return [ser.ser(e) for e in M.expressions]

    def concrete(self, rng):
        from sympde.core import Constant
        M = self.mapping
        cst = {}
        if M.is_analytical:
            F = []
            for e in M.expressions:
                for c in e.atoms(Constant):
                    cst.setdefault(c.name, Rational(rng.choice([1, 2, 3]), rng.choice([2, 3])))
                F.append(e.subs({c: cst[c.name] for c in e.atoms(Constant)}))
        else:
            x1, x2 = LOGI[:2]
            F = [x1 + Rational(1, 5) * x2 ** 2, x2 - Rational(1, 7) * x1 * x2, Rational(1, 3) * x1 ** 2 + x1 * x2 + x2]
        return [sympy.sympify(f) for f in F], cst


class PEnv:
    """a mapped patch like MEnv whose mapping object, names and exact components are given by the caller:
    `make(name)` builds the sympde mapping, `F` are its components written out by hand in the logical
    coordinates (the ground truth of the oracle does not read them back from sympde).  `mname` / `lname`
    fix the names of the mapping and of the logical patch (history cases reuse them on purpose); the
    function space and the functions always get names of their own"""

    def __init__(self, dim, mtype, make, F, tag='c4p', mname=None, lname=None, bounds=None):
        from sympde.topology import Line, Square, Cube, ScalarFunctionSpace, element_of
        from sympde.topology import derivatives as dv
        from sympde.core import Constant
        sfx = '%s%d%s%d' % (tag, dim, mtype, next(_n))
        self.sfx, self.mtype, self.dim = sfx, mtype, dim
        self.mapping = make(mname or 'M' + sfx)
        self.F = [sympy.sympify(f) for f in F]
        self.pdim = len(self.F)
        self.bounds = bounds
        kw = {}
        if bounds is not None:
            kw = dict(bounds=bounds[0]) if dim == 1 else {'bounds%d' % (i + 1): b for i, b in enumerate(bounds)}
        self.logical_domain = {1: Line, 2: Square, 3: Cube}[dim](lname or 'Om' + sfx, **kw)
        self.domain = self.mapping(self.logical_domain)
        self.coords = list(PHYS[:self.pdim])
        V = ScalarFunctionSpace('V' + sfx, self.domain, kind='h1')
        self.sf = {'h1': [element_of(V, name=n + sfx) for n in ('u', 'v')]}
        self.vf = {}
        self.cst = [Constant('c' + sfx)]
        self.ops = [dv.dx, dv.dy, dv.dz][:dim] if self.pdim == dim else []

    def model_ok(self):
        return True

    def components_sexp(self, ser):
        return [ser.ser(e) for e in self.mapping.expressions]

    def concrete(self, rng):
        return list(self.F), {}


def _user_mapping(ex, ldim, pdim):
    """make(name) for a user-defined analytical mapping (a Mapping subclass with `_expressions`)"""
    from sympde.topology import Mapping

    def make(name):
        return type('UserMap' + name, (Mapping,), {'_expressions': dict(ex), '_ldim': ldim, '_pdim': pdim})(name)
    return make


def _affine(dim, Amat, c):
    """(make, F) of the catalogue AffineMapping x = c + A x̂ with numeric A, c"""
    from sympde.topology import analytical_mapping as am
    params = {'c%d' % (i + 1): c[i] for i in range(dim)}
    params.update({'a%d%d' % (i + 1, j + 1): Amat[i, j] for i in range(dim) for j in range(dim)})
    F = [c[i] + sum((Amat[i, j] * LOGI[j] for j in range(dim)), S.Zero) for i in range(dim)]
    return (lambda name: am.AffineMapping(name, dim=dim, **params)), F


def vp_affine_matrix(rng, dim):
    """a matrix of determinant ±1 that is not orthogonal (volume preserving, no isometry): a product of one or two
    elementary shears, sometimes times a squeeze diag(2, 1/2, 1) or a reflection"""
    while True:
        Amat = sympy.eye(dim)
        for _ in range(rng.choice([1, 1, 2])):
            i, j = rng.sample(range(dim), 2)
            E = sympy.eye(dim)
            E[i, j] = rng.choice([-2, -1, 1, 2])
            Amat = Amat * E
        k = rng.random()
        if k < 0.25:
            D = sympy.eye(dim)
            i, j = rng.sample(range(dim), 2)
            D[i, i], D[j, j] = S(2), Rational(1, 2)
            Amat = D * Amat
        elif k < 0.4:
            D = sympy.eye(dim)
            i = rng.randrange(dim)
            D[i, i] = -1
            Amat = Amat * D
        if (Amat.T * Amat) != sympy.eye(dim) and abs(Amat.det()) == 1:
            return Amat


def vp_env(rng, dim, mtype, tag='c4'):
    """volume-preserving mappings that are no isometries (det(JᵀJ) = 1 on the interior, yet the faces are
    stretched): the element of a face is that of the face Jacobian, never the one of the full metric.
    `vpaffine`: a catalogue AffineMapping with a unimodular matrix (shear, squeeze); `vppoly`: a user-defined
    polynomial shear  x_i = x̂_i + p(x̂_j, j < i)  (triangular with unit diagonal)"""
    if mtype == 'vpaffine':
        Amat = vp_affine_matrix(rng, dim)
        make, F = _affine(dim, Amat, [S(rng.choice([-1, 0, 0, 2])) for _ in range(dim)])
        return PEnv(dim, mtype, make, F, tag=tag)
    a, b, c = (Rational(rng.choice([-2, -1, 1, 1, 2, 3]), rng.choice([1, 1, 2, 3])) for _ in range(3))
    X = [Symbol('x%d' % (i + 1)) for i in range(3)]
    if dim == 2:
        lower = rng.random() < 0.6
        p = a * X[0 if lower else 1] ** 2 + (b * X[0 if lower else 1] if rng.random() < 0.4 else 0)
        ex = [X[0], X[1] + p] if lower else [X[0] + p, X[1]]
    else:
        ex = [X[0], X[1] + a * X[0] ** 2, X[2] + b * X[0] * X[1] + (c * X[1] if rng.random() < 0.5 else 0)]
    F = [sympy.sympify(e).subs({X[i]: LOGI[i] for i in range(3)}) for e in ex]
    names = dict(zip('xyz', (str(e) for e in ex)))
    return PEnv(dim, mtype, _user_mapping(names, dim, dim), F, tag=tag)


def catalogue(fam, p):
    """(make, F, ldim) of a catalogue mapping with numeric parameters `p`; F is written out here from the
    defining formulas (polar, target, torus, torus surface, affine), not read back from sympde"""
    from sympde.topology import analytical_mapping as am
    x1, x2, x3 = LOGI
    cos, sin = sympy.cos, sympy.sin
    if fam == 'affine':
        make, F = _affine(p['A'].rows, p['A'], p['c'])
        return make, F, p['A'].rows
    if fam == 'polar':
        r = p['rmin'] * (1 - x1) + p['rmax'] * x1
        return (lambda name: am.PolarMapping(name, **p)), [p['c1'] + r * cos(x2), p['c2'] + r * sin(x2)], 2
    if fam == 'target':
        return (lambda name: am.TargetMapping(name, **p)), [p['c1'] + (1 - p['k']) * x1 * cos(x2) - p['D'] * x1 ** 2,
                                                            p['c2'] + (1 + p['k']) * x1 * sin(x2)], 2
    if fam == 'torus':
        return (lambda name: am.TorusMapping(name, **p)), [(p['R0'] + x1 * cos(x2)) * cos(x3), (p['R0'] + x1 * cos(x2)) * sin(x3),
                                                           x1 * sin(x2)], 3
    if fam == 'torussurf':
        return (lambda name: am.TorusSurfaceMapping(name, **p)), [(p['R0'] + p['a'] * cos(x1)) * cos(x2),
                                                                  (p['R0'] + p['a'] * cos(x1)) * sin(x2), p['a'] * sin(x1)], 2
    raise ValueError(fam)


# the same mapping NAME (and patch name) used again in one process with other parameter values, as in a
# parameter study: every problem must get the elements of its own mapping, the later ones too
HISTORY = [
    ('polar', [dict(c1=0, c2=0, rmin=1, rmax=2), dict(c1=0, c2=0, rmin=1, rmax=3), dict(c1=0, c2=0, rmin=Rational(1, 2), rmax=2)]),
    ('affine', [dict(A=Matrix(2, 2, [2, 1, 0, 3]), c=[0, 0]), dict(A=Matrix(2, 2, [1, -2, 1, 1]), c=[0, 0])]),
    ('target', [dict(c1=0, c2=0, k=Rational(3, 10), D=Rational(1, 5)), dict(c1=0, c2=0, k=Rational(1, 5), D=Rational(3, 10))]),
    ('torussurf', [dict(R0=3, a=1), dict(R0=4, a=2)]),
]


def random_history(rng):
    """(family, [parameters, other parameters]) : two different parameter sets of one catalogue mapping"""
    fam = rng.choice(['polar', 'polar', 'affine', 'target'])

    def draw():
        if fam == 'polar':
            rmin = rng.choice([Rational(1, 2), S(1), S(2)])
            return dict(c1=rng.choice([0, 1]), c2=rng.choice([0, -1]), rmin=rmin, rmax=rmin + rng.choice([1, 2, Rational(3, 2)]))
        if fam == 'target':
            return dict(c1=0, c2=0, k=Rational(rng.choice([2, 3, 4]), 10), D=Rational(rng.choice([1, 2, 3]), 10))
        while True:
            Amat = Matrix(2, 2, [rng.choice([-2, -1, 1, 2, 3]) for _ in range(4)])
            if Amat.det() != 0:
                return dict(A=Amat, c=[rng.choice([0, 1]), rng.choice([0, -1])])
    first = draw()
    while True:
        second = draw()
        if second != first:
            return fam, [first, second]


def regions_of(dom):
    """[(region object, axis or None, ext or None)] : the interior and every face of a one-patch domain"""
    out = [(dom, None, None)]
    b = dom.boundary
    faces = list(b.args) if hasattr(b, 'args') and not hasattr(b, 'axis') else [b]
    for f in faces:
        out.append((f, int(f.axis), int(f.ext)))
    return out


def coordexpr(rng, env):
    x = env.coords
    k = rng.random()
    if k < 0.4:
        return rng.choice(x)
    if k < 0.6:
        return rng.choice(x) * rng.choice(x) + 1
    if k < 0.8:
        return sympy.sin(rng.choice(x)) + 2
    return S.One


def gen_integrand(rng, env):
    """(integrand, test function): linear in the test function v"""
    u, v = env.sf['h1']
    k = rng.random()
    g = coordexpr(rng, env)
    if not env.ops or k < 0.45:
        return g * v, v
    if k < 0.7:
        return g * u * v, v
    if k < 0.85:
        return g * rng.choice(env.ops)(v), v
    return sum((d(u) * d(v) for d in env.ops), S.Zero) + g * v, v


def kernels(form, dom, ldom):
    from sympde.topology.mapping import LogicalExpr
    from sympde.expr.evaluation import TerminalExpr
    t = TerminalExpr(LogicalExpr(form, dom), ldom)
    out = []
    for k in t:
        tg = k.target
        e = k.expr
        if isinstance(e, sympy.MatrixBase) and e.shape == (1, 1):
            e = e[0]
        face = None if not hasattr(tg, 'axis') else (int(tg.axis), int(tg.ext))
        pname = tg.domain.name if face is not None else tg.name
        out.append((str(pname), face, e, tg))
    return out


def patch_sexp(env, ser, lname=None):
    return [lname or env.logical_domain.name, env.mapping.name, env.dim, env.components_sexp(ser)]


def face_sexp(axis, ext):
    return A('interior') if axis is None else [A('face'), axis, ext]


def phys_body(env, e):
    from sympde.expr.evaluation import TerminalExpr
    t = TerminalExpr(e, env.domain)
    if isinstance(t, sympy.MatrixBase) and t.shape == (1, 1):
        t = t[0]
    return t


def single_cases(ctx, n):
    rng = ctx.rng
    envs = {}
    for _ in range(n):
        k = rng.random()
        if k < 0.22:
            mt = rng.choice(['torussurf', 'twistedsurf', 'polysurf', 'symsurf'])
            key = ('s', mt)
            if key not in envs:
                envs[key] = SurfEnv(rng, mt)
        elif k < 0.34:
            # volume preserving, not an isometry: det(JᵀJ) = 1 inside, stretched faces
            dim = rng.choice([2, 2, 3])
            mt = rng.choice(['vpaffine', 'vppoly'])
            key = (dim, mt, rng.randrange(3))
            if key not in envs:
                envs[key] = vp_env(rng, dim, mt)
        else:
            dim = rng.choice([1, 2, 2, 2, 3, 3])
            mt = rng.choice([m for m in MTYPES[dim] if m != 'collela'])
            key = (dim, mt)
            if key not in envs:
                envs[key] = MEnv(rng, dim, mt, tag='c4', kinds=('h1',))
        env = envs[key]
        reg, axis, ext = rng.choice(regions_of(env.domain))
        e, v = gen_integrand(rng, env)
        yield env, reg, axis, ext, e, v


def multi_layout(rng):
    """2 or 3 mapped squares in a row glued along axis 0, each patch with its own mapping"""
    from sympde.topology import Domain
    n = rng.choice([2, 2, 3])
    envs = []
    for i in range(n):
        mt = rng.choice(['sym', 'poly', 'polyneg', 'affine', 'polar', 'identity'])
        envs.append(MEnv(rng, 2, mt, tag='c4m', kinds=('h1',), bounds=[(i, i + 1), (0, 1)]))
    conn = [((i, 0, 1), (i + 1, 0, -1), 1) for i in range(n - 1)]
    D = Domain.join([e.domain for e in envs], conn, 'D%d' % next(_n))
    return envs, D


# ---------------------------------------------------------------------------------------------- correspondence
def correspondence(ctx):
    from sympde.expr import LinearForm, integral
    from sympde.topology import ScalarFunctionSpace, element_of
    c = Corr()
    ser = MSer()
    n = 500 if ctx.thorough else 70
    limit = 60 if ctx.thorough else 25
    cases, seen = [], set()
    for env, reg, axis, ext, e, v in single_cases(ctx, n):
        try:
            with time_limit(limit):
                body = phys_body(env, e)
                line = 'C04 integral %s %s %s' % (dumps(patch_sexp(env, ser)), dumps(face_sexp(axis, ext)), dumps(ser.ser(body)))
        except Timeout:
            c.count('timeout:setup')
            continue
        if line in seen or '(other ' in line:
            c.count('duplicate-or-outside-format')
            continue
        seen.add(line)
        try:
            with time_limit(limit):
                ks = ('ok', kernels(LinearForm(v, integral(reg, e)), env.domain, env.logical_domain))
        except Timeout:
            c.count('impl-timeout')
            continue
        except Exception as ex:
            ks = ('err', type(ex).__name__)
        cases.append((line, env, axis, ext, ks, str(e)))
    outs = ctx.driver.run([x[0] for x in cases])
    for (line, env, axis, ext, ks, label), out in zip(cases, outs):
        c.evaluations += 1
        c.count('%s:%s:%s' % (env.mtype, 'interior' if axis is None else 'face', 'dim%d' % env.dim))
        if ks[0] == 'err':
            c.count('impl-err:' + ks[1])
            if out != 'err ' + ks[1]:
                c.disagreements.append({'input': line[:600], 'impl': 'raised ' + ks[1], 'model': out[:300], 'note': 'error'})
            continue
        if not out.startswith('ok '):
            c.disagreements.append({'input': line[:600], 'impl': str(ks[1])[:300], 'model': out[:300], 'note': 'model refused'})
            continue
        if len(ks[1]) != 1:
            c.disagreements.append({'input': line[:600], 'impl': '%d kernels' % len(ks[1]), 'model': out[:200], 'note': 'kernel count'})
            continue
        pname, face, kexpr, tg = ks[1][0]
        parts = loads_all(out[3:])
        mname, mface, mk = parts[0], parts[1], parts[2]
        want_face = None if str(mface) == 'interior' else (int(mface[1]), int(mface[2]))
        if str(mname) != pname or want_face != face:
            c.disagreements.append({'input': line[:600], 'impl': '%s %s' % (pname, face), 'model': '%s %s' % (mname, want_face), 'note': 'region'})
            continue
        try:
            eq = num_equal(mk, ser.ser(kexpr), tol='1e-9' if sympy.sympify(kexpr).atoms(sympy.Float) else '1e-30')
        except Exception as ex:
            c.count('compare-failed:' + type(ex).__name__)
            eq = None
        if eq is None:
            c.count('undecided')
        elif not eq:
            c.disagreements.append({'input': line[:800], 'expr': label[:200], 'impl': str(kexpr)[:500], 'model': dumps(mk)[:500], 'note': 'kernel'})
            continue
        if env.mtype != 'identity':
            c.nontrivial.add(line)
        if len(c.samples) < 6 and axis is not None:
            c.samples.append({'integrand': label[:120], 'mapping': env.mtype, 'face': [axis, ext], 'kernel': str(kexpr)[:200]})
    # multi-patch: every member of the domain / of its boundary with its own mapping
    for _ in range(12 if ctx.thorough else 3):
        envs, D = multi_layout(ctx.rng)
        V = ScalarFunctionSpace('Vm' + envs[0].sfx, D, kind='h1')
        v = element_of(V, name='vm' + envs[0].sfx)
        x = D.coordinates[0]
        for regname, reg in (('domain', D), ('boundary', D.boundary)):
            c.evaluations += 1
            c.count('multi:%s:%d patches:%s' % (regname, len(envs), '+'.join(e.mtype for e in envs)))
            e = (x + 2) * v
            try:
                with time_limit(120):
                    ks = kernels(LinearForm(v, integral(reg, e)), D, D.logical_domain)
            except Timeout:
                c.count('impl-timeout')
                continue
            expected = []
            for env in envs:
                for r, axis, ext in regions_of(env.domain):
                    if (regname == 'domain') != (axis is None):
                        continue
                    if axis is not None and not any(r == f for f in (reg.args if hasattr(reg, 'args') and not hasattr(reg, 'axis') else [reg])):
                        continue
                    expected.append((env, axis, ext))
            lines = ['C04 integral %s %s %s' % (dumps(patch_sexp(env, ser)), dumps(face_sexp(axis, ext)),
                                                 dumps(ser.ser((PHYS[0] + 2) * v))) for env, axis, ext in expected]
            outs = ctx.driver.run(lines)
            got = {(p, f): k for p, f, k, _ in ks}
            if len(got) != len(ks) or len(ks) != len(expected):
                c.disagreements.append({'input': 'multi %s' % regname, 'impl': str(sorted((p, str(f)) for p, f, _, _ in ks)),
                                        'model': str([(env.logical_domain.name, axis, ext) for env, axis, ext in expected]), 'note': 'member set'})
                continue
            ok = True
            for (env, axis, ext), ln, out in zip(expected, lines, outs):
                key = (env.logical_domain.name, None if axis is None else (axis, ext))
                if key not in got or not out.startswith('ok '):
                    c.disagreements.append({'input': ln[:500], 'impl': str(sorted(map(str, got))), 'model': out[:200], 'note': 'missing member'})
                    ok = False
                    break
                mk = loads_all(out[3:])[2]
                eq = num_equal(mk, ser.ser(got[key]), tol='1e-9' if sympy.sympify(got[key]).atoms(sympy.Float) else '1e-30')
                if eq is False:
                    c.disagreements.append({'input': ln[:500], 'impl': str(got[key])[:400], 'model': dumps(mk)[:400], 'note': 'multi kernel'})
                    ok = False
                    break
            if ok:
                c.nontrivial.add('multi:%s:%s' % (regname, '+'.join(e.mtype for e in envs)))
    return c


# ---------------------------------------------------------------------------------------------- oracle
def true_element(F, ldim, axis):
    """sqrt(det(JᵀJ)) of the mapping restricted to the region, from the tangents of the remaining
    logical directions (independent of sympde): |t| for one tangent, |t1 × t2| for two in R^3,
    sqrt of the Gram determinant in general"""
    xs = LOGI[:ldim]
    keep = [k for k in range(ldim) if k != axis]
    if not keep:
        return S.One                      # the end point of a 1-D patch
    T = Matrix(len(F), len(keep), lambda i, c: sympy.diff(F[i], xs[keep[c]]))
    if len(keep) == 1:
        return sqrt(sum((T[i, 0] ** 2 for i in range(len(F))), S.Zero))
    if len(keep) == 2 and len(F) == 3:
        cr = T[:, 0].cross(T[:, 1])
        return sqrt(sum((t ** 2 for t in cr), S.Zero))
    return sqrt((T.T * T).det())


def check_kernel(ctx, o, env, e, v, axis, ext, kexpr, key, bounds=None):
    rng = ctx.rng
    ldim = env.dim
    pdim = len(env.coords)
    label = 'integral of %s over %s of a %s patch' % (e, 'the interior' if axis is None else 'face (axis %d, ext %d)' % (axis, ext), env.mtype)
    try:
        with time_limit(40):
            pins = Inst(rng, pdim, PHYS[:pdim])
            F, cst = env.concrete(rng)
            pins.cst = dict(cst)
            orig = pins.inst(e)
            orig = sympy.sympify(orig).subs({PHYS[i]: F[i] for i in range(pdim)}, simultaneous=True)
            if pdim == ldim:
                sfs, vfs, J, det = pulled_back_fields(env, pins, F)
            else:
                sub = {PHYS[i]: F[i] for i in range(pdim)}
                sfs = {f.name: sympy.sympify(pins.of_sf(f.name)).subs(sub, simultaneous=True) for fs in env.sf.values() for f in fs}
                vfs = {}
            truth = orig * true_element(F, ldim, axis)
            lins = MapInst(rng, ldim, F, pins.cst)
            lins.sf, lins.vf = dict(sfs), dict(vfs)
            got = lins.inst(kexpr)
            left = [x for x in sympy.sympify(got).free_symbols if x in PHYS]
            if left:
                o.fail(key or ('physical-coordinate:' + label[:200]),
                       'the kernel of the %s still contains the physical coordinate(s) %s: %s' % (label, left, str(kexpr)[:300]))
                return
            pt = {}
            if axis is not None:
                b = bounds[axis] if bounds else (0, 1)
                pt = {LOGI[axis]: S(b[0] if ext == -1 else b[1])}
                truth, got = truth.subs(pt), sympy.sympify(got).subs(pt)
            coords = [x for k, x in enumerate(LOGI[:ldim]) if k != axis]
            floats = bool(sympy.sympify(kexpr).atoms(sympy.Float)) or env.mtype == 'czarnyf'
            ok = same_value(truth, got, coords or [LOGI[0]], rng, numeric=True, tol=1e-9 if floats else 1e-35)
            if ok is True and coords and (key or rng.random() < 0.4):
                # the identity holds at every logical point, also at negative logical coordinates (a patch
                # [-2,-1] x [0,pi/2] of a polar mapping is regular): same_value samples positive points only, so
                # compare once more with some coordinates reflected (seeded change C04-7 took sqrt(x1**2) = x1)
                refl = [x for x in coords if rng.random() < 0.6] or [coords[0]]
                sub = {x: -x for x in refl}
                ok2 = same_value(truth.subs(sub), sympy.sympify(got).subs(sub), coords, rng, numeric=True, tol=1e-9 if floats else 1e-35)
                o.count('reflected-point:%s' % ok2)
                if ok2 is False:
                    ok = False
    except (Timeout, NotImplementedError) as ex:
        o.count('skipped:' + type(ex).__name__)
        return
    o.count('%s:%s' % (env.mtype, 'interior' if axis is None else 'face'))
    if ok is None:
        # undecided: is it the kernel that cannot be evaluated (complex / not finite) where the truth can?
        from harness.inst import numeval
        bad = 0
        # a face on which the mapping itself is singular (r = 0 of a polar-like patch) has no inverse Jacobian: the
        # transformed integrand is undefined there and nothing is demanded of the kernel
        detJ = None
        if pdim == ldim:
            detJ = Matrix(pdim, ldim, lambda i, j: sympy.diff(F[i], LOGI[j])).det().subs(pt)
        for _ in range(4):
            pt2 = {x: Rational(rng.randint(2, 30), rng.randint(31, 37)) for x in (coords or [LOGI[0]])}
            try:
                numeval(truth, pt2)
                if detJ is not None and abs(numeval(detJ, pt2)) < 1e-30:
                    o.count('singular-face-point')
                    continue
            except Exception:
                continue
            try:
                numeval(got, pt2)
            except (TypeError, ZeroDivisionError) as ex:
                bad += 1
                why = str(ex)
            except Exception:
                pass
        if bad >= 2:
            o.fail(key or ('kernel-not-real:' + label[:200]),
                   'the kernel of the %s has no finite real value (%s) at points where (integrand at F)·element is finite: %s'
                   % (label, why, str(kexpr)[:300]))
            return
        o.count('undecided')
    elif ok is False:
        o.fail(key or ('kernel:' + label[:200]),
               'the kernel of the %s is %s, which is not (integrand at F(x̂)) · sqrt(det(JᵀJ)) of the mapping restricted to the region'
               % (label, str(kexpr)[:300]), mapping=[str(f) for f in F])
    elif len(o.samples) < 5 and axis is not None:
        o.samples.append({'case': label[:200], 'kernel': str(kexpr)[:200]})


def oracle(ctx, factor, seeds):
    from sympde.expr import LinearForm, integral
    from sympde.topology import ScalarFunctionSpace, element_of
    o = Oracle()
    n = (300 if ctx.thorough else 45) * factor
    # every face of fixed patches (corpus): polar 2-D, polynomial 3-D, a surface, a 1-D patch
    corpus = []
    for dim, mt in ((2, 'polar'), (3, 'poly'), (1, 'polyneg'), (2, 'polyneg'), (2, 'czarnyf')):
        env = MEnv(ctx.rng, dim, mt, tag='c4k', kinds=('h1',))
        for reg, axis, ext in regions_of(env.domain):
            corpus.append((env, reg, axis, ext, env.sf['h1'][1] * (env.coords[0] + 2), env.sf['h1'][1],
                           'corpus:%s %dd %s' % (mt, dim, 'interior' if axis is None else 'face %d %d' % (axis, ext))))
    senv = SurfEnv(ctx.rng, 'torussurf', tag='c4k')
    for reg, axis, ext in regions_of(senv.domain):
        corpus.append((senv, reg, axis, ext, senv.sf['h1'][1], senv.sf['h1'][1],
                       'corpus:torus surface %s' % ('interior' if axis is None else 'face %d %d' % (axis, ext))))
    corpus.append((senv, senv.domain, None, None, PHYS[2] * senv.sf['h1'][1], senv.sf['h1'][1], 'corpus:torus surface z*v interior'))
    # volume-preserving mappings that are no isometries, every face: the affine shear (1 1; 0 1), the parabolic
    # shear (x1, x2 + x1**2), a squeeze, a 3-D shear (seeded change C04-10 used the element 1 of the full metric
    # on the faces as well)
    fixed_vp = [('shear', 2) + _affine(2, Matrix(2, 2, [1, 1, 0, 1]), [0, 0]),
                ('squeeze', 2) + _affine(2, Matrix(2, 2, [2, 0, 0, Rational(1, 2)]), [1, 0]),
                ('parabolic shear', 2, _user_mapping({'x': 'x1', 'y': 'x2 + x1**2'}, 2, 2), [LOGI[0], LOGI[1] + LOGI[0] ** 2]),
                ('shear', 3) + _affine(3, Matrix(3, 3, [1, 1, 0, 0, 1, 2, 0, 0, 1]), [0, 0, 0])]
    for nm, dim, make, F in fixed_vp:
        env = PEnv(dim, 'vp-' + nm.replace(' ', '-'), make, F, tag='c4k')
        for reg, axis, ext in regions_of(env.domain):
            corpus.append((env, reg, axis, ext, env.sf['h1'][1] * (env.coords[0] + 2), env.sf['h1'][1],
                           'corpus:volume-preserving %s %dd %s' % (nm, dim, 'interior' if axis is None else 'face %d %d' % (axis, ext))))

    def one(env, reg, axis, ext, e, v, key):
        o.evaluations += 1
        try:
            with time_limit(900 if key else 60):
                ks = kernels(LinearForm(v, integral(reg, e)), env.domain, env.logical_domain)
        except Timeout:
            o.count('impl-timeout')
            return
        except Exception as ex:
            o.count('refused:' + type(ex).__name__)
            if key:
                o.fail(key, '%s raised %s' % (key, type(ex).__name__))
            return
        if len(ks) != 1:
            o.fail(key or 'count:%s:%s' % (env.mtype, e), 'one integral gave %d kernels' % len(ks))
            return
        pname, face, kexpr, tg = ks[0]
        want = None if axis is None else (axis, ext)
        if pname != env.logical_domain.name or face != want:
            o.fail(key or 'region:%s:%s:%s' % (env.mtype, want, e),
                   'the integral over %s of patch %s is transformed to an integral over %s of %s' % (want, env.logical_domain.name, face, pname))
            return
        check_kernel(ctx, o, env, e, v, axis, ext, kexpr, key)

    stream = itertools.chain(corpus, ((a, b, c_, d, e, v, None) for a, b, c_, d, e, v in single_cases(ctx, n)))
    for env, reg, axis, ext, e, v, key in stream:
        one(env, reg, axis, ext, e, v, key)
    # call history: a mapping of the same class and NAME (on a patch of the same name) set up again in this process
    # with other parameter values; each problem is lowered before the next one is set up, and every one of them
    # must carry the elements of its own mapping (seeded change C04-9 dropped the expressions from the mapping's
    # identity: the later mappings got the first one's Jacobian out of sympy's caches)
    def history(fam, seq, names, fixed):
        for k, p in enumerate(seq):
            make, F, ldim = catalogue(fam, p)
            env = PEnv(ldim, 'hist-' + fam, make, F, tag='c4h', mname='M' + names, lname='Om' + names)
            regs = regions_of(env.domain)
            if fixed:
                regs = [regs[0], regs[1 + (k % 2)], regs[4 - (k % 2)]]      # the interior, one face per axis
            else:
                regs = [regs[0], ctx.rng.choice(regs[1:])]
            v = env.sf['h1'][1]
            for reg, axis, ext in regs:
                e = v * (env.coords[0] + 2) if fixed else gen_integrand(ctx.rng, env)[0]
                key = None
                if fixed:
                    key = 'history:%s, parameter set %d of %d under one name, %s' % (
                        fam, k + 1, len(seq), 'interior' if axis is None else 'face %d %d' % (axis, ext))
                one(env, reg, axis, ext, e, v, key)
                o.count('history:%s:%s' % (fam, 'first' if k == 0 else 'later'))

    for fam, seq in HISTORY:
        history(fam, seq, 'c4hist' + fam, True)
    for _ in range((12 if ctx.thorough else 3) * factor):
        fam, seq = random_history(ctx.rng)
        history(fam, seq, 'c4hrnd' + fam, False)
    # multi-patch domains
    for _ in range((10 if ctx.thorough else 3) * factor):
        envs, D = multi_layout(ctx.rng)
        V = ScalarFunctionSpace('Vo' + envs[0].sfx, D, kind='h1')
        v = element_of(V, name='vo' + envs[0].sfx)
        x, y = D.coordinates
        e = (x * y + 1) * v
        for regname, reg in (('domain', D), ('boundary', D.boundary)):
            o.evaluations += 1
            try:
                with time_limit(120):
                    ks = kernels(LinearForm(v, integral(reg, e)), D, D.logical_domain)
            except Timeout:
                o.count('impl-timeout')
                continue
            byname = {env.logical_domain.name: (env, i) for i, env in enumerate(envs)}
            members = set()
            for pname, face, kexpr, tg in ks:
                if pname not in byname:
                    o.fail('multi:unknown-patch:%s' % pname, 'a kernel on the unknown patch %s' % pname)
                    continue
                env, i = byname[pname]
                members.add((pname, face))
                # the same integrand written with this patch's own test function name is not needed: v is shared
                class _E:      # view of the patch with the shared test function
                    pass
                pe = _E()
                pe.dim, pe.coords, pe.mtype = 2, env.coords, env.mtype
                pe.sf = {'h1': [v, v]}
                pe.vf = {}
                pe.concrete = env.concrete
                axis, ext = (None, None) if face is None else face
                check_kernel(ctx, o, pe, e, v, axis, ext, kexpr, None, bounds=[(i, i + 1), (0, 1)])
            expected = set()
            inner = {(envs[i].logical_domain.name, (0, 1)) for i in range(len(envs) - 1)} | \
                    {(envs[i + 1].logical_domain.name, (0, -1)) for i in range(len(envs) - 1)}
            for env in envs:
                if regname == 'domain':
                    expected.add((env.logical_domain.name, None))
                else:
                    for ax in (0, 1):
                        for ex in (-1, 1):
                            if (env.logical_domain.name, (ax, ex)) not in inner:
                                expected.add((env.logical_domain.name, (ax, ex)))
            if members != expected or len(ks) != len(expected):
                o.fail('multi:members:%s:%d' % (regname, len(envs)),
                       'integral over the %s of a %d-patch domain gives kernels on %s, expected one per member %s'
                       % (regname, len(envs), sorted(map(str, members)), sorted(map(str, expected))))
            o.count('multi:%s:%d' % (regname, len(envs)))
        # a linear form over the interfaces: the one-sided pieces land on the two faces of each interface,
        # each with the surface element of ITS OWN patch (seeded change C04-5 gave the plus face the minus
        # patch's mapping)
        from sympde.calculus import minus, plus
        ifs = D.interfaces
        ifs = list(ifs.args) if hasattr(ifs, 'args') and not hasattr(ifs, 'minus') else [ifs]
        e_m, e_p = (x + 2) * v, 3 * v
        o.evaluations += 1
        try:
            with time_limit(180):
                ks = kernels(LinearForm(v, integral(D.interfaces, (x + 2) * minus(v) + 3 * plus(v))), D, D.logical_domain)
        except Timeout:
            o.count('impl-timeout')
            continue
        except Exception as ex:
            o.fail('multi:interface:raised', 'LinearForm over the interfaces of a mapped %d-patch domain raised %s' % (len(envs), type(ex).__name__))
            continue
        byname = {env.logical_domain.name: (env, i) for i, env in enumerate(envs)}
        seen = set()
        for pname, face, kexpr, tg in ks:
            if pname not in byname or face is None:
                o.fail('multi:interface:target', 'an interface integral gave a kernel on %s %s' % (pname, face))
                continue
            env, i = byname[pname]
            seen.add((pname, face))
            kexpr = sympy.sympify(kexpr)
            kexpr = kexpr.xreplace({s_: Symbol(s_.name[:-5], real=True) for s_ in kexpr.free_symbols if s_.name.endswith('_plus')})

            class _E:
                pass
            pe = _E()
            pe.dim, pe.coords, pe.mtype = 2, env.coords, env.mtype
            pe.sf = {'h1': [v, v]}
            pe.vf = {}
            pe.concrete = env.concrete
            check_kernel(ctx, o, pe, e_m if face[1] == 1 else e_p, v, face[0], face[1], kexpr,
                         None, bounds=[(i, i + 1), (0, 1)])
        want = {(envs[i].logical_domain.name, (0, 1)) for i in range(len(envs) - 1)} | \
               {(envs[i + 1].logical_domain.name, (0, -1)) for i in range(len(envs) - 1)}
        if seen != want:
            o.fail('multi:interface:members:%d' % len(envs), 'the one-sided pieces of the interface integral are on %s, expected %s'
                   % (sorted(map(str, seen)), sorted(map(str, want))))
        o.count('multi:interface:%d' % len(envs))
    return o


def replay(ctx, path):
    import sys
    from harness.common import generic_replay
    return generic_replay(sys.modules[__name__], ctx, path)
