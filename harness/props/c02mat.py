"""C02 on the symbolic matrix layer (sympde/calculus/matrices.py) — helper module of c02.py.

Every application of a constructor of the layer (Transpose, Inverse, `.inv()`, MatSymbolicMul,
MatSymbolicAdd, `-`, `**`, SymbolicTrace, SymbolicDeterminant, MatrixElement) to already built
arguments is one case.

* correspondence: the request `C02M <op> <serialised arguments>` is answered by the Lean model
  (Model/MatSym.lean) and compared with the object the real constructor returned.  Compared are
  canonical forms that only forget what sympy orders by an internal key: the order of the terms of
  a sum, and the arrangement of the *commutative* factors of a product (compared as one Laurent
  polynomial).  The order of the non-commutative factors, every Transpose / Inverse / power node and
  the multiplicity of the terms of a sum are compared literally.
* oracle: independent of the model.  Every Jacobian symbol is bound to a random unimodular integer
  matrix (2x2 or 3x3, so inverses are exact), every Constant / Symbol to a random rational; the value
  of the literal application (computed from the values of the arguments with sympy matrices) must
  equal the value of the returned object (read by the small evaluator `Ev`), exactly.
"""
import itertools

import sympy
from sympy import Integer, Rational, Matrix, S

from harness.common import Timeout, time_limit
from harness.sexp import A as At, Atom, dumps, loads_all

MAXSIZE = 60


class Unser(Exception):
    pass


class Abort(Exception):
    """the constructor under test refused; the program stops here (the refusal is recorded)"""


class Singular(Exception):
    pass


class Mods:
    def __init__(self):
        import importlib
        M = importlib.import_module('sympde.calculus.matrices')
        from sympde.topology.mapping import JacobianSymbol, JacobianInverseSymbol, Mapping
        from sympde.core import Constant
        self.M = M
        self.JacobianSymbol, self.JacobianInverseSymbol, self.Mapping, self.Constant = \
            JacobianSymbol, JacobianInverseSymbol, Mapping, Constant


_mods = None


def mods():
    global _mods
    if _mods is None:
        _mods = Mods()
    return _mods


class MatEnv:
    """2-4 Jacobian symbols of distinct mappings of one dimension, two Constants, one Symbol"""

    def __init__(self, dim, nmap, tag=''):
        m = mods()
        self.dim = dim
        self.names = ['%s%d%s' % (n, dim, tag) for n in 'ABCD'[:nmap]]
        self.maps = [m.Mapping(n, dim=dim) for n in self.names]
        self.J = [M.jacobian for M in self.maps]
        self.consts = [m.Constant('c'), m.Constant('d')]
        self.x = sympy.Symbol('x')


# --------------------------------------------------------------------------- serialisation

def ser(e):
    """the object as the implementation sees it -> S-expression of Model/MatSym.lean"""
    m = mods()
    M = m.M
    if isinstance(e, m.JacobianSymbol):
        if e.axis is not None:
            raise Unser('axis')
        return [At('jac'), str(e.mapping.name)]
    if isinstance(e, m.JacobianInverseSymbol):
        if e.axis is not None:
            raise Unser('axis')
        return [At('jinv'), str(e.mapping.name)]
    if isinstance(e, M.Transpose):
        return [At('T'), ser(e.arg)]
    if isinstance(e, M.Inverse):
        return [At('inv'), ser(e.arg)]
    if isinstance(e, M.SymbolicTrace):
        return [At('tr'), ser(e.arg)]
    if isinstance(e, M.SymbolicDeterminant):
        return [At('det'), ser(e.arg)]
    if isinstance(e, M.MatrixElement):
        i, j = e.indices
        return [At('elem'), ser(e.base), At(int(i)), At(int(j))]
    if isinstance(e, m.Constant):
        return [At('sym'), str(e.name)]
    if isinstance(e, sympy.Symbol):
        return [At('var'), str(e.name)]
    if isinstance(e, sympy.Integer):
        return [At('num'), At(int(e))]
    if isinstance(e, sympy.Add):
        return [At('add')] + [ser(a) for a in e.args]
    if isinstance(e, sympy.Mul):
        return [At('mul')] + [ser(a) for a in e.args]
    if isinstance(e, sympy.Pow):
        b, k = e.args
        if type(k) is int:
            return [At('pow'), ser(b), At(k), At('true')]
        if isinstance(k, sympy.Integer):
            return [At('pow'), ser(b), At(int(k)), At('false')]
        raise Unser('exponent')
    raise Unser(type(e).__name__)


def sx_size(x):
    return 1 + sum(sx_size(a) for a in x[1:] if isinstance(a, list))


# --------------------------------------------------------------------------- canonical form

def is_comm(x):
    h = str(x[0])
    if h in ('num', 'sym', 'var', 'tr', 'det'):
        return True
    if h in ('jac', 'jinv', 'T', 'inv', 'elem'):
        return False
    if h in ('add', 'mul'):
        return all(is_comm(a) for a in x[1:])
    if h == 'pow':
        return is_comm(x[1])
    raise ValueError(h)


def p_add(p, q):
    r = dict(p)
    for k, v in q.items():
        r[k] = r.get(k, 0) + v
        if r[k] == 0:
            del r[k]
    return r


def mono_mul(a, b):
    d = dict(a)
    for k, e in b:
        d[k] = d.get(k, 0) + e
        if d[k] == 0:
            del d[k]
    return tuple(sorted(d.items(), key=repr))


def p_mul(p, q):
    r = {}
    for ka, va in p.items():
        for kb, vb in q.items():
            k = mono_mul(ka, kb)
            r[k] = r.get(k, 0) + va * vb
            if r[k] == 0:
                del r[k]
    return r


def p_key(p):
    return tuple(sorted(p.items(), key=repr))


P_ONE = {(): 1}


def poly(x):
    """Laurent polynomial (integer coefficients) of a commutative expression; atoms: Constants,
    Symbols, tr(.), det(.) (their arguments in canonical form), negative powers of non-monomials"""
    h = str(x[0])
    if h == 'num':
        k = int(x[1])
        return {(): k} if k else {}
    if h in ('sym', 'var'):
        return {(((h, x[1]), 1),): 1}
    if h in ('tr', 'det'):
        return {(((h, canon(x[1])), 1),): 1}
    if h == 'add':
        r = {}
        for a in x[1:]:
            r = p_add(r, poly(a))
        return r
    if h == 'mul':
        r = dict(P_ONE)
        for a in x[1:]:
            r = p_mul(r, poly(a))
        return r
    if h == 'pow':
        b, k = poly(x[1]), int(x[2])
        if k >= 0:
            r = dict(P_ONE)
            for _ in range(k):
                r = p_mul(r, b)
            return r
        if len(b) == 1 and list(b.values())[0] in (1, -1):
            (mono, cf), = b.items()
            inv = tuple((a, -e) for a, e in mono)
            r = dict(P_ONE)
            for _ in range(-k):
                r = p_mul(r, {inv: cf})
            return r
        return {(((('base', p_key(b))), k),): 1}
    raise ValueError(h)


def canon(x):
    if is_comm(x):
        return ('s', p_key(poly(x)))
    h = str(x[0])
    if h in ('jac', 'jinv'):
        return (h, x[1])
    if h in ('T', 'inv'):
        return (h, canon(x[1]))
    if h == 'elem':
        return ('elem', canon(x[1]), int(x[2]), int(x[3]))
    if h == 'pow':
        # a positive integer power of a non-commutative factor IS the repeated product (sympy gathers equal
        # neighbouring MatrixElements into a power, the model keeps the factors: same value)
        k = int(x[2])
        if k >= 1:
            cb = canon(x[1])
            return cb if k == 1 else ('mul', None, (cb,) * k)
        return ('pow', canon(x[1]), k)
    if h == 'add':
        return ('add', tuple(sorted((canon(a) for a in x[1:]), key=repr)))
    if h == 'mul':
        p = dict(P_ONE)
        nc = []
        for a in x[1:]:
            if is_comm(a):
                p = p_mul(p, poly(a))
            else:
                ca = canon(a)
                if isinstance(ca, tuple) and len(ca) == 3 and ca[0] == 'mul' and ca[1] is None:
                    nc.extend(ca[2])            # a repeated product standing for a positive power: flattened
                else:
                    nc.append(ca)
        if p == P_ONE:
            return nc[0] if len(nc) == 1 else ('mul', None, tuple(nc))
        return ('mul', p_key(p), tuple(nc))
    raise ValueError(h)


# --------------------------------------------------------------------------- the real constructors

OPS = ('T', 'Inverse', 'inv', 'tr', 'det', 'elem', 'pow', 'neg', 'sub', 'mul', 'add')


def real(op, args):
    M = mods().M
    if op == 'T':
        return M.Transpose(args[0])
    if op == 'Inverse':
        return M.Inverse(args[0])
    if op == 'inv':
        return args[0].inv()
    if op == 'tr':
        return M.SymbolicTrace(args[0])
    if op == 'det':
        return M.SymbolicDeterminant(args[0])
    if op == 'elem':
        return args[0][args[1], args[2]]
    if op == 'pow':
        return args[0] ** args[1]
    if op == 'neg':
        return -args[0]
    if op == 'sub':
        return args[0] - args[1]
    if op == 'mul':
        if len(args) == 2:
            return args[0] * args[1]                 # __mul__ / __rmul__
        return M.MatSymbolicMul(*args)
    if op == 'add':
        if len(args) == 2:
            return args[0] + args[1]                 # __add__ / __radd__
        return M.MatSymbolicAdd(*args)
    raise ValueError(op)


def request_line(op, args):
    if op == 'elem':
        return 'C02M elem %s %d %d' % (dumps(ser(args[0])), args[1], args[2])
    if op == 'pow':
        k = args[1]
        return 'C02M pow %s %d %s' % (dumps(ser(args[0])), int(k), 'true' if type(k) is int else 'false')
    return 'C02M %s %s' % (op, ' '.join(dumps(ser(a)) for a in args))


def literal_sexp(op, args):
    """the plain node around the arguments (what a constructor that rewrites nothing would return)"""
    if op == 'elem':
        return [At('elem'), ser(args[0]), At(args[1]), At(args[2])]
    if op == 'pow':
        return [At('pow'), ser(args[0]), At(int(args[1])), At('false')]
    if op == 'neg':
        return [At('mul'), [At('num'), At(-1)], ser(args[0])]
    if op == 'sub':
        return [At('add'), ser(args[0]), [At('mul'), [At('num'), At(-1)], ser(args[1])]]
    if op == 'Inverse':
        return [At('inv'), ser(args[0])]
    if op == 'inv':
        return [At('inv'), ser(args[0])]
    return [At(op)] + [ser(a) for a in args]


# --------------------------------------------------------------------------- generator

class MatGen:
    """random well-formed symbolic matrix expressions, built bottom-up with the real constructors;
    every application is recorded in `apps` as (op, args, ('ok', result) | ('err', class name))"""

    def __init__(self, rng, env, maxdepth=3):
        self.rng, self.env, self.maxdepth = rng, env, maxdepth
        self.apps = []

    def app(self, op, *args):
        try:
            r = real(op, args)
        except Exception as ex:
            self.apps.append((op, args, ('err', type(ex).__name__)))
            raise Abort()
        self.apps.append((op, args, ('ok', r)))
        return r

    def atom(self):
        J = self.rng.choice(self.env.J)
        if self.rng.random() < 0.2:
            return self.app('inv', J)
        return J

    def scal(self, depth):
        """a scalar coefficient: number, Constant, Symbol, power of a Constant, trace / determinant /
        element of a matrix expression, 1/det, or a product of two of these"""
        rng, env = self.rng, self.env
        k = rng.random()
        if k < 0.30:
            return Integer(rng.choice([-3, -2, -1, -1, 2, 2, 3, 4, 1, 0] if rng.random() < 0.1 else [-3, -2, -1, -1, 2, 2, 3, 4]))
        if k < 0.50:
            return rng.choice(env.consts)
        if k < 0.57:
            return env.x
        if k < 0.62:
            return rng.choice(env.consts) ** 2
        if k < 0.72:
            return self.app('tr', self.mat(depth - 1))
        if k < 0.80:
            return self.app('det', self.mat(depth - 1))
        if k < 0.86:
            return 1 / self.app('det', self.atom())
        if k < 0.92:
            return self.app('elem', self.mat(depth - 1), rng.randrange(env.dim), rng.randrange(env.dim))
        return Integer(rng.choice([-2, 2, 3])) * rng.choice(env.consts)

    def factors(self, depth, n):
        fs = [self.mat(depth - 1) for _ in range(n)]
        r = self.rng.random()
        if r < 0.55:
            for _ in range(self.rng.choice([1, 1, 2])):
                fs.insert(self.rng.randrange(len(fs) + 1), self.scal(depth - 1))
        if self.rng.random() < 0.15:                   # a repeated neighbour: sympy gathers A*A -> A**2
            i = self.rng.randrange(len(fs))
            fs.insert(i, fs[i])
        return fs

    def mat(self, depth):
        rng = self.rng
        k = rng.random()
        if depth <= 0 or k < 0.18:
            return self.atom()
        if k < 0.50:
            fs = self.factors(depth, rng.choice([2, 3, 3, 4]))
            if rng.random() < 0.5:
                return self.app('mul', *fs)
            r = fs[0]
            for f in fs[1:]:
                r = self.app('mul', r, f)
            return r
        if k < 0.64:
            ts = [self.mat(depth - 1) for _ in range(rng.choice([2, 2, 3]))]
            if rng.random() < 0.25:
                ts.append(ts[0])                        # a repeated term
            if rng.random() < 0.5:
                return self.app('add', *ts)
            r = ts[0]
            for t in ts[1:]:
                r = self.app('add', r, t)
            return r
        if k < 0.76:
            return self.app('T', self.mat(depth - 1))
        if k < 0.82:
            return self.app('Inverse', self.mat(depth - 1))
        if k < 0.86:
            return self.app('inv', self.mat(depth - 1))
        if k < 0.91:
            e = rng.choice([-2, -1, 0, 1, 2, 2, 3])
            return self.app('pow', self.mat(depth - 1), e if rng.random() < 0.7 else Integer(e))
        if k < 0.95:
            return self.app('neg', self.mat(depth - 1))
        return self.app('sub', self.mat(depth - 1), self.mat(depth - 1))

    def program(self):
        """one expression with a trace / transpose / ... of a product of >= 3 factors on top"""
        rng = self.rng
        try:
            k = rng.random()
            if k < 0.5:
                fs = self.factors(self.maxdepth, rng.choice([3, 3, 4]))
                m = self.app('mul', *fs)
            else:
                m = self.mat(self.maxdepth)
            top = rng.choice(['tr', 'tr', 'tr', 'T', 'T', 'T', 'det', 'elem', 'Inverse', 'T-tr'])
            if top == 'elem':
                self.app('elem', m, rng.randrange(self.env.dim), rng.randrange(self.env.dim))
            elif top == 'T-tr':
                self.app('tr', self.app('T', m))
            else:
                r = self.app(top, m)
                if top == 'T' and rng.random() < 0.3:
                    self.app('T', r)
                if top == 'Inverse' and rng.random() < 0.5:
                    self.app('Inverse', r)
        except Abort:
            pass
        return self.apps


def gen_apps(rng, n, maxdepth, tag):
    """yields (env, op, args, result) over n random programs"""
    envs = {}
    for _ in range(n):
        dim = rng.choice([2, 2, 3])
        nmap = rng.choice([2, 3, 3, 4])
        if (dim, nmap) not in envs:
            envs[(dim, nmap)] = MatEnv(dim, nmap, tag)
        env = envs[(dim, nmap)]
        for op, args, res in MatGen(rng, env, maxdepth).program():
            yield env, op, args, res


# --------------------------------------------------------------------------- correspondence

def correspondence(ctx, c):
    """adds the matrix-layer cases to the Corr object of C02"""
    n = 1500 if ctx.thorough else 300
    cases, seen = [], set()
    for env, op, args, res in gen_apps(ctx.rng, n, 3, 'm'):
        try:
            line = request_line(op, args)
            lit = literal_sexp(op, args)
            got = ser(res[1]) if res[0] == 'ok' else None
        except Unser:
            c.count('mat:unserialisable')
            continue
        if line in seen or sx_size(lit) > MAXSIZE:
            continue
        seen.add(line)
        cases.append((line, env, op, lit, res, got))
    outs = ctx.driver.run([x[0] for x in cases])
    for (line, env, op, lit, res, got), out in zip(cases, outs):
        c.evaluations += 1
        c.count('mat:op:' + op)
        c.count('mat:dim:%d' % env.dim)
        if res[0] == 'err':
            c.count('mat:err:' + res[1])
            if out != 'err ' + res[1]:
                if out.startswith('ok ') and res[1] in ('TypeError', 'AttributeError') and ' true)' in line:
                    # a refusal, not a value: sympy's Add / Mul choke on the un-sympified Python-int exponent that
                    # MatrixSymbolicExpr.__pow__ leaves in .args (only some of these crashes are modelled by transposeRaises)
                    c.count('mat:raw-int-exponent-refusal')
                    continue
                c.disagreements.append({'input': line, 'impl': 'raised ' + res[1], 'model': out[:300], 'note': 'matrix layer: error'})
            else:
                c.nontrivial.add(line)
            continue
        if not out.startswith('ok '):
            c.disagreements.append({'input': line, 'impl': safe_str(res[1])[:300], 'model': out[:300], 'note': 'matrix layer: model refused'})
            continue
        try:
            cm = canon(loads_all(out[3:])[0])
            ci = canon(got)
        except Exception as ex:
            c.disagreements.append({'input': line, 'impl': safe_str(res[1])[:300], 'model': out[:300], 'note': 'matrix layer: uncomparable %r' % (ex,)})
            continue
        if cm != ci:
            c.disagreements.append({'input': line, 'impl': dumps(got)[:400], 'model': out[3:403], 'note': 'matrix layer: value'})
            continue
        if ci != canon(lit):
            c.nontrivial.add(line)
            c.count('mat:rewritten:' + op)
            if sum(1 for s in c.samples if str(s.get('request', '')).startswith('C02M')) < 3:
                c.samples.append({'request': line[:300], 'impl': safe_str(res[1])[:200]})
    return c


# --------------------------------------------------------------------------- oracle

def unimodular(rng, dim):
    m = sympy.eye(dim)
    for _ in range(rng.choice([3, 4, 5])):
        i, j = rng.sample(range(dim), 2)
        k = rng.choice([-2, -1, 1, 1, 2])
        e = sympy.eye(dim)
        e[i, j] = k
        m = m * e if rng.random() < 0.5 else e * m
    if rng.random() < 0.5:
        i = rng.randrange(dim)
        d = sympy.eye(dim)
        d[i, i] = -1
        m = d * m
    return m


class Ev:
    """own evaluator: the object returned by a constructor -> concrete matrix / number"""

    def __init__(self, rng, env):
        self.m = mods()
        self.dim = env.dim
        self.J = {}
        for n in env.names:
            while True:
                u = unimodular(rng, env.dim)
                # pairwise distinct, not symmetric, not commuting with the others
                if u != u.T and all(u * v != v * u for v in self.J.values()):
                    break
            self.J[n] = u
        self.S = {'c': Rational(rng.choice([-5, -3, -2, 2, 3, 5]), rng.choice([1, 1, 3])),
                  'd': Rational(rng.choice([-7, -4, 3, 7]), rng.choice([1, 2])),
                  'x': Rational(rng.choice([-3, 2, 5]), rng.choice([1, 7]))}

    @staticmethod
    def is_mat(v):
        return isinstance(v, sympy.MatrixBase)

    def asmat(self, v):
        """the scalar 0 stands for the zero matrix (a sum that cancelled); any other number where a
        matrix is expected is ill-typed"""
        if self.is_mat(v):
            return v
        if v == 0:
            return sympy.zeros(self.dim, self.dim)
        raise TypeError('number where a matrix is expected')

    def inv(self, v):
        if self.is_mat(v):
            if v.det() == 0:
                raise Singular()
            return v.inv()
        if v == 0:
            raise Singular()
        return 1 / v

    def pw(self, b, k):
        k = int(k)
        if k < 0:
            b, k = self.inv(b), -k
        if self.is_mat(b):
            r = sympy.eye(self.dim)
            for _ in range(k):
                r = r * b
            return r
        return b ** k

    def val(self, e):
        m, M = self.m, self.m.M
        if isinstance(e, m.JacobianSymbol):
            return self.J[str(e.mapping.name)]
        if isinstance(e, m.JacobianInverseSymbol):
            return self.J[str(e.mapping.name)].inv()
        if isinstance(e, M.Transpose):
            v = self.val(e.arg)
            return v.T if self.is_mat(v) else v
        if isinstance(e, M.Inverse):
            return self.inv(self.val(e.arg))
        if isinstance(e, M.SymbolicTrace):
            return self.asmat(self.val(e.arg)).trace()
        if isinstance(e, M.SymbolicDeterminant):
            return self.asmat(self.val(e.arg)).det()
        if isinstance(e, M.MatrixElement):
            i, j = e.indices
            return self.asmat(self.val(e.base))[int(i), int(j)]
        if isinstance(e, sympy.Symbol):
            return self.S[str(e.name)]
        if isinstance(e, (int, sympy.Rational)):
            return sympy.sympify(e)
        if isinstance(e, sympy.Add):
            return self.total([self.val(a) for a in e.args])
        if isinstance(e, sympy.Mul):
            return self.product([self.val(a) for a in e.args])
        if isinstance(e, sympy.Pow):
            return self.pw(self.val(e.args[0]), e.args[1])
        raise NotImplementedError(type(e).__name__)

    def total(self, vs):
        r = vs[0]
        for v in vs[1:]:
            if self.is_mat(r) != self.is_mat(v):
                # the scalar 0 stands for the zero matrix (MatSymbolicAdd drops it)
                if not self.is_mat(r) and r == 0:
                    r = v
                    continue
                if not self.is_mat(v) and v == 0:
                    continue
                raise TypeError('sum of a matrix and a number')
            r = r + v
        return r

    def product(self, vs):
        r = S.One
        for v in vs:
            r = r * v                                   # order kept
        return r

    def literal(self, op, args):
        """value of the literal application, from the values of the arguments"""
        v = [self.val(a) for a in args[:2 if op == 'sub' else (1 if op in ('elem', 'pow') else None)]]
        if op == 'T':
            return self.asmat(v[0]).T
        if op in ('Inverse', 'inv'):
            return self.inv(self.asmat(v[0]))
        if op == 'tr':
            return self.asmat(v[0]).trace()
        if op == 'det':
            return self.asmat(v[0]).det()
        if op == 'elem':
            return self.asmat(v[0])[args[1], args[2]]
        if op == 'pow':
            return self.pw(v[0], args[1])
        if op == 'neg':
            return -v[0]
        if op == 'sub':
            return v[0] - v[1]
        if op == 'mul':
            return self.product(v)
        if op == 'add':
            return self.total(v)
        raise ValueError(op)


def same(got, truth):
    gm, tm = Ev.is_mat(got), Ev.is_mat(truth)
    if gm and tm:
        return got.shape == truth.shape and all(sympy.nsimplify(a - b) == 0 for a, b in zip(got, truth))
    if tm and not gm:
        return got == 0 and all(t == 0 for t in truth)       # the scalar 0 for the zero matrix
    if gm and not tm:
        return False
    return sympy.nsimplify(got - truth) == 0


def safe_str(e):
    """str(e); sympy's printer fails on some sums that contain a power with a Python-int exponent"""
    try:
        return str(e)
    except Exception:
        try:
            return dumps(ser(e))
        except Exception:
            return sympy.srepr(e)


def arg_str(args):
    return ' | '.join(safe_str(a) for a in args)


def check_app(o, ev, env, op, args, res, key):
    try:
        with time_limit(20):
            truth = ev.literal(op, args)
            got = ev.val(res)
            ok = same(got, truth)
    except Singular:
        o.count('mat:singular')
        return
    except (NotImplementedError, Timeout):
        o.count('mat:skipped')
        return
    except TypeError:
        o.count('mat:ill-typed')
        return
    o.count('mat:op:' + op)
    if not ok:
        o.fail(key, '%s(%s) returned %s, which does not denote the same matrix / number as the literal expression '
               '(dim %d; Jacobians bound to %s): literal %s, returned object %s' % (
                   op, arg_str(args), safe_str(res), env.dim, {k: v.tolist() for k, v in ev.J.items()},
                   truth.tolist() if Ev.is_mat(truth) else truth, got.tolist() if Ev.is_mat(got) else got),
               result=safe_str(res)[:400])


def fixed_corpus():
    """(env, op, args, key): shapes every run must cover — products of three and four factors in
    every order inside traces and transposes, nested transposes / inverses, scalar coefficients,
    repeated factors, sums"""
    M = mods().M
    out = []
    for dim in (2, 3):
        env = MatEnv(dim, 4, 'k')
        A, B, C, D = env.J
        c, d = env.consts
        x = env.x
        trA = M.SymbolicTrace(A)

        def put(op, *args):
            out.append((env, op, args, 'matcorpus:%d:%s:%s' % (dim, op, arg_str(args))))
        for p in itertools.permutations([A, B, C]):
            put('tr', p[0] * p[1] * p[2])
            put('T', p[0] * p[1] * p[2])
        for p in itertools.permutations([A, B, C, D]):
            put('tr', p[0] * p[1] * p[2] * p[3])
        for p in itertools.permutations([A.T, M.Inverse(B), C.inv()]):
            put('tr', 2 * c * p[0] * p[1] * p[2])
            put('T', 3 * p[0] * d * p[1] * p[2])
        put('tr', C.T * A * M.Inverse(B))
        put('tr', 2 * C * B.T * A)
        put('tr', A.inv().T * B * C)
        put('tr', A + B * C)
        put('tr', c * A * C * B + d * B * A * C - C * B * A)
        put('tr', trA * C * B * A)
        put('tr', x * C * A * B)
        put('tr', (C * B * A).T)
        put('tr', C * A * A * B)
        put('tr', M.Inverse(C * B * A))
        put('det', 2 * C * B * A)
        put('elem', C * B * A, 0, 1)
        put('T', (C * B * A).T)
        put('T', C.T * B * A.T)
        put('T', A * A * B)
        put('T', A * B * B * A)
        put('T', A * A.inv() * B)
        put('T', A + 2 * B * C)
        put('T', A + A)
        put('T', A - A)
        put('T', c * A * B + c * A * B)
        put('T', (A / A.det()) * B)
        put('T', A[0, 1] * C * B)
        put('T', M.Inverse(A))
        put('T', (C * B) ** 2 * A)
        put('Inverse', M.Inverse(C * B * A))
        put('Inverse', (C * B).T)
        put('inv', A)
        put('inv', A.inv())
        put('inv', C * B)
        put('mul', A, B + C, D)
        put('mul', A + B, C + D)
        put('mul', trA + M.SymbolicTrace(B), A + A)
        put('mul', C, 2, B, c, A)
        put('mul', C, trA, B, 1 / A.det(), A)
        put('mul', 2 * C, 3 * B * A)
        put('mul', x + 1, A)
        put('add', C, B, A, B)
        put('add', C * B, 0, A + D)
        put('neg', C * B + A)
        put('sub', A, B - C)
        put('pow', C * B, 2)
        put('pow', A, -1)
    return out


def oracle(ctx, factor, seeds, o):
    """adds the matrix-layer cases to the Oracle object of C02"""
    rng = ctx.rng
    evs = {}

    def evs_of(env):
        k = tuple(env.names)
        if k not in evs:
            evs[k] = [Ev(rng, env) for _ in range(2)]
        return evs[k]
    for env, op, args, key in fixed_corpus():
        try:
            res = real(op, args)
        except Exception as ex:
            o.fail(key, '%s(%s) raised %s' % (op, arg_str(args), type(ex).__name__))
            continue
        o.evaluations += 1
        for ev in evs_of(env):
            check_app(o, ev, env, op, args, res, key)
    n = (2000 if ctx.thorough else 350) * factor
    seen = set()
    for env, op, args, res in gen_apps(rng, n, 3, 'o'):
        if res[0] != 'ok':
            o.count('mat:refused:' + res[1])
            continue
        k = (op, env.dim, arg_str(args))
        if k in seen or len(k[2]) > 600:
            continue
        seen.add(k)
        o.evaluations += 1
        if op in ('tr', 'T') and sum(1 for s in o.samples if s.get('layer') == 'matrix') < 2:
            o.samples.append({'layer': 'matrix', 'op': op, 'args': [safe_str(a)[:160] for a in args], 'result': safe_str(res[1])[:200]})
        check_app(o, rng.choice(evs_of(env)), env, op, args, res[1], 'mat:%s:%d:%s' % (op, env.dim, k[2]))
    return o
