"""C02 — automatic simplification at construction never changes an expression's meaning."""
import importlib

import sympy

from harness.common import Corr, Oracle, Timeout, time_limit
from harness.exprser import Ser, ring_equal
from harness.genexpr import Env, GenericGen, ScalarGen, tree_size
from harness.inst import Inst, InstPair, same_value
from harness.rank import vector_valued_commutative_factor
from harness.sexp import dumps, loads_all

PID = 'C02'
PROPS_MODULE = ['SympdeModel.Props.C02', 'SympdeModel.Props.C02b', 'SympdeModel.Props.C02c', 'SympdeModel.Props.C02d']
EXTRA_THEOREM_MODULES = ['SympdeModel.Lemmas.Calc']
RULE = ('random well-typed generic programs (as for C01) plus interface-operator programs and derivations of products '
        'with a coordinate factor, built bottom-up with the real '
        'constructors; every constructor application (operator, already built argument trees) is one case; '
        'non-trivial = the constructor returned something else than the plain node around its arguments; distinct by '
        'serialised request')
ASSUMPTIONS = [
    'the model never swaps the arguments of Dot/Inner/Cross/Bracket; outputs are compared modulo that (anti)symmetry '
    '(the theorems are proved for both orders)',
    'classical definitions as in Sem/DenG.lean; restrictions to the two sides of an interface are ring homomorphisms, '
    'jump = minus - plus, avg = (minus + plus)/2, Dn is a derivation',
]
MAXSIZE = 40

OPS1 = {'grad': 'Grad', 'curl': 'Curl', 'rot': 'Rot', 'div': 'Div', 'laplace': 'Laplace', 'hessian': 'Hessian',
        'jump': 'Jump', 'avg': 'Avg', 'minus': 'Minus', 'plus': 'Plus', 'Dn': 'Dn'}
OPS2 = {'dot': 'Dot', 'cross': 'Cross', 'inner': 'Inner', 'outer': 'Outer', 'convect': 'Convect', 'bracket': 'Bracket'}


class Recorder:
    """proxy for sympde.calculus that records every constructor application"""

    def __init__(self):
        self.C = importlib.import_module('sympde.calculus')
        self.apps = []

    def __getattr__(self, name):
        f = getattr(self.C, name)
        if name not in OPS1 and name not in OPS2:
            return f

        def call(*args):
            try:
                r = f(*args)
            except Exception as ex:
                self.apps.append((name, args, ('err', type(ex).__name__)))
                raise
            self.apps.append((name, args, ('ok', r)))
            return r
        return call


def canon_sym(e, ser):
    """sort the arguments of Dot/Inner (symmetric) and Cross/Bracket (antisymmetric, with a sign)"""
    from sympy import Basic, default_sort_key
    if not getattr(e, 'args', None):
        return e
    if isinstance(e, sympy.MatrixBase):
        return e.applyfunc(lambda t: canon_sym(t, ser))
    m = ser.m
    if type(e) in ser.op2_rev:
        a, b = [canon_sym(x, ser) for x in e.args]
        name = ser.op2_rev[type(e)]
        if name in ('Dot', 'Inner', 'Cross', 'Bracket') and default_sort_key(a) > default_sort_key(b):
            node = Basic.__new__(type(e), b, a)
            return -node if name in ('Cross', 'Bracket') else node
        return Basic.__new__(type(e), a, b)
    if type(e) in ser.op1_rev or type(e) in ser.pd_rev:
        return type(e)(canon_sym(e.args[0], ser), evaluate=False)
    try:
        return e.func(*[canon_sym(a, ser) for a in e.args])
    except Exception:
        return e


def gen_programs(ctx, n, maxdepth):
    """yield (env, recorder) after building one random generic expression with recording constructors"""
    rng = ctx.rng
    envs = {}
    for i in range(n):
        dim = rng.choice([1, 2, 2, 3, 3])
        key = dim
        if key not in envs:
            envs[key] = Env(dim, False, tag='c2')
        env = envs[key]
        rec = Recorder()
        g = GenericGen(rng, env, maxdepth=maxdepth)
        g.C = rec
        try:
            k = rng.random()
            if k < 0.70:
                g.any()
            elif k < 0.78:
                coord_factor_program(rng, env, rec, g)
            else:
                iface_program(rng, env, rec)
        except Exception:
            pass          # a refusing constructor is recorded as such
        yield env, rec


def coord_factor_program(rng, env, rec, g):
    """a differential operator applied to a PRODUCT holding a coordinate-dependent, function-free factor (x, y**2,
    sin(x), x*y, ...) next to fields, coefficients, or alone: such a factor is a plain sympy expression without any
    field, but it is not a constant — its own derivative term must survive (seeded change C02-9 pulled every
    field-free factor out of the Poisson bracket as a coefficient)"""
    sg = ScalarGen(rng, env, maxdepth=1, allow_fn_of_function=0, var_exp=0)

    def fieldfree():
        q = rng.random()
        if q < 0.5:
            return rng.choice(env.coords)
        if q < 0.8:
            return sg.coordexpr(1)
        return g.compound()

    def prod():
        q = rng.random()
        fs = [fieldfree()]
        if q < 0.2:
            fs.append(fieldfree())                  # field-free factors only: x*y, x*sin(y)
        else:
            fs += [rng.choice(env.sf) for _ in range(rng.choice([1, 1, 2]))]
            if rng.random() < 0.3:
                fs.append(fieldfree())
        if rng.random() < 0.4:
            fs.append(sg.coef())
        if rng.random() < 0.2:
            fs.append(sg.coef())
        return sympy.Mul(*fs)

    def other():
        q = rng.random()
        if q < 0.45:
            return rng.choice(env.sf)
        if q < 0.6:
            return rng.choice(env.sf) * rng.choice(env.sf)
        if q < 0.7:
            return rng.choice(env.coords)
        if q < 0.85:
            return prod()
        return prod() + rng.choice(env.sf)

    a = prod() if rng.random() < 0.8 else prod() + sg.coef() * rng.choice(env.sf)
    if env.dim == 2 and rng.random() < 0.7:
        b = other()
        if rng.random() < 0.5:
            a, b = b, a
        rec.bracket(a, b)
        return
    op = rng.choice(['grad', 'laplace', 'grad', 'div', 'convect'] + (['rot'] if env.dim == 2 else []))
    if op == 'div':
        rec.div(a * rng.choice(env.vf))
    elif op == 'convect':
        rec.convect(rng.choice(env.vf), a * rng.choice(env.vf))
    else:
        getattr(rec, op)(a)


def iface_program(rng, env, rec):
    """interface operators on sums / products of scalar functions with coefficients"""
    sg = ScalarGen(rng, env, maxdepth=2, allow_fn_of_function=0, var_exp=0)

    def cprod():
        # a product made ONLY of coefficient factors (numbers, Constants): its restriction to a side is itself, its
        # jump / normal derivative vanish (seeded change C02-10 returned 0 for minus / plus as well).  pi (a
        # NumberSymbol, also in _coeffs_registery) only occurs in the fixed corpus of the oracle: the serialiser hands
        # it to the Lean model as an opaque atom, not as a coefficient
        fs = [sg.coef() for _ in range(rng.choice([2, 2, 3]))]
        r = sympy.Mul(*fs)
        return r if isinstance(r, sympy.Mul) else 2 * rng.choice(env.cst)

    def arg(depth=0):
        k = rng.random()
        if depth >= 2 or k < 0.3:
            if depth > 0 and rng.random() < 0.12:
                return cprod() if rng.random() < 0.7 else rng.choice(env.coords) * sg.coef()
            return rng.choice(env.sf)
        if k < 0.5:
            return arg(depth + 1) + arg(depth + 1)
        if k < 0.58:
            # an integer power (f*f is stored as f**2, so a product rule never sees it; seeded change C02-8)
            return arg(depth + 1) ** rng.choice([2, 3, 3, 4])
        if k < 0.85:
            fs = [arg(depth + 1) for _ in range(rng.choice([2, 2, 3]))]
            if rng.random() < 0.5:
                fs.append(sg.coef())
            return sympy.Mul(*fs)
        return sg.coef() * arg(depth + 1)
    op = rng.choice(['jump', 'avg', 'minus', 'plus', 'Dn'])
    q = rng.random()
    if q < 0.06:
        a = cprod()                                  # the whole argument is a product of coefficients
    elif q < 0.16:
        a = arg(1) + cprod()                         # ... or has one as a summand
    else:
        a = arg()
    e = getattr(rec, op)(a)
    if rng.random() < 0.4:
        getattr(rec, rng.choice(['jump', 'avg', 'minus', 'plus']))(e * rng.choice(env.sf))


def request_line(env, name, args, ser):
    if name in OPS1:
        return 'C02 mk1 %d %s %s' % (env.dim, OPS1[name], dumps(ser.ser(args[0])))
    return 'C02 mk2 %d %s %s %s' % (env.dim, OPS2[name], dumps(ser.ser(args[0])), dumps(ser.ser(args[1])))


def plain_node(name, args, res, ser):
    cls = ser.op1.get(OPS1.get(name)) or ser.op2.get(OPS2.get(name))
    return type(res) is cls and tuple(res.args) == tuple(args)


def correspondence(ctx):
    c = Corr()
    ser = Ser()
    n = 900 if ctx.thorough else 130
    cases, seen = [], set()
    for env, rec in gen_programs(ctx, n, 4 if ctx.thorough else 3):
        for name, args, res in rec.apps:
            if any(tree_size(a) > MAXSIZE for a in args if hasattr(a, 'args')):
                continue
            try:
                line = request_line(env, name, args, ser)
            except Exception:
                c.count('unserialisable')
                continue
            if line in seen:
                continue
            seen.add(line)
            cases.append((line, env, name, args, res))
    outs = ctx.driver.run([x[0] for x in cases])
    for (line, env, name, args, impl), out in zip(cases, outs):
        c.evaluations += 1
        c.count('op:' + name)
        c.count('dim:%d' % env.dim)
        if impl[0] == 'err':
            c.count('err:' + impl[1])
            if impl[1] == 'RecursionError' and out == 'err Exception':
                c.nontrivial.add(line)
            elif out != 'err ' + impl[1]:
                c.disagreements.append({'input': line, 'impl': 'raised ' + impl[1], 'model': out[:300], 'note': 'error'})
            else:
                c.nontrivial.add(line)
            continue
        if not out.startswith('ok '):
            c.disagreements.append({'input': line, 'impl': str(impl[1])[:300], 'model': out[:300], 'note': 'model refused'})
            continue
        try:
            mres = ser.build(loads_all(out[3:])[0])
        except Exception as ex:
            c.disagreements.append({'input': line, 'impl': str(impl[1])[:300], 'model': out[:300], 'note': 'unbuildable: %r' % (ex,)})
            continue
        try:
            with time_limit(20):
                eq = ring_equal(canon_sym(sympy.sympify(mres), ser), canon_sym(sympy.sympify(impl[1]), ser))
        except Timeout:
            c.count('compare-timeout')
            continue
        if not eq:
            c.disagreements.append({'input': line, 'impl': str(impl[1])[:400], 'model': str(mres)[:400], 'note': 'value'})
            continue
        if not plain_node(name, args, impl[1], ser):
            c.nontrivial.add(line)
            if len(c.samples) < 6:
                c.samples.append({'request': line[:300], 'impl': str(impl[1])[:200]})
    importlib.import_module('harness.props.c02mat').correspondence(ctx, c)      # symbolic matrix layer (calculus/matrices.py)
    return c


def fixed_corpus():
    """witnesses of the repaired defects"""
    C = importlib.import_module('sympde.calculus')
    from sympde.core import Constant
    e2 = Env(2, False, tag='k2')
    f, g, h = e2.sf
    F, G, H = e2.vf
    c = Constant('c')
    from sympde.topology import ScalarFunctionSpace, element_of
    gl = element_of(ScalarFunctionSpace('VLk2', e2.domain, kind='l2'), name='glk2')
    x, y = e2.coords
    k = Constant('k')
    pi = sympy.pi
    return [
        # a coordinate-dependent, field-free factor inside a product under the Poisson bracket: not a coefficient, its
        # own bracket term must survive (seeded change C02-9 pulled every field-free factor out)
        (e2, 'bracket', (x * f, g), 'corpus:bracket(x*f,g)'),
        (e2, 'bracket', (f, y ** 2 * g), 'corpus:bracket(f,y**2*g)'),
        (e2, 'bracket', (x * y, g), 'corpus:bracket(x*y,g)'),
        (e2, 'bracket', (g, x * y), 'corpus:bracket(g,x*y)'),
        (e2, 'bracket', (3 * c * x * y * f, g * h), 'corpus:bracket(3*c*x*y*f,g*h)'),
        (e2, 'bracket', (sympy.sin(x) * f, y * g), 'corpus:bracket(sin(x)*f,y*g)'),
        (e2, 'bracket', (x * f + 2 * g, h), 'corpus:bracket(x*f+2*g,h)'),
        (e2, 'bracket', (x * f, y), 'corpus:bracket(x*f,y)'),
        (e2, 'bracket', ((x + c) * f, g), 'corpus:bracket((x+c)*f,g)'),
        (e2, 'bracket', (2 * x, g), 'corpus:bracket(2*x,g)'),
        (e2, 'bracket', (x, g), 'corpus:bracket(x,g)'),
        (e2, 'bracket', (c * f, k * g), 'corpus:bracket(c*f,k*g)'),
        # the same shape under the other derivations
        (e2, 'grad', (x * f,), 'corpus:grad(x*f)'),
        (e2, 'grad', (2 * x * y,), 'corpus:grad(2*x*y)'),
        (e2, 'laplace', (x * f,), 'corpus:laplace(x*f)'),
        (e2, 'laplace', (c * x * y * f,), 'corpus:laplace(c*x*y*f)'),
        (e2, 'div', (x * F,), 'corpus:div(x*F)'),
        (e2, 'div', (2 * x * y * f * F,), 'corpus:div(2*x*y*f*F)'),
        (e2, 'rot', (y * f,), 'corpus:rot(y*f)'),
        (e2, 'convect', (F, x * G), 'corpus:convect(F,x*G)'),
        (e2, 'Dn', (x * f,), 'corpus:Dn(x*f)'),
        (e2, 'jump', (x * f,), 'corpus:jump(x*f)'),
        # a product made of coefficient factors only (numbers, pi, Constants), alone or as a summand, under the
        # interface operators: restrictions and the average keep it, jump and Dn annihilate it (seeded change C02-10
        # returned 0 for minus / plus too)
        (e2, 'minus', (2 * c,), 'corpus:minus(2*c)'),
        (e2, 'plus', (2 * c,), 'corpus:plus(2*c)'),
        (e2, 'minus', (c * k,), 'corpus:minus(c*k)'),
        (e2, 'plus', (c * k * pi / 2,), 'corpus:plus(c*k*pi/2)'),
        (e2, 'minus', (f + 2 * c,), 'corpus:minus(f+2*c)'),
        (e2, 'plus', (f * g - c * k + 3 * g,), 'corpus:plus(f*g-c*k+3*g)'),
        (e2, 'minus', (c * f + 3 * pi * k,), 'corpus:minus(c*f+3*pi*k)'),
        (e2, 'avg', (2 * c,), 'corpus:avg(2*c)'),
        (e2, 'avg', (f + c * k,), 'corpus:avg(f+c*k)'),
        (e2, 'jump', (f + 2 * c,), 'corpus:jump(f+2*c)'),
        (e2, 'Dn', (f + 2 * c,), 'corpus:Dn(f+2*c)'),
        (e2, 'minus', (c,), 'corpus:minus(c)'),
        (e2, 'plus', (f + c,), 'corpus:plus(f+c)'),
        (e2, 'minus', (2 * x,), 'corpus:minus(2*x)'),
        (e2, 'plus', (c * x * f + 2 * k,), 'corpus:plus(c*x*f+2*k)'),
        (e2, 'div', (2 * gl * F,), 'corpus:div(2*g*F) g in L2'),
        # the SAME scalar factor in both arguments of a bilinear operator (seeded change C02-5 counted it once)
        (e2, 'inner', (2 * F, 2 * G), 'corpus:inner(2*F,2*G)'),
        (e2, 'inner', (c * F, c * G), 'corpus:inner(c*F,c*G)'),
        (e2, 'inner', (f * C.grad(F), f * C.grad(G)), 'corpus:inner(f*grad F,f*grad G)'),
        (e2, 'dot', (3 * c * f * F, 3 * c * f * G), 'corpus:dot(3cf*F,3cf*G)'),
        (e2, 'cross', (f * F, f * G), 'corpus:cross(f*F,f*G)'),
        (e2, 'outer', (g * F, g * G), 'corpus:outer(g*F,g*G)'),
        # numeric and Constant factor together inside a restriction (seeded change C07-6 lost the number)
        (e2, 'minus', (-c * C.Dn(f),), 'corpus:minus(-c*Dn(f))'),
        (e2, 'plus', (2 * c * g,), 'corpus:plus(2*c*g)'),
        (e2, 'minus', (sympy.Rational(1, 2) * c * f * g,), 'corpus:minus(c*f*g/2)'),
        (e2, 'jump', (2 * c,), 'corpus:jump(2*c)'),
        (e2, 'Dn', (c * Constant('c2'),), 'corpus:Dn(c*c2)'),
        (e2, 'convect', (F, f * G), 'corpus:convect(F,f*G)'),
        (e2, 'convect', (2 * g * F, 3 * c * e2.coords[0] * G + f * H), 'corpus:convect(2*g*F,3*c*x*G+f*H)'),
        (e2, 'div', (2 * f * F,), 'corpus:div(2*f*F)'),
        (e2, 'div', (c * f * F,), 'corpus:div(c*f*F)'),
        (e2, 'grad', (f ** g,), 'corpus:grad(f**g)'),
        (e2, 'minus', (f * g,), 'corpus:minus(f*g)'),
        (e2, 'plus', (2 * f * g * h,), 'corpus:plus(2*f*g*h)'),
        (e2, 'jump', (f * g,), 'corpus:jump(f*g)'),
        (e2, 'avg', (f * g,), 'corpus:avg(f*g)'),
        (e2, 'jump', (c * f * g * h,), 'corpus:jump(c*f*g*h)'),
        # a factored sum in one slot and a scalar factor in the other (seeded change C08-8 distributed over the sum
        # and lost the other argument's scalar factor)
        (e2, 'dot', (f * (F + G), g * H), 'corpus:dot(f*(F+G),g*H)'),
        (e2, 'dot', (g * H, f * (F + G)), 'corpus:dot(g*H,f*(F+G))'),
        (e2, 'dot', (c * (C.grad(f) + f * F), f * G), 'corpus:dot(c*(grad f+f*F),f*G)'),
        (e2, 'inner', (f * (F + G), g * H), 'corpus:inner(f*(F+G),g*H)'),
        (e2, 'cross', (f * (F + G), g * H), 'corpus:cross(f*(F+G),g*H)'),
        (e2, 'dot', (f * (F + G), g * (H + F)), 'corpus:dot(f*(F+G),g*(H+F))'),
        # integer powers under the interface operators (seeded change C02-8: [f**n] = n{f}**(n-1)[f] holds for n = 2 only)
        (e2, 'jump', (f ** 3,), 'corpus:jump(f**3)'),
        (e2, 'jump', (c * f ** 3 + g,), 'corpus:jump(c*f**3+g)'),
        (e2, 'jump', (f ** 4 * g,), 'corpus:jump(f**4*g)'),
        (e2, 'jump', (f ** 2,), 'corpus:jump(f**2)'),
        (e2, 'avg', (f ** 3,), 'corpus:avg(f**3)'),
        (e2, 'avg', (g * f ** 2,), 'corpus:avg(g*f**2)'),
        (e2, 'minus', (f ** 3 * g,), 'corpus:minus(f**3*g)'),
        (e2, 'plus', (2 * f ** 2,), 'corpus:plus(2*f**2)'),
        (e2, 'Dn', (f ** 3,), 'corpus:Dn(f**3)'),
        (e2, 'grad', (h * C.dot(C.grad(G), C.grad(h)),), 'corpus:grad(h*dot(grad G,grad h))'),
        (e2, 'laplace', (f * F,), 'corpus:laplace(f*F)'),
        # shapes added after seeded change C02-1 (constant base, non constant exponent)
        (e2, 'grad', (c ** f,), 'corpus:grad(c**f)'),
        (e2, 'grad', (g * 2 ** f,), 'corpus:grad(g*2**f)'),
        (e2, 'div', (2 ** f * F,), 'corpus:div(2**f*F)'),
    ]


IFACE = ('jump', 'avg', 'minus', 'plus', 'Dn')


def check_app(o, rng, env, name, args, res, key):
    """inst(result) must equal the classical operator applied to inst(arguments)"""
    C = importlib.import_module('sympde.calculus')
    from sympy import Basic
    ser_names = {**OPS1, **OPS2}
    if name in IFACE:
        ins = InstPair(rng, env.dim, env.coords)
        cc = ins.cc
        cls = {'jump': cc.Jump, 'avg': cc.Average, 'minus': cc.MinusInterfaceOperator, 'plus': cc.PlusInterfaceOperator,
               'Dn': cc.NormalDerivative}[name]
        literal = cls(args[0], evaluate=False)
        try:
            with time_limit(20):
                truth = ins.inst(literal)
                got = ins.inst(res)
                ok = all(same_value(got[k], truth[k], env.coords, rng) is not False for k in (0, 1))
        except (NotImplementedError, Timeout):
            o.count('skipped')
            return
        o.count('iface:' + name)
    else:
        varexp = any((not p.exp.is_number) for a in args if hasattr(a, 'atoms') for p in a.atoms(sympy.Pow))
        ins = Inst(rng, env.dim, env.coords, positive=varexp)
        fn = {'grad': ins.grad, 'curl': ins.curl, 'rot': ins.rot, 'div': ins.div, 'laplace': ins.laplace,
              'hessian': ins.hessian, 'dot': ins.dot, 'cross': ins.cross, 'inner': ins.inner, 'outer': ins.outer,
              'convect': ins.convect, 'bracket': ins.bracket}[name]
        try:
            with time_limit(20):
                vals = [ins.inst(a) for a in args]
                truth = fn(*vals)
        except (NotImplementedError, Timeout):
            o.count('skipped')
            return
        except Exception as ex:
            o.count('ill-typed-input:' + type(ex).__name__)
            return
        try:
            with time_limit(20):
                got = ins.inst(res)
                if isinstance(truth, sympy.MatrixBase) and not isinstance(got, sympy.MatrixBase) and got == 0:
                    got = sympy.zeros(*truth.shape)      # the zero short-cut returns the scalar 0 for any shape
                if env.dim == 1:
                    truth = truth[0] if isinstance(truth, sympy.MatrixBase) and truth.shape == (1, 1) else truth
                    got = got[0] if isinstance(got, sympy.MatrixBase) and got.shape == (1, 1) else got
                ok = same_value(got, truth, env.coords, rng, numeric=varexp)
        except (NotImplementedError, Timeout):
            o.count('skipped')
            return
        except Exception as ex:
            # a well-typed call returned something that cannot even be read as a field
            k2 = key
            if k2 is None and any(vector_valued_commutative_factor(a, env.dim) for a in args):
                k2 = 'corpus:grad(h*dot(grad G,grad h))'
            o.fail(k2 or ('illtyped:%s:%d:%s' % (name, env.dim, ' | '.join(str(a) for a in args))),
                   '%s(%s) returned %s, which is not a well-formed field (%s)' % (name, ', '.join(str(a) for a in args), res, type(ex).__name__))
            return
        o.count('op:' + name)
    if ok is None:
        o.count('undecided')
    elif ok is False:
        if key is None and name not in IFACE and any(vector_valued_commutative_factor(a, env.dim) for a in args):
            key = 'corpus:grad(h*dot(grad G,grad h))'    # explained by the open finding C02-vector-commutative-factor
        o.fail(key or ('%s:%d:%s' % (name, env.dim, ' | '.join(str(a) for a in args))),
               '%s(%s) returned %s, which does not denote the same field as the literal expression (dim %d)' % (
                   name, ', '.join(str(a) for a in args), res, env.dim), result=str(res)[:400])


def oracle(ctx, factor, seeds):
    o = Oracle()
    rng = ctx.rng
    C = importlib.import_module('sympde.calculus')
    n = (500 if ctx.thorough else 80) * factor
    for env, name, args, key in fixed_corpus():
        try:
            res = getattr(C, name)(*args)
        except Exception as ex:
            o.fail(key, '%s raised %s' % (key, type(ex).__name__))
            continue
        o.evaluations += 1
        check_app(o, rng, env, name, args, res, key)
    seen = set()
    for env, rec in gen_programs(ctx, n, 3):
        for name, args, res in rec.apps:
            if res[0] != 'ok':
                continue
            k = (name, env.dim) + tuple(str(a) for a in args)
            if k in seen or any(tree_size(a) > MAXSIZE for a in args if hasattr(a, 'args')):
                continue
            seen.add(k)
            o.evaluations += 1
            if len(o.samples) < 4 and not isinstance(res[1], (int,)) and name in ('div', 'grad', 'laplace', 'dot'):
                o.samples.append({'op': name, 'args': [str(a)[:120] for a in args], 'result': str(res[1])[:200]})
            check_app(o, rng, env, name, args, res[1], None)
    importlib.import_module('harness.props.c02mat').oracle(ctx, factor, seeds, o)  # symbolic matrix layer, concrete matrices
    return o


def replay(ctx, path):
    import sys
    from harness.common import generic_replay
    return generic_replay(sys.modules[__name__], ctx, path)
