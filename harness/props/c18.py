"""C18 — essential boundary conditions: correspondence with Model/BC.lean and independent oracle
(direct comparison of equation.bc with the declared conditions) on the real code."""
import json

from harness.common import Corr, Oracle
from harness.sexp import A, dumps

PID = 'C18'
PROPS_MODULE = 'SympdeModel.Props.C18'
RULE = ('random systems on Line/Square/Cube with 1..4 unknowns (scalar or vector, space kinds h1/hcurl/hdiv/l2/'
        'undefined), lists of 0..5 conditions, each with one of the admitted left-hand sides u, u[i], u.n (both '
        'argument orders), grad(u).n, the normal vector being a NormalVector of varying name (nn, n, normal, nu, N, n_Gamma), '
        'on a union of 1..6 faces, with numeric/symbolic right-hand sides and sometimes '
        'preset position / index_component; a malformed stream (conditions on non-trial functions, 2*u, u+v, grad(u), '
        'Dn(u), traces, two normals, indexed with normal, non-condition objects, wrong container types, lhs/rhs of '
        'the wrong form class, non-function trials/tests); multi-step histories (one pool of EssentialBC objects, the first on a '
        'single face, used for 2-3 equations with permuted / extended trial lists, then repositioned by the caller); rebuilt models '
        '(the same recipe of names built 2-3 times in one process from re-created domain / spaces / functions / conditions) and '
        'conditions written with a re-created, equal element of the unknown\'s space.  One case = one EssentialBC(...) or Equation(...) call; '
        'non-trivial = a union is expanded, a position > 0 is assigned or a refusal is raised; distinct by request line')
ASSUMPTIONS = [
    'sympy equality of functions (class and name) is what `variable in trials` / `trials.index` use; the '
    'generator keeps names unique inside a system; equal-but-distinct function objects are sampled on purpose '
    '(conditions written with a re-created element of the same space, whole models rebuilt in one process, where '
    'sympy\'s cache hands back the earlier equal object inside Dot / Grad): such a condition constrains the trial '
    'function of that name, and `variable` is compared up to (class, name, space name, domain name)',
    'condition objects are mutable (set_position): the oracle runs multi-step histories in which the same EssentialBC '
    'objects are used for several equations and then repositioned by the caller, and re-reads every earlier equation',
    'Dot orders its arguments by their string representation: the model compares Dot nodes up to exchanging the '
    'arguments (asserted by the correspondence on both argument orders)',
    'constraint= is not modelled (always None); NewtonIteration is not modelled',
]
MIN_NONTRIVIAL = 40

KINDS = ['h1', 'h1', 'h1', 'undefined', 'hdiv', 'hcurl', 'l2']
# names the caller may give to the normal vector of a condition u.n / grad(u).n: the statement admits these shapes
# whatever the NormalVector object is called ('nn' is the name sympde's own tests use, 'n' the one its calculus
# and printers use); added after the seeded change C18-10, which hard-wired the name 'nn'
NORMAL_NAMES = ['nn', 'nn', 'nn', 'n', 'n', 'normal', 'nu', 'N', 'n_Gamma']
NORMAL_SHAPES = ('u.n', 'n.u', 'dn')


def mods():
    from sympy import Tuple, Integer, Symbol, sin, sympify
    from sympde.topology import (Line, Square, Cube, ScalarFunctionSpace, VectorFunctionSpace, NormalVector, Union,
                                 Boundary)
    from sympde.topology.space import (ScalarFunction, VectorFunction, IndexedVectorFunction, Trace, trace_0, trace_1)
    from sympde.calculus import grad, dot, Dn, div, laplace
    from sympde.calculus.core import Dot, Grad
    from sympde.expr.equation import EssentialBC, Equation, find, BasicBoundaryCondition
    from sympde.expr import BilinearForm, LinearForm, integral
    return locals()


# --------------------------------------------------------------------------- serialisation

def ser_fn(f, m):
    if isinstance(f, m['ScalarFunction']):
        return [A('sf'), str(f.name)]
    return [A('vf'), str(f.name), int(f.space.ldim)]


def ser_lhs(e, m):
    if isinstance(e, (m['ScalarFunction'], m['VectorFunction'])):
        return ser_fn(e, m)
    if isinstance(e, m['IndexedVectorFunction']):
        idx = e.indices
        if len(idx) == 1 and getattr(idx[0], 'is_Integer', False) and int(idx[0]) >= 0:
            return [A('idx'), ser_fn(e.base, m), int(idx[0])]
    if isinstance(e, m['NormalVector']):
        return [A('normal'), str(e.name)]
    if isinstance(e, m['Dot']):
        return [A('dot'), ser_lhs(e.args[0], m), ser_lhs(e.args[1], m)]
    if isinstance(e, m['Grad']):
        return [A('grad'), ser_lhs(e.args[0], m)]
    if isinstance(e, m['Trace']):
        return [A('trace'), ser_lhs(e.args[0], m)]
    args = [a for a in getattr(e, 'args', ())]
    tag = type(e).__name__ if args else '%s(%s)' % (type(e).__name__, e)
    return [A('other'), tag] + [ser_lhs(a, m) for a in args]


def face_id(b):
    return str(b)


def ser_bnd(b, m):
    if isinstance(b, m['Union']):
        return [A('union')] + [face_id(j) for j in b._args]
    return [A('face'), face_id(b)]


def ser_opt(x):
    return A('None') if x is None else x


def ser_ic(ic):
    return A('None') if ic is None else [int(i) for i in ic]


def ser_cond(c, m):
    """the observed attributes of an EssentialBC, in the model's response format"""
    return [int(c.order), ser_fn(c.variable, m), ser_ic(c.index_component), bool(c.normal_component),
            ser_opt(c.position), ser_bnd(c.boundary, m), str(c.rhs)]


def ser_bc_args(lhs, rhs, bnd, pos, ic, m):
    return [A('bc'), ser_lhs(lhs, m), str(rhs), ser_bnd(bnd, m), ser_opt(pos), ser_ic(ic)]


def err_of(e):
    return 'err ' + type(e).__name__


# --------------------------------------------------------------------------- generators

class System:
    """a domain, unknowns, test functions, extra (non-trial) functions and the two forms"""
    count = 0

    def __init__(self, rng, m, forms=True, recipe=None):
        self.m = m
        if recipe is None:
            # the recipe (names and kinds only) is all that is drawn: `rebuild` re-creates the same model
            # from NEW objects (domain, spaces, functions) that are equal to the old ones
            System.count += 1
            k = System.count
            r = rng.random()
            n = rng.choice([1, 1, 2, 2, 3, 4])
            names = rng.sample(['u', 'p', 'w', 'E', 'B', 'phi', 'sigma', 'q', 'z'], n + 2)
            tnames = rng.sample(['v', 'r', 't', 'F', 'G', 'psi', 'tau', 's', 'y'], n + 2)
            recipe = dict(dom='Cube' if r < 0.5 else ('Square' if r < 0.9 else 'Line'), domname='Om%d' % k, n=n, fns=[])
            for i in range(n + 2):
                vec = rng.random() < 0.5
                kind = rng.choice(KINDS)
                recipe['fns'].append(dict(vec=vec, kind=kind, space='V%d_%d' % (k, i), u=names[i], v=tnames[i]))
        self.recipe = recipe
        self.domain = m[recipe['dom']](recipe['domname'])
        self.dim = self.domain.dim
        b = self.domain.boundary
        self.faces = list(b.args) if isinstance(b, m['Union']) else [b]
        n = recipe['n']
        self.trials, self.tests, self.kinds = [], [], []
        self.extra = []
        for i, f in enumerate(recipe['fns']):
            vec = f['vec'] and self.dim > 1
            kind = f['kind']
            cls = m['VectorFunctionSpace'] if vec else m['ScalarFunctionSpace']
            V = cls(f['space'], self.domain, kind=kind)
            u, v = V.element(f['u']), V.element(f['v'])
            if i < n:
                self.trials.append(u)
                self.tests.append(v)
                self.kinds.append(kind)
            else:
                self.extra.append((u, kind))
        self.kind_of = {id(u): kd for u, kd in zip(self.trials, self.kinds)}
        self.kind_of.update({id(u): kd for u, kd in self.extra})
        self.nn = m['NormalVector']('nn')
        self.a = self.l = None
        if forms:
            dot, integral = m['dot'], m['integral']
            expr = 0
            rexpr = 0
            for u, v in zip(self.trials, self.tests):
                expr = expr + (dot(u, v) if isinstance(u, m['VectorFunction']) else u * v)
                rexpr = rexpr + (v[0] if isinstance(v, m['VectorFunction']) else v)
            self.lhs_expr, self.rhs_expr = integral(self.domain, expr), integral(self.domain, rexpr)
            self.a = m['BilinearForm']((tuple(self.trials), tuple(self.tests)), self.lhs_expr)
            self.l = m['LinearForm'](tuple(self.tests), self.rhs_expr)

    def rebuild(self):
        """the same model built AGAIN, as a script looping over variants does: new domain, new spaces, new
        functions (all with the same names, hence equal to the old objects but other Python objects)"""
        return System(None, self.m, forms=self.a is not None, recipe=self.recipe)

    def all_fns(self):
        return self.trials + [e[0] for e in self.extra]

    def transfer(self, d, S0):
        """the declaration d of the system S0 (same recipe) written with THIS system's objects"""
        d2 = dict(d)
        d2['fn'] = self.all_fns()[[i for i, w in enumerate(S0.all_fns()) if w is d['fn']][0]]
        d2['faces'] = [self.faces[S0.faces.index(f)] for f in d['faces']]
        return d2

    def is_vec(self, u):
        return isinstance(u, self.m['VectorFunction'])

    def shapes_for(self, u):
        """admitted shapes that can be *written* for u (grad(u) can only be built for h1/undefined)"""
        s = ['u']
        if self.is_vec(u):
            s += ['u[i]', 'u.n', 'n.u']
        if self.kind_of[id(u)] in ('h1', 'undefined'):
            s += ['dn', 'dn']
        return s

    def build_lhs(self, shape, u, comp, nname=None):
        m = self.m
        if shape == 'u':
            return u
        if shape == 'u[i]':
            return u[comp]
        nn = self.nn if nname in (None, 'nn') else m['NormalVector'](nname)
        if shape == 'u.n':
            return m['dot'](u, nn)
        if shape == 'n.u':
            return m['dot'](nn, u)
        if shape == 'dn':
            return m['dot'](m['grad'](u), nn)
        raise ValueError(shape)

    def expected(self, shape, u, comp, ic0):
        """(order, index_component, normal_component) by the statement of the property"""
        if shape == 'u':
            return (0, list(range(self.dim)) if self.is_vec(u) else ic0, False)
        if shape == 'u[i]':
            return (0, [comp], False)
        if shape in ('u.n', 'n.u'):
            return (0, ic0, True)
        return (1, ic0, self.is_vec(u))

    def rand_faces(self, rng):
        k = rng.choice([1, 1, 2, 2, 3, 4, 5, 6])
        k = min(k, len(self.faces))
        return rng.sample(self.faces, k)

    def rand_rhs(self, rng):
        m = self.m
        x = self.domain.coordinates
        x = x[0] if isinstance(x, (tuple, list, m['Tuple'])) else x
        return rng.choice([0, 0, 1, m['Integer'](2), x, m['sin'](x), x ** 2 + 1])

    def rand_decl(self, rng, pool=None):
        """a declared condition: dict(shape, fn, comp, faces, rhs, pos0, ic0)"""
        u = rng.choice(pool or self.trials)
        shape = rng.choice(self.shapes_for(u))
        comp = rng.randrange(self.dim) if shape == 'u[i]' else None
        pos0 = rng.choice([None] * 8 + [0, 7])
        ic0 = rng.choice([None] * 8 + [[0], [1]])
        # sometimes the caller writes the condition with a RE-CREATED element of the same space (same name:
        # equal to the trial function, but another Python object), as element_of(V, 'u') called twice does
        twin = rng.random() < 0.12
        # the name of the normal vector the condition is written with (only used by u.n, n.u, grad(u).n)
        nname = rng.choice(NORMAL_NAMES)
        return dict(shape=shape, fn=u, comp=comp, faces=self.rand_faces(rng), rhs=self.rand_rhs(rng), pos0=pos0, ic0=ic0,
                    twin=twin, nname=nname)

    def lhs_of(self, d):
        """the left-hand side of a declaration, written with the declared function itself or (twin) with a
        re-created equal element of its space"""
        u = d['fn']
        if d.get('twin'):
            u = u.space.element(u.name)
        return self.build_lhs(d['shape'], u, d['comp'], d.get('nname'))

    def make(self, d):
        """a fresh EssentialBC for a declaration"""
        m = self.m
        lhs = self.lhs_of(d)
        bnd = m['Union'](*d['faces'])
        kw = {}
        if d['pos0'] is not None:
            kw['position'] = d['pos0']
        if d['ic0'] is not None:
            kw['index_component'] = d['ic0']
        return m['EssentialBC'](lhs, d['rhs'], bnd, **kw), lhs, bnd

    def malformed_lhs(self, rng):
        """(label, thunk building a left-hand side that is not of an admitted shape)"""
        m = self.m
        u = rng.choice(self.trials + [e[0] for e in self.extra])
        others = [w for w in self.trials + [e[0] for e in self.extra] if w is not u]
        w = rng.choice(others)
        nn, mm = self.nn, m['NormalVector']('mm')
        face = self.faces[0]
        opts = [('2*u', lambda: 2 * u), ('-u', lambda: -u), ('u+1', lambda: u + 1), ('u+w', lambda: u + w),
                ('Dn(u)', lambda: m['Dn'](u)), ('trace_0(u)', lambda: m['trace_0'](u, face)),
                ('trace_1(u)', lambda: m['trace_1'](u, face)), ('nn', lambda: nn)]
        if not self.is_vec(u):
            opts += [('u*w' if not self.is_vec(w) else 'u*w[0]', lambda: u * (w if not self.is_vec(w) else w[0])),
                     ('u*nn', lambda: u * nn), ('u**2', lambda: u ** 2)]
        else:
            opts += [('u[0]*nn', lambda: u[0] * nn), ('u[0]+u[1]', lambda: u[0] + u[self.dim - 1] if self.dim > 1 else u[0] + 1),
                     ('2*u.n', lambda: 2 * m['dot'](u, nn)), ('u.n+u.m', lambda: m['dot'](u, nn) + m['dot'](u, mm)),
                     ('div(u)', lambda: m['div'](u)), ('u.w', lambda: m['dot'](u, w) if self.is_vec(w) else m['dot'](u, nn) * w),
                     ('u[0].n', lambda: m['dot'](u[0] * nn, nn))]
        if self.kind_of[id(u)] in ('h1', 'undefined'):
            opts += [('grad(u)', lambda: m['grad'](u)), ('2*dn', lambda: 2 * m['dot'](m['grad'](u), nn))]
            if self.is_vec(u):
                opts += [('grad(u[0]).n', lambda: m['dot'](m['grad'](u[0]), nn))]
            # the normal derivative of something that is NOT the unknown itself (added after seeded change
            # C18-4, which classified by the mere presence of a Grad next to the normal)
            if self.is_vec(u):
                opts += [('grad(div(u)).n', lambda: m['dot'](m['grad'](m['div'](u)), nn))]
            else:
                if self.kind_of[id(u)] == 'undefined':
                    opts += [('grad(laplace(u)).n', lambda: m['dot'](m['grad'](m['laplace'](u)), nn))]
                opts += [('grad(grad(u)).n', lambda: m['dot'](m['grad'](m['grad'](u)), nn)),
                         ('grad(u*u).n', lambda: m['dot'](m['grad'](u * u), nn))]
        return rng.choice(opts)


def observe_cond(c, m):
    return dumps(ser_cond(c, m))


# --------------------------------------------------------------------------- correspondence

def correspondence(ctx):
    m = mods()
    c = Corr()
    rng = ctx.rng
    nsys = 700 if ctx.thorough else 110
    per = 14 if ctx.thorough else 10
    cases = []    # (kind, line, impl, info)
    E = m['EssentialBC']
    for _ in range(nsys):
        S = System(rng, m)
        pool_all = S.trials + [e[0] for e in S.extra]
        # --- classification of single conditions (admitted + malformed)
        for _ in range(per):
            if rng.random() < 0.6:
                d = S.rand_decl(rng, pool_all)
                label = d['shape']
                try:
                    lhs = S.lhs_of(d)
                except Exception as e:   # the left-hand side itself cannot be written
                    c.count('unwritable:' + type(e).__name__)
                    continue
                pos0, ic0, rhs, bnd = d['pos0'], d['ic0'], d['rhs'], m['Union'](*d['faces'])
            else:
                label, th = S.malformed_lhs(rng)
                try:
                    lhs = th()
                except Exception as e:
                    c.count('unwritable:' + type(e).__name__)
                    continue
                pos0, ic0, rhs, bnd = None, rng.choice([None, None, [0]]), 0, rng.choice(S.faces)
            kw = {}
            if pos0 is not None:
                kw['position'] = pos0
            if ic0 is not None:
                kw['index_component'] = ic0
            try:
                impl = 'ok ' + observe_cond(E(lhs, rhs, bnd, **kw), m)
            except Exception as e:
                impl = err_of(e)
            line = 'C18 classify ' + dumps(ser_bc_args(lhs, rhs, bnd, pos0, ic0, m))
            cases.append(('classify', line, impl, label))
        # --- equations
        for _ in range(per):
            k = rng.random()
            lb = rl = True
            trials, tests = tuple(S.trials), tuple(S.tests)
            tser = [A('many')] + [ser_fn(u, m) for u in S.trials]
            vser = [A('many')] + [ser_fn(v, m) for v in S.tests]
            label = 'valid'
            ncond = rng.choice([0, 1, 1, 2, 2, 3, 4, 5])
            decls = [S.rand_decl(rng) for _ in range(ncond)]
            items = []      # ('bc', decl) | ('other',) | ('not',)
            for d in decls:
                items.append(('bc', d))
            lhs_arg, rhs_arg = S.a, S.l
            bc_mode = 'many'
            if k < 0.45:
                pass
            elif k < 0.6 and decls:
                label = 'non-trial'
                j = rng.randrange(len(items))
                items[j] = ('bc', S.rand_decl(rng, [e[0] for e in S.extra]))
            elif k < 0.66:
                label = 'other-bc'
                items.insert(rng.randrange(len(items) + 1), ('other',))
            elif k < 0.72:
                label = 'not-bc'
                items.insert(rng.randrange(len(items) + 1), ('not',))
            elif k < 0.76:
                label, bc_mode = 'bc-wrong-type', 'wrong'
            elif k < 0.80:
                label, lb, lhs_arg = 'lhs-not-bilinear', False, S.l
            elif k < 0.84:
                label, rl, rhs_arg = 'rhs-not-linear', False, S.a
            elif k < 0.875:
                label = 'trials-wrong'
                if rng.random() < 0.5:
                    trials, tser = 'u', A('wrong')
                else:
                    trials = list(S.trials) + [3]
                    tser = tser + [A('notfn')]
            elif k < 0.91:
                label = 'tests-wrong'
                if rng.random() < 0.5:
                    tests, vser = 5, A('wrong')
                else:
                    tests = [2] + list(S.tests)
                    vser = [A('many'), A('notfn')] + vser[1:]
            elif k < 0.97 and len(S.trials) == 1:
                label = 'single-function'
                trials, tests = S.trials[0], S.tests[0]
                tser, vser = [A('single'), ser_fn(trials, m)], [A('single'), ser_fn(tests, m)]
            else:
                label = 'single-bc'
                if items:
                    items = items[:1]
                    bc_mode = 'single'
            # fresh objects
            bc_objs, bc_ser, ok_build = [], [], True
            for it in items:
                if it[0] == 'bc':
                    try:
                        obj, lhs, bnd = S.make(it[1])
                    except Exception as e:
                        ok_build = False
                        break
                    bc_objs.append(obj)
                    bc_ser.append(ser_bc_args(lhs, it[1]['rhs'], bnd, it[1]['pos0'], it[1]['ic0'], m))
                elif it[0] == 'other':
                    bc_objs.append(m['BasicBoundaryCondition']())
                    bc_ser.append(A('otherbc'))
                else:
                    bc_objs.append(rng.choice([5, 'abc', None]))
                    bc_ser.append(A('notbc'))
            if not ok_build:
                c.count('equation:unbuildable-condition')
                continue
            if bc_mode == 'wrong':
                bc_arg, bser = 'dirichlet', A('wrong')
            elif bc_mode == 'single':
                bc_arg, bser = bc_objs[0], [A('single'), bc_ser[0]]
            elif not bc_objs and rng.random() < 0.5:
                bc_arg, bser = None, A('None')
            else:
                cont = rng.choice([list, tuple, lambda x: m['Tuple'](*x)])
                if any(it[0] == 'not' for it in items):
                    cont = rng.choice([list, tuple])
                bc_arg, bser = cont(bc_objs), [A('many')] + bc_ser
            try:
                eq = m['Equation'](lhs_arg, rhs_arg, trials, tests, bc=bc_arg)
                bcs = eq.bc
                impl = 'ok ' + dumps([
                    'a' if eq.lhs is S.a else 'changed', 'l' if eq.rhs is S.l else 'changed',
                    [ser_fn(u, m) for u in eq.trial_functions], [ser_fn(v, m) for v in eq.test_functions],
                    A('None') if not bcs else [ser_cond(b, m) for b in bcs]])
            except Exception as e:
                impl = err_of(e)
            line = 'C18 equation %s %s "a" "l" %s %s %s' % (dumps(lb), dumps(rl), dumps(tser), dumps(vser), dumps(bser))
            info = dict(label=label, nfaces=[len(it[1]['faces']) for it in items if it[0] == 'bc'], ntrials=len(S.trials))
            cases.append(('equation', line, impl, info))
    # --- histories: the same condition objects used for several equations, then repositioned by the caller;
    #     after every step everything observable (entries of ALL equations, the caller's objects) is compared
    count0 = System.count
    for i in range(240 if ctx.thorough else 40):
        try:
            H = History(history_rng(ctx.tier, 'corr-%s' % ctx.seed, i), m, i)
        except Exception as e:
            c.count('history:unbuildable:' + type(e).__name__)
            continue
        ops = [[A('new'), ser_bc_args(lhs, d['rhs'], bnd, d['pos0'], d['ic0'], m)] for d, _, lhs, bnd in H.pool]
        eqs = []

        def observe():
            return 'ok ' + dumps([[A('eqs')] + [[ser_cond(b, m) for b in (eq.bc or [])] for eq in eqs],
                                  [A('callers')] + [ser_cond(obj, m) for _, obj, _, _ in H.pool]])
        failed = False
        for st in H.steps:
            ops.append([A('build'), [ser_fn(u, m) for u in st['trials']], list(st['use'])])
            try:
                eqs.append(H.build(st))
                impl = observe()
            except Exception as e:
                impl, failed = err_of(e), True
            cases.append(('history', 'C18 history ' + ' '.join(dumps(x) for x in ops), impl, 'build'))
            if failed:
                break
        if failed:
            continue
        for j, pnew in H.repos:
            ops.append([A('repos'), j, pnew])
            H.pool[j][1].set_position(pnew)
            cases.append(('history', 'C18 history ' + ' '.join(dumps(x) for x in ops), observe(), 'reposition'))
    System.count = count0
    outs = ctx.driver.run([x[1] for x in cases])
    for (kind, line, impl, info), out in zip(cases, outs):
        c.evaluations += 1
        c.count('kind:' + kind)
        if impl.startswith('err '):
            agree = out.split()[:2] == impl.split()[:2]
            c.count('%s:%s' % (kind, ' '.join(out.split()[:3]) if agree else impl))
        else:
            agree = out == impl
            c.count('%s:ok' % kind)
        if not agree:
            c.disagreements.append({'input': line, 'impl': impl, 'model': out, 'note': kind + ':' + str(info)})
        if kind == 'classify':
            c.count('lhs:' + info)
            c.nontrivial.add(line)
        elif kind == 'history':
            c.count('history:' + info)
            c.nontrivial.add(line)
        else:
            c.count('eq:' + info['label'])
            for nf in info['nfaces']:
                c.count('faces:%d' % nf)
            if impl.startswith('err') or any(nf > 1 for nf in info['nfaces']) or info['ntrials'] > 1:
                c.nontrivial.add(line)
            if len(c.samples) < 5 and info['label'] in ('valid', 'non-trial') and any(nf > 2 for nf in info['nfaces']) and len(line) < 1200:
                c.samples.append({'request': line, 'impl': impl[:1500], 'model_agrees': agree})
    return c


# --------------------------------------------------------------------------- oracle

def normal_of(d):
    """the name of the normal vector a declaration is written with (None for u and u[i])"""
    return (d.get('nname') or 'nn') if d['shape'] in NORMAL_SHAPES else None


def decl_str(S, d):
    nname = normal_of(d)
    return '%s[%s%s%s%s on %d face(s), rhs=%s]' % (d['shape'], d['fn'].name, '' if d['comp'] is None else ',%d' % d['comp'],
                                                    ' (written with a re-created equal element)' if d.get('twin') else '',
                                                    '' if nname in (None, 'nn') else ', normal vector named %r' % nname,
                                                    len(d['faces']), d['rhs'])


def same_fn(a, b):
    """the oracle's own notion of 'the same function of the model' (not sympy's ==): the very object, or a
    function of the same class and name in a space of the same name on a domain of the same name.  Inside one
    system names are unique, so this is identity there; it differs from identity only when the caller
    re-creates a function / rebuilds the model (then sympy's cache may hand back the earlier, equal object
    inside grad(u), and `variable` legitimately is that object)."""
    if a is b:
        return True
    try:
        return (type(a) is type(b) and str(a.name) == str(b.name) and str(a.space.name) == str(b.space.name)
                and str(a.space.domain.name) == str(b.space.domain.name))
    except AttributeError:
        return False


def check_equation(o, S, decls, use_find, m):
    """builds the equation from fresh conditions and compares equation.bc with the declarations;
    returns (key, what, detail) or None"""
    objs = []
    for d in decls:
        try:
            objs.append(S.make(d))
        except Exception as e:
            nname = normal_of(d)
            key = 'admitted-refused:%s:%s:%s' % (d['shape'], 'vector' if S.is_vec(d['fn']) else 'scalar', S.kind_of[id(d['fn'])])
            if nname not in (None, 'nn'):
                key += ':normal-named-' + nname
            return key, ('EssentialBC refuses the admitted left-hand side %s%s of a %s unknown of a %s space: %s(%s)' % (
                d['shape'], '' if nname is None else ' (written with NormalVector(%r))' % nname,
                'vector' if S.is_vec(d['fn']) else 'scalar', S.kind_of[id(d['fn'])], type(e).__name__, e)), \
                dict(shape=d['shape'], kind=S.kind_of[id(d['fn'])], vector=S.is_vec(d['fn']), dim=S.dim, normal=nname or 'nn')
    desc = '; '.join(decl_str(S, d) for d in decls)
    sysd = 'trials=%s dim=%d' % ([u.name for u in S.trials], S.dim)
    non_trial = [d for d in decls if not any(d['fn'] is u for u in S.trials)]
    try:
        if use_find:
            eq = m['find'](tuple(S.trials), forall=tuple(S.tests), lhs=S.lhs_expr, rhs=S.rhs_expr, bc=[x[0] for x in objs])
        else:
            eq = m['Equation'](S.a, S.l, tuple(S.trials), tuple(S.tests), bc=[x[0] for x in objs])
    except Exception as e:
        if non_trial:
            o.count('refused-non-trial:' + type(e).__name__)
            return None
        return 'equation-raises:%s:%s' % (sysd, desc), 'Equation raises %s(%s) for admitted conditions on trial functions: %s (%s)' % (
            type(e).__name__, e, desc, sysd), dict(system=sysd, conditions=desc)
    if non_trial:
        d = non_trial[0]
        return ('non-trial-kept:%s:%s' % (sysd, desc),
                'a condition on %s, which is not a trial function (%s), was not refused' % (d['fn'].name, sysd),
                dict(system=sysd, conditions=desc))
    if not use_find and (eq.lhs is not S.a or eq.rhs is not S.l):
        return 'forms-changed:' + sysd, 'Equation does not keep its lhs/rhs forms', dict(system=sysd)
    if use_find and not (isinstance(eq.lhs, m['BilinearForm']) and isinstance(eq.rhs, m['LinearForm'])
                         and eq.lhs.expr == S.a.expr and eq.rhs.expr == S.l.expr):
        return 'forms-changed:find:' + sysd, 'find() does not build the declared forms', dict(system=sysd)
    if list(eq.trial_functions) != list(S.trials) or list(eq.test_functions) != list(S.tests):
        return 'functions-changed:' + sysd, 'trial/test functions are not kept', dict(system=sysd)
    got = list(eq.bc) if eq.bc else []
    k = 0
    for d, (obj, lhs, bnd) in zip(decls, objs):
        faces = list(bnd.args) if isinstance(bnd, m['Union']) else [bnd]
        if set(faces) != set(d['faces']) or len(faces) != len(d['faces']):
            return 'union:' + desc, 'Union(*faces) does not hold the declared faces', dict(conditions=desc)
        order, ic, normal = S.expected(d['shape'], d['fn'], d['comp'], d['ic0'])
        pos = [i for i, u in enumerate(S.trials) if u is d['fn']][0]
        chunk = got[k:k + len(faces)]
        k += len(faces)
        key = 'bc:%s:%s:%s' % (sysd, desc, decl_str(S, d))
        det = dict(system=sysd, conditions=desc, condition=decl_str(S, d))
        if len(chunk) != len(faces):
            return key, 'equation.bc has %d entries for the condition %s declared on %d face(s) (all entries: %d)' % (
                len(chunk), decl_str(S, d), len(faces), len(got)), det
        for e, f in zip(chunk, faces):
            if isinstance(e.boundary, m['Union']) or e.boundary != f:
                return key, 'entry for %s sits on %s, expected the single face %s (faces in order: %s)' % (
                    decl_str(S, d), e.boundary, f, faces), det
            ic_got = None if e.index_component is None else [int(i) for i in e.index_component]
            obs = dict(lhs=e.lhs, rhs=e.rhs, order=e.order, variable=e.variable, index_component=ic_got,
                       normal_component=bool(e.normal_component), position=e.position)
            exp = dict(lhs=lhs, rhs=m['Integer'](d['rhs']) if isinstance(d['rhs'], int) else d['rhs'], order=order, variable=d['fn'],
                       index_component=ic, normal_component=normal, position=pos)
            for name in exp:
                same = same_fn(obs[name], exp[name]) if name == 'variable' else (obs[name] == exp[name])
                if not same:
                    return key, 'entry of %s on %s has %s = %r, expected %r (%s)' % (
                        decl_str(S, d), f, name, obs[name], exp[name], sysd), det
    if k != len(got):
        return 'bc-surplus:%s:%s' % (sysd, desc), 'equation.bc has %d entries, the declarations account for %d' % (len(got), k), \
            dict(system=sysd, conditions=desc)
    o.count('equation-ok:%d-conditions' % len(decls))
    for d in decls:
        o.count('shape:%s:%s' % (d['shape'], 'vector' if S.is_vec(d['fn']) else 'scalar'))
        if normal_of(d):
            o.count('normal-name:' + normal_of(d))
        o.count('faces:%d' % len(d['faces']))
        o.count('kind:' + S.kind_of[id(d['fn'])])
    return None


# --------------------------------------------------------------------------- histories

class History:
    """a multi-step scenario: ONE pool of EssentialBC objects (the caller's), used to build 2-3 equations
    whose trial lists are permutations / extensions of the system's, then the caller repositions its
    own objects.  Everything is a function of the given rng, so that (tier, seed, index) identifies it."""

    def __init__(self, rng, m, number):
        System.count = 900000 + number
        S = self.S = System(rng, m)
        self.m = m
        npool = rng.choice([1, 2, 2, 3, 4])
        self.pool = []          # (decl, object, lhs, boundary)
        for j in range(npool):
            d = S.rand_decl(rng)
            if j == 0 or rng.random() < 0.5:
                d['faces'] = d['faces'][:1]          # a single face: Union(f) is f itself
            if rng.random() < 0.7:
                d['pos0'] = None
            obj, lhs, bnd = S.make(d)
            self.pool.append((d, obj, lhs, bnd))
        pairs = list(zip(S.trials, S.tests))
        spare = []
        for u, kind in S.extra:
            v = u.space.element('t_' + u.name)
            spare.append((u, v))
        self.steps = []
        last = None
        for k in range(rng.choice([2, 2, 3])):
            for attempt in range(6):
                ps = list(pairs)
                rng.shuffle(ps)
                for sp in spare:
                    if rng.random() < 0.4:
                        ps.insert(rng.randrange(len(ps) + 1), sp)
                if [x[0] for x in ps] != last:
                    break
            last = [x[0] for x in ps]
            trials, tests = [x[0] for x in ps], [x[1] for x in ps]
            if rng.random() < 0.65:
                use = list(range(npool))
            else:
                use = sorted(rng.sample(range(npool), rng.randrange(1, npool + 1)))
            if rng.random() < 0.3:
                rng.shuffle(use)
            self.steps.append(dict(trials=trials, tests=tests, use=use, find=rng.random() < 0.25))
        self.repos = [(j, rng.choice([0, 1, 5, 9])) for j in range(npool) if rng.random() < 0.6]

    def forms(self, step):
        m = self.m
        dot, integral = m['dot'], m['integral']
        expr = rexpr = 0
        for u, v in zip(step['trials'], step['tests']):
            expr = expr + (dot(u, v) if isinstance(u, m['VectorFunction']) else u * v)
            rexpr = rexpr + (v[0] if isinstance(v, m['VectorFunction']) else v)
        return integral(self.S.domain, expr), integral(self.S.domain, rexpr)

    def build(self, step):
        m = self.m
        le, re_ = self.forms(step)
        bc = [self.pool[j][1] for j in step['use']]
        if step['find']:
            return m['find'](tuple(step['trials']), forall=tuple(step['tests']), lhs=le, rhs=re_, bc=bc)
        a = m['BilinearForm']((tuple(step['trials']), tuple(step['tests'])), le)
        l = m['LinearForm'](tuple(step['tests']), re_)
        return m['Equation'](a, l, tuple(step['trials']), tuple(step['tests']), bc=bc)

    def expected(self, step):
        """the entries equation.bc must have, by the statement of the property: list of dicts"""
        m, S = self.m, self.S
        out = []
        for j in step['use']:
            d, obj, lhs, bnd = self.pool[j]
            order, ic, normal = S.expected(d['shape'], d['fn'], d['comp'], d['ic0'])
            pos = [i for i, u in enumerate(step['trials']) if u is d['fn']][0]
            for f in (list(bnd.args) if isinstance(bnd, m['Union']) else [bnd]):     # the order kept by Union
                out.append(dict(lhs=lhs, rhs=m['Integer'](d['rhs']) if isinstance(d['rhs'], int) else d['rhs'], boundary=f,
                                order=order, variable=d['fn'], index_component=ic, normal_component=normal, position=pos))
        return out

    def describe(self):
        S = self.S
        return dict(system='trials=%s dim=%d' % ([u.name for u in S.trials], S.dim),
                    pool=[decl_str(S, d) for d, _, _, _ in self.pool],
                    equations=['trials=%s conditions=%s%s' % ([u.name for u in st['trials']], st['use'], ' (find)' if st['find'] else '')
                               for st in self.steps],
                    repositions=self.repos)


ATTRS = ('lhs', 'rhs', 'boundary', 'order', 'variable', 'index_component', 'normal_component', 'position')


def read_cond(b):
    """ALL attributes of a condition object, re-read from the object"""
    ic = b.index_component
    return dict(lhs=b.lhs, rhs=b.rhs, boundary=b.boundary, order=b.order, variable=b.variable,
                index_component=None if ic is None else [int(i) for i in ic],
                normal_component=bool(b.normal_component), position=b.position, args=tuple(b.args))


def diff_cond(obs, exp):
    for name in exp:
        same = same_fn(obs[name], exp[name]) if name == 'variable' else (obs[name] == exp[name])
        if not same:
            return '%s = %r, expected %r' % (name, obs[name], exp[name])
    return None


def check_history(o, H, m):
    """runs the scenario on the real code; after EVERY step all attributes of all entries of ALL equations
    built so far and of the caller's objects are read again and compared with the snapshots.
    Returns (key, what) or None."""
    callers = [read_cond(obj) for _, obj, _, _ in H.pool]
    eqs, snaps, exps = [], [], []

    def reread(after):
        for k, eq in enumerate(eqs):
            got = [read_cond(b) for b in (eq.bc or [])]
            if len(got) != len(snaps[k]):
                return ('history:earlier-equation-changed', 'after %s equation #%d has %d bc entries, it had %d' % (after, k, len(got), len(snaps[k])))
            for n, (g, s0, e0) in enumerate(zip(got, snaps[k], exps[k])):
                bad = diff_cond(g, s0) or diff_cond(g, e0)
                if bad:
                    return ('history:earlier-equation-changed',
                            'after %s, entry %d of equation #%d (trials %s) has %s: it no longer describes its own equation' % (
                                after, n, k, [u.name for u in H.steps[k]['trials']], bad))
        for j, (_, obj, _, _) in enumerate(H.pool):
            bad = diff_cond(read_cond(obj), callers[j])
            if bad:
                return ('history:caller-changed', 'after %s the caller\'s condition #%d (%s) has %s: building an equation changed its input' % (
                    after, j, H.describe()['pool'][j], bad))
        return None

    for k, st in enumerate(H.steps):
        try:
            eq = H.build(st)
        except Exception as e:
            return ('history:equation-raises', 'equation #%d (trials %s) raises %s(%s) for admitted conditions on its trial functions' % (
                k, [u.name for u in st['trials']], type(e).__name__, e))
        exp = H.expected(st)
        got = [read_cond(b) for b in (eq.bc or [])]
        if len(got) != len(exp):
            return ('history:entries', 'equation #%d has %d bc entries, the declarations account for %d' % (k, len(got), len(exp)))
        for n, (g, e0) in enumerate(zip(got, exp)):
            bad = diff_cond(g, e0)
            if bad:
                return ('history:entry-wrong', 'entry %d of equation #%d (trials %s) has %s' % (n, k, [u.name for u in st['trials']], bad))
        eqs.append(eq)
        snaps.append(got)
        exps.append(exp)
        bad = reread('building equation #%d' % k)
        if bad:
            return bad
        o.count('history:equations-reread:%d' % len(eqs))
    # the caller goes on using its own objects
    for j, p in H.repos:
        H.pool[j][1].set_position(p)
        callers[j] = read_cond(H.pool[j][1])
        bad = reread('the caller set the position of its own condition #%d to %d' % (j, p))
        if bad:
            return (bad[0].replace('caller-changed', 'caller-reposition'), bad[1])
    shared = sum(1 for j in range(len(H.pool)) if sum(1 for st in H.steps if j in st['use']) >= 2)
    o.count('history:ok:shared-conditions:%d' % min(shared, 3))
    o.count('history:single-face-shared' if any(len(H.pool[j][0]['faces']) == 1 and sum(1 for st in H.steps if j in st['use']) >= 2
                                                 for j in range(len(H.pool))) else 'history:no-single-face-shared')
    moved = 0
    for j in range(len(H.pool)):
        ps = {[i for i, u in enumerate(st['trials']) if u is H.pool[j][0]['fn']][0] for st in H.steps if j in st['use']}
        moved += len(ps) > 1
    o.count('history:unknown-at-different-indices' if moved else 'history:same-indices')
    return None


# --------------------------------------------------------------------------- rebuilt models

class Rebuilt:
    """ONE model (recipe: names and kinds of domain, spaces, functions; declared conditions) built 2-3 times one
    after the other in the same process, every time from re-created objects (new domain, new spaces, new
    functions, new conditions), as a script looping over mesh / parameter variants does.  The objects of a later
    build are equal to those of the earlier builds (same names) but are other Python objects; every build uses
    its own objects consistently.  A function of (rng, number) only."""

    def __init__(self, rng, m, number, base=800000):
        System.count = base + number
        S = self.S = System(rng, m)
        self.m = m
        ncond = rng.choice([1, 2, 2, 3, 4])
        self.decls = [S.rand_decl(rng) for _ in range(ncond)]
        # mostly: at least one normal-derivative condition (the shape whose left-hand side is a cached
        # Function application of the unknown) when one can be written for this system
        cands = [u for u in S.trials if S.kind_of[id(u)] in ('h1', 'undefined')]
        if cands and rng.random() < 0.75:
            d = self.decls[rng.randrange(ncond)]
            d['fn'], d['shape'], d['comp'] = rng.choice(cands), 'dn', None
        for d in self.decls:
            if rng.random() < 0.7:
                d['twin'] = False
        if rng.random() < 0.15:
            self.decls[rng.randrange(ncond)] = S.rand_decl(rng, [e[0] for e in S.extra])
        self.builds = [rng.random() < 0.25 for _ in range(rng.choice([2, 2, 3]))]     # through find?

    def describe(self):
        S = self.S
        return dict(system='trials=%s dim=%d domain=%s' % ([u.name for u in S.trials], S.dim, S.domain.name),
                    conditions=[decl_str(S, d) for d in self.decls],
                    builds=['find' if f else 'Equation' for f in self.builds])


def check_rebuilt(o, R, m):
    """builds the model R.builds times from re-created objects; every build must satisfy the statement.
    Returns (key, what) or None"""
    for r, use_find in enumerate(R.builds):
        S = R.S if r == 0 else R.S.rebuild()
        decls = [S.transfer(d, R.S) for d in R.decls]
        bad = check_equation(o, S, decls, use_find, m)
        if bad:
            return ('rebuilt:%s:build-%d' % (bad[0].split(':')[0], r),
                    'build #%d of the same model in one process (every build creates its own domain, spaces, functions and '
                    'conditions, with the same names): %s' % (r, bad[1]))
        o.count('rebuilt:build-%d-ok' % r)
    o.count('rebuilt:with-normal-derivative' if any(d['shape'] == 'dn' for d in R.decls) else 'rebuilt:without-normal-derivative')
    return None


def rebuilt_rng(tier, seed, i):
    import random
    return random.Random('C18/rebuilt/%s/%s/%d' % (tier, seed, i))


def fixed_rebuilt(m):
    """fixed corpus (stable keys): a Stokes-like model with the four admitted shapes, built twice from re-created
    objects; and each admitted shape written with a re-created (equal) element of the unknown's space.
    Yields (key, thunk returning None or a description of the failure)"""
    def model(twin_shape=None):
        D = m['Square']('Dfix18')
        W = m['VectorFunctionSpace']('Wfix18', D)
        V = m['ScalarFunctionSpace']('Vfix18', D)
        w, z = W.element('w'), W.element('z')
        u, v = V.element('u'), V.element('v')
        nn = m['NormalVector']('nn')
        f = list(D.boundary.args)
        x = D.coordinates[0]
        dot, grad = m['dot'], m['grad']
        tw = lambda fn, shape: fn.space.element(fn.name) if twin_shape == shape else fn
        # (shape, lhs, rhs, faces, order, unknown, components, normal flag)
        given = [('u[i]', tw(w, 'u[i]')[0], 0, [f[0], f[1]], 0, w, [0], False),
                 ('u.n', dot(tw(w, 'u.n'), nn), 0, [f[2], f[3]], 0, w, None, True),
                 ('u', tw(u, 'u'), x, [f[0]], 0, u, None, False),
                 ('dn', dot(grad(tw(u, 'dn')), nn), 0, [f[1], f[2], f[3]], 1, u, None, False)]
        trials, tests = [w, u], [z, v]
        bcs = [m['EssentialBC'](g[1], g[2], m['Union'](*g[3])) for g in given]
        le = m['integral'](D, dot(w, z) + dot(grad(u), grad(v)) + u * v)
        re_ = m['integral'](D, x * v + z[1])
        try:
            eq = m['find'](trials, forall=tests, lhs=le, rhs=re_, bc=bcs)
        except Exception as e:
            return 'find raises %s(%s) although every condition is on a trial function' % (type(e).__name__, e)
        exp = []
        for shape, lhs, rhs, faces, order, var, comp, normal in given:
            pos = [k for k, t in enumerate(trials) if t is var][0]
            exp += [(shape, lhs, m['sympify'](rhs), fc, order, var, comp, normal, pos) for fc in faces]
        got = list(eq.bc or [])
        if len(got) != len(exp):
            return 'equation.bc has %d entries, the declarations account for %d' % (len(got), len(exp))
        for b, (shape, lhs, rhs, fc, order, var, comp, normal, pos) in zip(got, exp):
            ic = None if b.index_component is None else [int(i) for i in b.index_component]
            obs = (b.lhs == lhs, b.rhs == rhs, b.boundary == fc, b.order, same_fn(b.variable, var), ic, bool(b.normal_component), b.position)
            want = (True, True, True, order, True, comp, normal, pos)
            if obs != want:
                return 'entry for %s on %s: (lhs kept, rhs kept, face, order, unknown, components, normal, position) = %r, expected %r' % (
                    shape, fc, obs, want)
        return None

    def twice():
        for r in range(2):
            bad = model()
            if bad:
                return 'build #%d: %s' % (r, bad)
        return None
    yield 'fixed:rebuilt-model', 'the same model (w[0], w.n, u, grad(u).n on a Square) built twice in one process from re-created objects', twice
    for shape in ('u', 'u[i]', 'u.n', 'dn'):
        yield ('fixed:recreated-function:' + shape,
               'the condition %s written with a re-created element of the space (same name as the trial function)' % shape,
               (lambda shape=shape: model(shape)))


def fixed_normals(m):
    """fixed corpus (stable keys): the admitted shapes that contain the normal vector (u.n in both argument orders,
    grad(p).n of a scalar unknown, grad(u).n of a vector unknown), written with NormalVector objects of several
    names, one model per name plus one whose conditions use different names side by side.  The statement does not
    mention the name: order, unknown, components, normal flag, position and the per-face expansion must be the
    same for every name.  Yields (key, what, thunk returning None or a description of the failure)"""
    def model(names):
        D = m['Square']('Dnrm18')
        W = m['VectorFunctionSpace']('Wnrm18', D)
        V = m['ScalarFunctionSpace']('Vnrm18', D)
        u, v = W.element('u'), W.element('v')
        p, q = V.element('p'), V.element('q')
        n = [m['NormalVector'](nm) for nm in names]
        f = list(D.boundary.args)
        dot, grad = m['dot'], m['grad']
        # (shape, lhs, rhs, faces, order, unknown, components, normal flag)
        given = [('u.n', dot(u, n[0]), 0, [f[0], f[1]], 0, u, None, True),
                 ('grad(p).n', dot(grad(p), n[1 % len(n)]), m['Integer'](2), [f[2]], 1, p, None, False),
                 ('grad(u).n', dot(grad(u), n[2 % len(n)]), 0, [f[2], f[3]], 1, u, None, True),
                 ('n.u', dot(n[3 % len(n)], u), 1, [f[3]], 0, u, None, True),
                 ('p', p, 1, [f[0], f[3]], 0, p, None, False)]
        trials, tests = [p, u], [q, v]
        bcs = []
        for g in given:
            try:
                bcs.append(m['EssentialBC'](g[1], g[2], m['Union'](*g[3])))
            except Exception as e:
                return 'EssentialBC refuses the admitted left-hand side %s = %s: %s(%s)' % (g[0], g[1], type(e).__name__, e)
        try:
            eq = m['find'](trials, forall=tests, lhs=m['integral'](D, dot(u, v) + p * q), rhs=m['integral'](D, q), bc=bcs)
        except Exception as e:
            return 'find raises %s(%s) although every condition is an admitted one on a trial function' % (type(e).__name__, e)
        exp = []
        for shape, lhs, rhs, faces, order, var, comp, normal in given:
            un = m['Union'](*faces)
            ordered = list(un.args) if isinstance(un, m['Union']) else [un]
            pos = [k for k, t in enumerate(trials) if t is var][0]
            exp += [(shape, lhs, m['sympify'](rhs), fc, order, var, comp, normal, pos) for fc in ordered]
        got = list(eq.bc or [])
        if len(got) != len(exp):
            return 'equation.bc has %d entries, the declarations account for %d' % (len(got), len(exp))
        for b, (shape, lhs, rhs, fc, order, var, comp, normal, pos) in zip(got, exp):
            ic = None if b.index_component is None else [int(i) for i in b.index_component]
            obs = (b.lhs == lhs, b.rhs == rhs, b.boundary == fc, b.order, same_fn(b.variable, var), ic, bool(b.normal_component), b.position)
            want = (True, True, True, order, True, comp, normal, pos)
            if obs != want:
                return 'entry for %s on %s: (lhs kept, rhs kept, face, order, unknown, components, normal, position) = %r, expected %r' % (
                    shape, fc, obs, want)
        return None

    for nm in ('nn', 'n', 'normal', 'nu', 'N'):
        yield ('fixed:normal-name:' + nm,
               'u.n, grad(p).n, grad(u).n, n.u written with NormalVector(%r) (and p) on a Square, trials (p, u)' % nm,
               (lambda nm=nm: model([nm])))
    yield ('fixed:normal-name:mixed',
           'u.n, grad(p).n, grad(u).n, n.u written with four differently named normal vectors in one equation',
           lambda: model(['n', 'nn', 'normal', 'nu']))


def history_rng(tier, seed, i):
    import random
    return random.Random('C18/history/%s/%s/%d' % (tier, seed, i))


def oracle(ctx, factor, seeds):
    m = mods()
    o = Oracle()
    rng = ctx.rng
    nsys = (600 if ctx.thorough else 100) * factor
    per = 12 if ctx.thorough else 8
    # fixed corpus: the witness of the repaired finding C18-normal-hdiv and the shapes of the statement
    class Fixed(System):
        pass
    import random as _random
    for seed, kind in ((11, 'hdiv'), (12, 'hcurl'), (13, 'l2'), (14, 'h1')):
        S = System(_random.Random(seed), m, forms=False)
        V = m['VectorFunctionSpace']('Wfix_' + kind, S.domain, kind=kind) if S.dim > 1 else None
        if V is None:
            continue
        F = V.element('Ffix')
        S.kind_of[id(F)] = kind
        o.evaluations += 1
        d = dict(shape='u.n', fn=F, comp=None, faces=S.faces[:2], rhs=0, pos0=None, ic0=None)
        try:
            b, _, _ = S.make(d)
            okk = (b.order, b.variable is F, b.normal_component, b.index_component) == (0, True, True, None)
        except Exception as e:
            okk = False
        if not okk:
            o.fail('admitted-refused:u.n:vector:' + kind,
                   'EssentialBC(dot(F, nn), 0, faces) is refused for a vector unknown of a %s space (the candidate grad(F).n is built eagerly)' % kind,
                   shape='u.n', kind=kind, vector=True, dim=S.dim)
        else:
            o.count('fixed-corpus:u.n:' + kind)
    # fixed corpus: models built twice / conditions written with re-created equal functions
    for key, what, th in fixed_rebuilt(m):
        o.evaluations += 1
        bad = th()
        if bad:
            o.fail(key, '%s: %s' % (what, bad), fixed=key)
        else:
            o.count(key)
    # fixed corpus: the shapes containing the normal vector, written with normal vectors of several names
    for key, what, th in fixed_normals(m):
        o.evaluations += 1
        bad = th()
        if bad:
            o.fail(key, '%s: %s' % (what, bad), fixed=key)
        else:
            o.count(key)
    # rebuilt models: the same recipe built 2-3 times from re-created objects (deterministic in (tier, seed, index))
    count0 = System.count
    for i in range((360 if ctx.thorough else 60) * factor):
        try:
            R = Rebuilt(rebuilt_rng(ctx.tier, ctx.seed, i), m, i)
        except Exception as e:
            o.count('rebuilt:unbuildable:' + type(e).__name__)
            continue
        o.evaluations += 1
        bad = check_rebuilt(o, R, m)
        if bad:
            o.fail('%s:%d' % (bad[0], i), bad[1], rebuilt=i, scenario=R.describe())
    System.count = count0
    # histories: shared condition objects across several equations (deterministic in (tier, seed, index))
    nhist = (1500 if ctx.thorough else 250) * factor
    count0 = System.count
    for i in range(nhist):
        try:
            H = History(history_rng(ctx.tier, ctx.seed, i), m, i)
        except Exception as e:
            o.count('history:unbuildable:' + type(e).__name__)
            continue
        o.evaluations += 1
        bad = check_history(o, H, m)
        if bad:
            o.fail('%s:%d' % (bad[0], i), bad[1], history=i, scenario=H.describe())
    System.count = count0
    for _ in range(nsys):
        S = System(rng, m)
        for j in range(per):
            ncond = rng.choice([1, 1, 2, 2, 3, 4, 5])
            k = rng.random()
            decls = [S.rand_decl(rng) for _ in range(ncond)]
            if k < 0.2:
                decls[rng.randrange(ncond)] = S.rand_decl(rng, [e[0] for e in S.extra])
            o.evaluations += 1
            bad = check_equation(o, S, decls, rng.random() < 0.25, m)
            if bad:
                o.fail(bad[0], bad[1], **bad[2])
            if len(o.samples) < 3 and not bad and ncond >= 2 and k >= 0.2:
                o.samples.append({'system': [u.name for u in S.trials], 'declared': [decl_str(S, d) for d in decls]})
        # sometimes the same system is built again from re-created (equal) objects and the last list of
        # declarations is written again with the new objects
        if rng.random() < 0.25:
            S2 = S.rebuild()
            o.evaluations += 1
            bad = check_equation(o, S2, [S2.transfer(d, S) for d in decls], rng.random() < 0.25, m)
            if bad:
                o.fail('rebuilt-system:' + bad[0], 'second build of the same system from re-created objects: ' + bad[1], **bad[2])
            else:
                o.count('rebuilt-system-ok')
        # malformed left-hand sides must be refused
        for j in range(per // 2):
            label, th = S.malformed_lhs(rng)
            try:
                lhs = th()
            except Exception:
                continue
            o.evaluations += 1
            try:
                b = m['EssentialBC'](lhs, 0, rng.choice(S.faces))
            except Exception as e:
                o.count('bad-lhs-refused:' + type(e).__name__)
                continue
            o.fail('bad-lhs-accepted:%s:%s' % (label, lhs), 'EssentialBC accepts the left-hand side %s (%s), which is not of an admitted shape: order=%s variable=%s' % (
                lhs, label, b.order, b.variable), label=label)
    return o


def replay(ctx, path):
    d = json.load(open(path))
    print(json.dumps(d, indent=1)[:4000])
    det = d.get('detail') or {}
    if 'shape' in det and 'kind' in det:
        m = mods()
        dom = m['Square']('OmReplay')
        cls = m['VectorFunctionSpace'] if det.get('vector') else m['ScalarFunctionSpace']
        u = cls('Vr', dom, kind=det['kind']).element('u')
        nn = m['NormalVector'](det.get('normal') or 'nn')
        try:
            lhs = {'u': lambda: u, 'u[i]': lambda: u[0], 'u.n': lambda: m['dot'](u, nn), 'n.u': lambda: m['dot'](nn, u),
                   'dn': lambda: m['dot'](m['grad'](u), nn)}[det['shape']]()
            b = m['EssentialBC'](lhs, 0, dom.boundary.args[0])
            print('REPLAY: accepted now: order=%s variable=%s normal_component=%s' % (b.order, b.variable, b.normal_component))
            return 0
        except Exception as e:
            print('REPLAY: still failing: %s(%s)' % (type(e).__name__, e))
            return 1
    if 'fixed' in det:
        m = mods()
        for key, what, th in list(fixed_rebuilt(m)) + list(fixed_normals(m)):
            if key == det['fixed']:
                bad = th()
                if bad:
                    print('REPLAY: still failing: %s: %s' % (what, bad))
                    return 1
                print('REPLAY: the fixed case %s passes now' % key)
                return 0
    if 'rebuilt' in det:
        m = mods()
        i = int(det['rebuilt'])
        R = Rebuilt(rebuilt_rng(d.get('tier'), d.get('seed'), i), m, i)
        print('REPLAY: rebuilt model #%d: %s' % (i, json.dumps(R.describe(), default=str)))
        bad = check_rebuilt(Oracle(), R, m)
        if bad:
            print('REPLAY: still failing: %s' % bad[1])
            return 1
        print('REPLAY: the recorded rebuilt model passes now')
        return 0
    if 'history' in det:
        m = mods()
        i = int(det['history'])
        H = History(history_rng(d.get('tier'), d.get('seed'), i), m, i)
        print('REPLAY: history #%d: %s' % (i, json.dumps(H.describe(), default=str)))
        bad = check_history(Oracle(), H, m)
        if bad:
            print('REPLAY: still failing: %s' % bad[1])
            return 1
        print('REPLAY: the recorded history passes now')
        return 0
    print('REPLAY: re-run `VERIF_SEED=%s ./check C18 --tier %s` to regenerate the system (systems are random objects)' % (d.get('seed'), d.get('tier')))
    return 0
