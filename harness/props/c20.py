"""C20 — name patterns: correspondence with Model/Pattern.lean (three-way with sympy.symbols) and
independent oracle (sympy.symbols is the reference) on the real code."""
import ast
import json
import os
import re

from harness.common import Corr, Oracle
from harness.sexp import A, dumps

PID = 'C20'
PROPS_MODULE = 'SympdeModel.Props.C20'
RULE = ('pattern strings: (a) structured — items built from literal text, numeric/alphabetic ranges with or '
        'without start, parenthesised ranges, escapes, joined by commas/blanks, optional trailing comma and '
        'padding; (b) one-character mutations of (a); (c) uniformly random strings of length 0..12 over the '
        'pattern alphabet (letters, digits, ":", ",", "(", ")", backslash, blank; rarely + - _ TAB NUL); '
        'seq in {absent, True, False, non-bool}; nested lists/tuples of patterns (depth <= 3); scalar, vector '
        'and product spaces with 2..4 components for element_of / elements_of; (d) the single-name entry point: '
        'patterns assembled from 0..3 intended names (letters/digits with escaped blanks, commas, colons inside), '
        'joined by blank runs (blank, TAB, LF), padded, rarely with a trailing comma — empty and all-blank '
        'patterns included — through expand_name_patterns, element_of and elements_of on scalar, vector and '
        'product spaces.  One case = one call; '
        'non-trivial = the pattern contains a range, a separator, an escape or a container (the result is not '
        'the pattern itself); distinct by request line')
ASSUMPTIONS = [
    'sympy.symbols itself is not modelled a second time: that sympde agrees with it is established by the '
    'three-way correspondence and by the oracle (sampled), the Lean theorems are about the model of '
    'expand_name_patterns',
    'ASCII fragment: Python int() also accepts non-ASCII decimal digits and refuses more than 4300 digits; '
    'chr(marker) is assumed to stay below the surrogate range (needs a pattern of > 55000 characters)',
    'for a container of patterns sympde ignores seq (source comment utils.py:159; sympy propagates it to the items): '
    'open finding C20-container-seq-nesting, reported on every run from a fixed witness; on random containers with an '
    'explicit seq the flattened names are compared with symbols(names, seq=seq) and the nesting with symbols(names)',
    'element_of / elements_of pair spaces and names with zip(): when the numbers differ the surplus names are '
    'dropped silently; the oracle checks the created prefix and counts these cases, it does not flag them',
]
MIN_NONTRIVIAL = 50


# --------------------------------------------------------------------------- T2: constants of the source

def source_constants(repo):
    """(_range pattern, literals list) read from sympde/core/utils.py with ast (no execution)"""
    path = os.path.join(repo, 'sympde', 'core', 'utils.py')
    tree = ast.parse(open(path).read())
    rng, lits = None, None
    for node in tree.body:
        if isinstance(node, ast.Assign) and any(isinstance(t, ast.Name) and t.id == '_range' for t in node.targets):
            call = node.value
            if isinstance(call, ast.Call) and call.args and isinstance(call.args[0], ast.Constant):
                rng = call.args[0].value
        if isinstance(node, ast.FunctionDef) and node.name == 'expand_name_patterns':
            for sub in ast.walk(node):
                if isinstance(sub, ast.Assign) and any(isinstance(t, ast.Name) and t.id == 'literals' for t in sub.targets) \
                        and isinstance(sub.value, ast.List) and lits is None:
                    lits = [e.value for e in sub.value.elts if isinstance(e, ast.Constant)]
    return rng, lits


# --------------------------------------------------------------------------- serialisation

def S(s):
    return [A('s')] + [ord(c) for c in s]


def ser_pat(p):
    if isinstance(p, str):
        return S(p)
    return [A('list' if isinstance(p, list) else 'tuple')] + [ser_pat(x) for x in p]


def ser_names(r):
    """result of expand_name_patterns"""
    if isinstance(r, str):
        return S(r)
    if isinstance(r, (list, tuple)):
        return [A('list' if isinstance(r, list) else 'tuple')] + [ser_names(x) for x in r]
    raise TypeError('unexpected result %r' % (r,))


def ser_symbols(r):
    """result of sympy.symbols, names only"""
    from sympy import Symbol
    if isinstance(r, Symbol):
        return S(r.name)
    if isinstance(r, (list, tuple)):
        return [A('list' if isinstance(r, list) else 'tuple')] + [ser_symbols(x) for x in r]
    raise TypeError('unexpected result %r' % (r,))


def flat(s):
    """flattened list of names of a serialised result"""
    if s and s[0] == 's':
        return [tuple(s[1:])]
    out = []
    for x in s[1:]:
        out += flat(x)
    return out


def unS(s):
    return ''.join(chr(int(c)) for c in s[1:])


def show(s):
    """readable form of a serialised result"""
    if s and s[0] == 's':
        return unS(s)
    inner = ', '.join(repr(show(x)) if (x and x[0] == 's') else show(x) for x in s[1:])
    return ('[%s]' if s[0] == 'list' else '(%s)') % inner


MSG = {'no symbols given': 'no-symbols-given', 'missing symbol between commas': 'missing-symbol-between-commas',
       'missing symbol': 'missing-symbol', 'missing end range': 'missing-end-range',
       "To create multiple elements of same space, use 'elements_of'.": 'multiple', 'TODO': 'todo'}


def err_of(e, fine=True):
    name = type(e).__name__
    if not fine:
        return 'err ' + name
    msg = str(e)
    if isinstance(e, TypeError):
        kind = 'seq' if 'type(seq)' in msg else 'space'
    else:
        kind = MSG.get(msg, 'other')
    return 'err %s %s' % (name, kind)


def ser_elem(r):
    from sympde.topology.space import ScalarFunction, VectorFunction
    if isinstance(r, ScalarFunction):
        return [A('scalar'), S(r.name), str(r.space.name)]
    if isinstance(r, VectorFunction):
        return [A('vector'), S(r.name), str(r.space.name)]
    if isinstance(r, (list, tuple)):
        return [A('list' if isinstance(r, list) else 'tuple')] + [ser_elem(x) for x in r]
    raise TypeError('unexpected element %r' % (r,))


# --------------------------------------------------------------------------- generators

LETTERS = 'abcxyzuvABXYZ'
DIGITS = '0123459'
ALPHABET = LETTERS * 2 + DIGITS * 2 + ':::::' + ',,,' + '((' + '))' + '\\\\' + '   '
RARE = '+-_\t\x00\x01.[\n'


def too_big(s, limit=3000):
    """cheap upper bound of the number of names a pattern can produce (keeps range() small)"""
    if re.search(r'[0-9_]{4,}', s):
        return True
    prod = 1
    for m in re.finditer(r':([+-]?)([0-9_]*)([a-zA-Z]?)', s):
        if m.group(2):
            prod *= max(1, int(m.group(2).replace('_', '') or 1))
        elif m.group(3):
            prod *= 52
    # per name the product is what matters; the bound over the whole string is coarser but safe
    return prod > limit


class Gen:
    def __init__(self, rng):
        self.rng = rng

    def lit(self):
        r = self.rng
        n = r.choice([1, 1, 1, 2, 2, 3])
        s = ''.join(r.choice(LETTERS + '_') for _ in range(n))
        k = r.random()
        if k < 0.1:
            s += r.choice('(') if r.random() < 0.5 else r.choice(')')
        elif k < 0.2:
            s = s + r.choice(DIGITS)
        elif k < 0.3:
            s = s + r.choice(['\\,', '\\:', '\\ ']) + r.choice(LETTERS)
        return s

    def rng_num(self):
        r = self.rng
        b = r.randint(0, 6)
        k = r.random()
        if k < 0.5:
            return ':%d' % b
        a = r.randint(0, 6)
        if k < 0.9:
            return '%d:%d' % (a, b)
        return '%02d:%02d' % (a, b + 2)

    def rng_alpha(self):
        r = self.rng
        import string
        L = string.ascii_letters
        i = r.randrange(52)
        k = r.random()
        if k < 0.4:
            return ':' + L[r.randrange(0, 6)]
        j = min(51, max(0, i + r.randint(-2, 4)))
        return L[i] + ':' + L[j]

    def item(self):
        r = self.rng
        parts = []
        nseg = r.choice([1, 1, 2, 2, 3, 3, 4])
        for _ in range(nseg):
            k = r.random()
            if k < 0.45:
                parts.append(self.lit())
            else:
                x = self.rng_num() if r.random() < 0.55 else self.rng_alpha()
                if r.random() < 0.3:
                    x = '(' + x + ')'
                    if r.random() < 0.15:
                        x = '(' + x + ')'
                parts.append(x)
        return ''.join(parts)

    def structured(self):
        r = self.rng
        n = r.choice([1, 1, 2, 2, 3, 4])
        out = ' ' * r.choice([0, 0, 0, 1, 2])
        for i in range(n):
            if i:
                out += r.choice([',', ', ', ' ', '  ', ' , ', ' ,', ',\t'])
            out += self.item()
        k = r.random()
        if k < 0.2:
            out += ','
        elif k < 0.3:
            out += ' , '
        out += ' ' * r.choice([0, 0, 0, 1])
        return out

    def mutate(self, s):
        r = self.rng
        if not s:
            return r.choice(ALPHABET)
        i = r.randrange(len(s) + 1)
        k = r.random()
        c = r.choice(ALPHABET if r.random() < 0.9 else RARE)
        if k < 0.4:
            return s[:i] + c + s[i:]
        if k < 0.7:
            return s[:i] + s[i + 1:]
        return s[:i] + c + s[i + 1:]

    def random(self):
        r = self.rng
        n = r.randint(0, 12)
        alpha = ALPHABET if r.random() < 0.85 else ALPHABET + RARE
        return ''.join(r.choice(alpha) for _ in range(n))

    def malformed(self):
        r = self.rng
        return r.choice(['', ' ', ',', ' ,', ',,', 'a,,b', ',a', 'a, ,b', 'x:', ':', '::', 'x:2:', 'a:2 :', 'x::3',
                         'x:(', 'ab:(', 'x:+5', '3:+5', ':-3', '-5:-2', '1_0:+1_2', 'x:1_', r'\,', r'x\ ', r'\:',
                         'x:a:', '(:', 'x(:)', 'a b,', 'a ,, b', '5:', 'x:y:', ':a:', 'x :2', 'x: 2'])

    def string(self):
        for _ in range(50):
            k = self.rng.random()
            if k < 0.45:
                s, kind = self.structured(), 'structured'
            elif k < 0.65:
                s, kind = self.mutate(self.structured()), 'mutated'
            elif k < 0.93:
                s, kind = self.random(), 'random'
            else:
                s, kind = self.malformed(), 'malformed'
            if not too_big(s):
                return s, kind
        return 'x', 'structured'

    def words(self, k=None, tcomma=None):
        """pattern assembled from k intended names: (pattern, [names], trailing comma?).  A name is made of
        letters / digits / '_' and of blanks, commas and colons written as escapes, so that by construction it is
        ONE name without a range; names are joined by non-empty blank runs; the whole is padded with blanks"""
        r = self.rng
        if k is None:
            k = r.choice([0, 1, 1, 1, 1, 1, 2, 2, 3])
        names, texts = [], []
        for _ in range(k):
            n = r.choice([1, 1, 2, 3, 4])
            name, text = '', ''
            for j in range(n):
                q = r.random()
                if q < 0.62:
                    ch = r.choice(LETTERS + '_' + DIGITS)
                    name += ch
                    text += ch
                else:
                    ch = r.choice(' ' * 4 + ',' * 2 + ':' * 2)
                    name += ch
                    text += '\\' + ch
            names.append(name)
            texts.append(text)
        ws = [' ', ' ', ' ', '  ', '\t', ' \n', '   ']
        pad = lambda: r.choice(['', '', '', ' ', '  ', '\t', ' \n '])
        out = pad() + ''.join(t + (r.choice(ws) if i + 1 < len(texts) else '') for i, t in enumerate(texts))
        if tcomma is None:
            tcomma = r.random() < 0.08
        if tcomma:
            out += pad() + ','
        out += pad()
        return out, names, tcomma

    def pattern(self, depth=0):
        r = self.rng
        if depth >= 3 or r.random() < (0.0 if depth == 0 else 0.65):
            return self.string()[0]
        n = r.choice([0, 1, 2, 2, 3])
        items = [self.pattern(depth + 1) for _ in range(n)]
        return items if r.random() < 0.5 else tuple(items)


SEQS = [('none', {}), ('true', {'seq': True}), ('false', {'seq': False})]


def features(s):
    f = []
    if ':' in s:
        f.append('range')
    if re.search(r'[0-9]*:[0-9]', s):
        f.append('range-num')
    if re.search(r':[a-zA-Z]', s):
        f.append('range-alpha')
    if re.search(r'\(\w?:\w\)', s):
        f.append('paren')
    if '\\' in s:
        f.append('escape')
    if ',' in s:
        f.append('comma')
    if re.search(r'\S\s+\S', s):
        f.append('blank')
    return f


def call(f, *a, **k):
    try:
        return ('ok', f(*a, **k))
    except Exception as e:   # noqa
        return ('err', e)


# --------------------------------------------------------------------------- spaces

class Spaces:
    def __init__(self):
        from sympde.topology import Square, ScalarFunctionSpace, VectorFunctionSpace
        self.dom = Square('OmegaC20')
        self.S = [ScalarFunctionSpace('V%d' % i, self.dom) for i in range(3)]
        self.V = [VectorFunctionSpace('W%d' % i, self.dom) for i in range(3)]

    def ser(self, sp):
        from sympde.topology.space import ProductSpace
        if isinstance(sp, ProductSpace):
            return [A('product')] + [self.ser(c) for c in sp.spaces]
        return [A('scalar' if sp in self.S else 'vector'), str(sp.name)]

    def ser_comps(self, comps):
        """serialisation of the product of the given component spaces, from the construction (not from the object)"""
        return [A('product')] + [[A('scalar' if c in self.S else 'vector'), str(c.name)] for c in comps]

    def comps(self, sser):
        """the component spaces a serialised product space was built from (None for a scalar / vector space):
        what the space is *meant* to be, independent of what ProductSpace(...) returned"""
        if not (isinstance(sser, list) and sser and str(sser[0]) == 'product'):
            return None
        by_name = {str(x.name): x for x in self.S + self.V}
        return [by_name[str(c[1])] for c in sser[1:]]

    def one(self):
        """product spaces with exactly ONE component (scalar, vector, and the product of such a product):
        (space, serialisation, [component])"""
        from sympde.topology.space import ProductSpace
        out = []
        for c, wrap in ((self.S[1], 1), (self.V[1], 1), (self.S[2], 2)):
            P = ProductSpace(c)
            if wrap == 2:
                P = ProductSpace(P)
            out.append((P, self.ser_comps([c]), [c]))
        return out

    def fixed(self):
        """one scalar, one vector, a 2- and a 3-component product space and the one-component products:
        (space, serialisation, components or None)"""
        prods = [[self.S[0], self.V[0]], [self.S[0], self.V[0], self.S[1]]]
        out = [(self.S[0], self.ser(self.S[0]), None), (self.V[0], self.ser(self.V[0]), None),
               (self.S[0] * self.V[0], self.ser_comps(prods[0]), prods[0]),
               (self.S[0] * self.V[0] * self.S[1], self.ser_comps(prods[1]), prods[1])]
        return out + self.one()

    def random(self, rng):
        """(space object, serialised space); the serialisation of a product is that of the components it was
        built from (sp.comps(ser) gives them back)"""
        from sympde.topology.space import ProductSpace
        k = rng.random()
        if k < 0.25:
            s = rng.choice(self.S)
            return s, [A('scalar'), str(s.name)]
        if k < 0.45:
            s = rng.choice(self.V)
            return s, [A('vector'), str(s.name)]
        if k < 0.5:
            return rng.choice([None, 'V', 3]), A('notspace')
        n = rng.choice([1, 2, 2, 2, 3, 4])
        comps = [rng.choice(self.S + self.V) for _ in range(n)]
        P = ProductSpace(*comps)
        return P, self.ser_comps(comps)

    def names_for(self, g, rng, space, comps=None):
        """a pattern that mostly fits the shape of the space (comps: the components of a product space)"""
        from sympde.topology.space import ProductSpace
        if comps is None and isinstance(space, ProductSpace):
            comps = list(space.spaces)
        if comps is not None and rng.random() < 0.8:
            n = len(comps) + rng.choice([0, 0, 0, 0, 0, -1, 1])
            k = rng.random()
            base = rng.choice('uvwpq')
            if k < 0.3:
                return '%s:%d' % (base, max(0, n))
            if k < 0.6:
                s = ', '.join('%s%d' % (base, i) for i in range(max(1, n)))
                if n <= 1 and rng.random() < 0.7:
                    # one name for one component: a singleton needs the trailing comma / a one-name range
                    s = rng.choice([s + ',', s + ' ,', ' %s, ' % s, '%s(%d:%d)' % (base, n, n + 1), '%s_:1' % base])
                return s
            if k < 0.8:
                cont = [rng.choice(['%s%d' % (base, i), '%s%d_:2' % (base, i), '%s%d(:3)' % (base, i)]) for i in range(max(1, n))]
                return cont if rng.random() < 0.5 else tuple(cont)
            return g.pattern()
        k = rng.random()
        if comps is not None:
            # blank-separated lists with escapes, about as many names as components
            if k < 0.6:
                kk = max(0, len(comps) + rng.choice([0, 0, 0, 0, -1, 1]))
                return g.words(kk, tcomma=(rng.random() < 0.6) if kk == 1 else None)[0]
            return g.pattern()
        if k < 0.2:
            return rng.choice('uvwpq') + rng.choice(['', '1', '_a', ':3', ':2, q', ', r, s'])
        if k < 0.3:
            return [rng.choice(['u', 'v:2', 'w, z', 'p_(a:c)']) for _ in range(rng.choice([1, 2, 3]))]
        if k < 0.6:
            return g.words()[0]            # the single-name entry point: blanks, escapes, empty patterns
        if k < 0.75:
            return g.string()[0]
        return g.pattern()


# --------------------------------------------------------------------------- correspondence

def correspondence(ctx):
    from sympy import symbols
    from sympde.core.utils import expand_name_patterns
    from sympde.topology import element_of, elements_of
    c = Corr()
    rng = ctx.rng
    g = Gen(rng)
    n_str = 40000 if ctx.thorough else 5000
    n_nest = 8000 if ctx.thorough else 1000
    n_split = 20000 if ctx.thorough else 3000
    n_elem = 12000 if ctx.thorough else 1500
    n_words = 8000 if ctx.thorough else 1000
    cases = []     # (kind, line, impl, extra)

    # T2: the constants the model was written for are those of the current source
    src_rng, src_lits = source_constants(ctx.repo)
    cases.append(('consts', 'C20 consts', 'ok ' + dumps([src_rng or '<not found>'] + list(src_lits or [])), None))
    try:
        rx = re.compile(src_rng)
    except Exception:
        rx = None

    # (a) the scanner against re.split with the extracted regular expression
    for _ in range(n_split):
        s = rng.choice([g.item, g.item, g.random, lambda: g.mutate(g.item())])()
        if rx is None:
            break
        impl = 'ok ' + dumps([S(x) for x in rx.split(s)])
        cases.append(('split', 'C20 split ' + dumps(S(s)), impl, s))

    # (b) pattern strings, three-way
    def one(p, kind):
        for sname, kw in SEQS + ([('bad', {'seq': rng.choice(['yes', 1, 0, None.__class__])})] if rng.random() < 0.08 else []):
            if sname != 'none' and rng.random() < 0.4:
                continue
            r = call(expand_name_patterns, p, **kw)
            impl = ('ok ' + dumps(ser_names(r[1]))) if r[0] == 'ok' else err_of(r[1])
            if sname == 'bad':
                sy = None
            else:
                sr = call(symbols, p, **kw)
                sy = ('ok', ser_symbols(sr[1])) if sr[0] == 'ok' else ('err', type(sr[1]).__name__)
            cases.append(('expand', 'C20 expand %s %s' % (sname, dumps(ser_pat(p))), impl, (p, sname, kind, sy)))

    for _ in range(n_str):
        s, kind = g.string()
        one(s, kind)
    for _ in range(n_nest):
        p = g.pattern()
        if isinstance(p, str):
            p = [p]
        one(p, 'nested')
    for _ in range(n_words):
        one(g.words()[0], 'words')
    for p, _ in ELEM_FIXED:
        one(p, 'words')

    # (c) element_of / elements_of
    sp = Spaces()

    def elem_case(space, sser, p):
        for op, f in (('elem', element_of), ('elems', elements_of)):
            r = call(f, space, p)
            try:
                impl = ('ok ' + dumps(ser_elem(r[1]))) if r[0] == 'ok' else err_of(r[1])
            except TypeError as e:
                impl = 'unserialisable %s' % e
            cases.append((op, 'C20 %s %s %s' % (op, dumps(sser), dumps(ser_pat(p))), impl, (p, sser)))

    # the single-name entry point on a fixed scalar, vector and two product spaces
    # and on the one-component products (there a singleton container / one-name range is the fitting shape)
    for space, sser, comps in sp.fixed():
        for p, _ in ELEM_FIXED:
            elem_case(space, sser, p)
        for p, _, _ in ONE_FIXED:
            elem_case(space, sser, p)
        for _ in range(n_words // 10):
            if comps is not None and len(comps) == 1:
                elem_case(space, sser, g.words(rng.choice([1, 1, 1, 0, 2]), tcomma=rng.random() < 0.6)[0])
            else:
                elem_case(space, sser, g.words()[0])
    for _ in range(n_elem):
        space, sser = sp.random(rng)
        p = sp.names_for(g, rng, space, sp.comps(sser))
        if isinstance(p, str) and too_big(p):
            continue
        elem_case(space, sser, p)

    outs = ctx.driver.run([x[1] for x in cases])
    seen = set()
    for (kind, line, impl, extra), out in zip(cases, outs):
        c.evaluations += 1
        c.count('kind:' + kind)
        if kind == 'consts':
            if out != impl:
                c.disagreements.append({'input': line, 'impl': impl, 'model': out,
                                        'note': 'the _range regex / literals list of sympde/core/utils.py differ from the constants the Lean model transcribes'})
            continue
        if out != impl:
            c.disagreements.append({'input': {'line': line, 'pattern': extra if kind == 'split' else extra[0],
                                              'seq': extra[1] if kind == 'expand' else None, 'op': kind},
                                    'impl': impl, 'model': out, 'note': kind})
        if kind == 'split':
            if len(out) > len('ok ((s))') + 2 * len(extra):
                pass
            if ':' in extra:
                c.nontrivial.add(line)
            continue
        if kind == 'expand':
            p, sname, skind, sy = extra
            c.count('gen:' + skind)
            c.count('seq:' + sname)
            c.count('impl:' + (impl if impl.startswith('err') else 'ok'))
            if isinstance(p, str):
                fs = features(p)
                for f in fs:
                    c.count('feature:' + f)
                if fs:
                    c.nontrivial.add(line)
            else:
                c.nontrivial.add(line)
            # third leg: sympy.symbols
            if sy is not None:
                if sy[0] == 'err':
                    ok3 = impl.startswith('err ' + sy[1])
                elif not impl.startswith('ok '):
                    ok3 = False
                elif isinstance(p, str) or sname == 'none':
                    ok3 = impl == 'ok ' + dumps(sy[1])
                else:   # container with explicit seq: documented deviation, names only
                    from harness.sexp import loads
                    ok3 = [tuple(int(v) for v in t) for t in flat(loads(impl[3:]))] == [tuple(t) for t in flat(sy[1])]
                c.count('sympy:' + ('agree' if ok3 else 'DISAGREE'))
                if not ok3:
                    c.disagreements.append({'input': {'line': line, 'pattern': p, 'seq': sname, 'op': 'expand'}, 'impl': impl,
                                            'model': 'sympy.symbols: ' + (dumps(sy[1]) if sy[0] == 'ok' else sy[1]),
                                            'note': 'sympde vs sympy.symbols'})
            if len(c.samples) < 6 and isinstance(p, str) and len(features(p)) >= 3 and line not in seen:
                seen.add(line)
                c.samples.append({'pattern': p, 'seq': sname, 'impl': impl if impl.startswith('err') else show_out(impl), 'model_agrees': out == impl})
        else:
            p, sser = extra
            c.count('%s:%s' % (kind, impl if impl.startswith('err') else 'ok'))
            c.count('space:' + (str(sser[0]) if isinstance(sser, list) else 'notspace'))
            if isinstance(sser, list) and str(sser[0]) == 'product':
                c.count('product-components:%d' % (len(sser) - 1))
            c.nontrivial.add(line)
    return c


def show_out(impl):
    from harness.sexp import loads
    try:
        return show(loads(impl[3:]))
    except Exception:
        return impl


# --------------------------------------------------------------------------- oracle

def names_of(r):
    """sympy result -> nested structure of names"""
    from sympy import Symbol
    if isinstance(r, Symbol):
        return r.name
    return type(r)(names_of(x) for x in r)


def flat_py(r):
    if isinstance(r, str):
        return [r]
    out = []
    for x in r:
        out += flat_py(x)
    return out


def check_pattern(o, p, kw, expand, symbols):
    """sympy.symbols is the reference; returns a failure description or None"""
    a = call(expand, p, **kw)
    b = call(symbols, p, **kw)
    key = 'expand:%s:%r' % (sorted(kw.items()), p)
    if b[0] == 'err':
        if a[0] == 'ok':
            return key, 'expand_name_patterns(%r, %s) = %r but sympy.symbols raises %s' % (p, kw, a[1], type(b[1]).__name__)
        if type(a[1]) is not type(b[1]):
            return key, 'expand_name_patterns(%r, %s) raises %s, sympy.symbols raises %s' % (p, kw, type(a[1]).__name__, type(b[1]).__name__)
        o.count('refused-by-both')
        return None
    want = names_of(b[1])
    if a[0] == 'err':
        return key, 'expand_name_patterns(%r, %s) raises %s(%s) but sympy.symbols gives %r' % (p, kw, type(a[1]).__name__, a[1], want)
    got = a[1]
    if isinstance(p, str) or 'seq' not in kw:
        if got != want or type(got) is not type(want):
            return key, 'expand_name_patterns(%r, %s) = %r, sympy.symbols gives %r' % (p, kw, got, want)
    else:
        if flat_py(got) != flat_py(want):
            return key, 'expand_name_patterns(%r, %s) names %r, sympy.symbols names %r' % (p, kw, flat_py(got), flat_py(want))
        w2 = names_of(symbols(p))
        if got != w2:
            return key, 'expand_name_patterns(%r, %s) = %r, expected the nesting of symbols(names) = %r' % (p, kw, got, w2)
        if got != want:
            # explained by the open finding C20-container-seq-nesting (reported from the fixed witness)
            o.count('container-seq:nesting-differs-from-sympy(known finding)')
    o.count('agree:' + ('str' if isinstance(p, str) else 'container'))
    return None


def space_label(space, comps=None):
    """name used in keys / messages; a one-component product is told apart from its component"""
    if comps is not None and len(comps) == 1:
        return 'prod(%s)' % comps[0].name
    return str(space.name)


def check_elements(o, space, p, plural, f, symbols, comps=None):
    """names / nesting / component spaces of the created functions against sympy.symbols.
    comps: the component spaces the product space was built from (the shape the caller intends; for a space
    made by the harness it is not read back from the object)"""
    from sympde.topology.space import (ProductSpace, ScalarFunctionSpace, VectorFunctionSpace, ScalarFunction,
                                       VectorFunction)
    fname = 'elements_of' if plural else 'element_of'
    sname = space_label(space, comps)
    key = '%s:%s:%r' % (fname, sname, p)
    ref = call(symbols, p, seq=True) if (plural and isinstance(p, str)) else call(symbols, p)
    got = call(f, space, p)
    if ref[0] == 'err':
        if got[0] == 'ok':
            return key, '%s(%s, %r) succeeded although sympy.symbols refuses the pattern (%s)' % (fname, sname, p, type(ref[1]).__name__)
        if type(got[1]) is not type(ref[1]):
            return key, '%s(%s, %r) raises %s, sympy.symbols raises %s' % (fname, sname, p, type(got[1]).__name__, type(ref[1]).__name__)
        o.count(fname + ':refused-pattern')
        return None
    names = names_of(ref[1])

    def is_fn(x, sp, name):
        cls = ScalarFunction if isinstance(sp, ScalarFunctionSpace) else VectorFunction
        return type(x) is cls and x.name == name and x.space is sp

    def parts(sp, top):
        if top and comps is not None:
            return list(comps)
        return list(sp.spaces) if isinstance(sp, ProductSpace) else None

    def expect(sp, ns, top):
        """returns ('ok', predicate) / ('refuse',) / ('skip',) for the shape (space, names)"""
        cs = parts(sp, top)
        if isinstance(ns, str):
            if cs is not None:
                return ('refuse',)
            return ('ok', lambda x: is_fn(x, sp, ns))
        if cs is not None:
            if len(ns) != len(cs):
                return ('skip',)
            subs = [expect(s, n, False) for s, n in zip(cs, ns)]
            if any(s[0] == 'skip' for s in subs):
                return ('skip',)
            if any(s[0] == 'refuse' for s in subs):
                return ('refuse',)
            return ('ok', lambda x: type(x) is type(ns) and len(x) == len(ns) and all(s[1](y) for s, y in zip(subs, x)))
        if not plural:
            return ('refuse',)
        subs = [expect(sp, n, False) for n in ns]
        if any(s[0] == 'skip' for s in subs):
            return ('skip',)
        if any(s[0] == 'refuse' for s in subs):
            return ('refuse',)
        return ('ok', lambda x: type(x) is type(ns) and len(x) == len(ns) and all(s[1](y) for s, y in zip(subs, x)))

    e = expect(space, names, True)
    if e[0] == 'skip':
        o.count(fname + ':length-mismatch-not-judged')
        return None
    if e[0] == 'refuse':
        if got[0] == 'ok':
            return key, '%s(%s, %r) = %r although names %r do not fit the space' % (fname, sname, p, got[1], names)
        o.count(fname + ':refused-shape')
        return None
    if got[0] == 'err':
        return key, '%s(%s, %r) raises %s(%s); expected functions named %r' % (fname, sname, p, type(got[1]).__name__, got[1], names)
    if not e[1](got[1]):
        def desc(x):
            if isinstance(x, (list, tuple)):
                return type(x)(desc(y) for y in x)
            return '%s:%s in %s' % (type(x).__name__, getattr(x, 'name', '?'), getattr(getattr(x, 'space', None), 'name', '?'))
        return key, '%s(%s, %r) = %r; expected names/nesting %r with component spaces %s' % (
            fname, sname, p, desc(got[1]), names,
            [s.name for s in parts(space, True)] if parts(space, True) is not None else space.name)
    o.count(fname + ':ok')
    if comps is not None and len(comps) == 1:
        o.count(fname + ':ok:one-component-product')
    return None


FIXED = ['x', 'x,', 'x y', 'x, y', 'x:3', 'x1:4', ':c', 'a:c', 'X:b', 'x:2(1:3)', 'x((a:b))', 'x(:2)y(:2)',
         'x:2:2', 'a:b:2', 'x\\,y', 'x\\:2', 'u\\ v w', 'x:0', 'x:0,y', 'y:b', 'x:', ':', '', ',', 'a,,b',
         'x5:3', 'x:10', 'x(1:3)', '(x:2)', 'x(a:c)_:2', 'A:C', 'z:B', ':3', '2:4', 'x:a', 'a :c', 'p(0:2)(a:b)q']


# single-name entry point: (pattern, expected element_of on a scalar / vector space), worked out by hand:
# a name, or the exception class
ELEM_FIXED = [('u', 'u'), ('  u ', 'u'), ('\tu\n', 'u'), ('u\\ v', 'u v'), ('u\\,v', 'u,v'), ('p\\:q', 'p:q'),
              ('a\\ b\\ c', 'a b c'), (' a\\ b ', 'a b'), ('\\ ', ' '), ('u\\ ', 'u '), ('\\,\\:', ',:'),
              ('x\\:2', 'x:2'), ('u_1', 'u_1'), ('u(1)', 'u(1)'),
              ('u v', ValueError), ('u  v w', ValueError), ('u\tv', ValueError), ('u,v', ValueError), ('u:2', ValueError),
              ('u,', ValueError), ('u ,', ValueError), ('u:1', ValueError), ('u\\ v w', ValueError),
              ('', ValueError), (' ', ValueError), ('   ', ValueError), ('\t\n', ValueError), (',', ValueError),
              (' , ', ValueError), ('u:', ValueError), ('u,,v', ValueError)]


# product spaces with ONE component: (pattern, expected element_of, expected elements_of), worked out by hand from
# space.py:43-123: the result is the container of the names (same type) holding one entry for the one component —
# a function of that component for a name, for elements_of a container of such functions for a container;
# otherwise the exception class (Exception: any error — ProductSpace.element is not implemented)
ONE_FIXED = [('u,', ('u',), ('u',)), ('u ,', ('u',), ('u',)), (' u , ', ('u',), ('u',)), ('\tu,\n', ('u',), ('u',)),
             (['u'], ['u'], ['u']), (('w',), ('w',), ('w',)), ([' u '], ['u'], ['u']),
             ('w:1', ('w0',), ('w0',)), ('x0:1', ('x0',), ('x0',)), ('q(3:4)', ('q3',), ('q3',)), ('q_(3:4)', ('q_3',), ('q_3',)),
             ('a:a', ('a',), ('a',)), (':a', ('a',), ('a',)), ('p(b:b)', ('pb',), ('pb',)), ('w:1,', ('w0',), ('w0',)),
             ('u\\ v,', ('u v',), ('u v',)), (['u\\,v'], ['u,v'], ['u,v']), (('p\\:q',), ('p:q',), ('p:q',)),
             ('u', Exception, ('u',)), ('u\\ v', Exception, ('u v',)), ('  u ', Exception, ('u',)),
             (['u:1'], ValueError, [('u0',)]), (['u,'], ValueError, [('u',)]), ([('u',)], ValueError, [('u',)]),
             ([['u', 'v']], ValueError, [['u', 'v']]), (('a:c',), ValueError, (('a', 'b', 'c'),)),
             ('', ValueError, ValueError), (',', ValueError, ValueError), ([''], ValueError, ValueError), ('u:', ValueError, ValueError)]


def fn_in(x, sp, name):
    from sympde.topology.space import ScalarFunctionSpace, ScalarFunction, VectorFunction
    cls = ScalarFunction if isinstance(sp, ScalarFunctionSpace) else VectorFunction
    return type(x) is cls and x.name == name and x.space is sp


def desc_elem(x):
    if isinstance(x, (list, tuple)):
        return type(x)(desc_elem(y) for y in x)
    if isinstance(x, Exception):
        return '%s(%s)' % (type(x).__name__, x)
    return '%s:%r in %s' % (type(x).__name__, getattr(x, 'name', '?'), getattr(getattr(x, 'space', None), 'name', '?'))


def check_one(o, P, comp, p, want, plural, f, symbols):
    """one fixed case on the one-component product P of comp; returns (key, what) or None"""
    fname = 'elements_of' if plural else 'element_of'
    label = space_label(P, [comp])
    key = 'one-fixed:%s:%s:%r' % (fname, label, p)

    def match(x, w):
        if isinstance(w, str):
            return fn_in(x, comp, w)
        return type(x) is type(w) and len(x) == len(w) and all(match(y, v) for y, v in zip(x, w))

    if not isinstance(want, type):
        # the hand-made expectation is what sympy.symbols names
        ref = call(symbols, p, seq=True) if (plural and isinstance(p, str)) else call(symbols, p)
        if ref[0] != 'ok' or names_of(ref[1]) != want or type(names_of(ref[1])) is not type(want):
            return 'one-fixed-reference:%s:%r' % (fname, p), 'the hand-made expectation %r for the pattern %r (%s) does not agree with sympy.symbols (%r)' % (
                want, p, fname, ref[1])
    r = call(f, P, p)
    if isinstance(want, type):
        ok = r[0] == 'err' and isinstance(r[1], want)
        wtxt = want.__name__ if want is not Exception else 'an error'
    else:
        ok = r[0] == 'ok' and type(r[1]) is type(want) and len(r[1]) == 1 and match(r[1], want)
        wtxt = 'the %s %r of function(s) in the component %s' % (type(want).__name__, want, comp.name)
    if not ok:
        return key, '%s(%s, %r) = %s; %s is the product space with the single component %s: expected %s' % (
            fname, label, p, desc_elem(r[1]), label, comp.name, wtxt)
    o.count('one-fixed:%s:%s' % (fname, 'ok' if r[0] == 'ok' else 'refused'))
    return None


def check_words(o, spaces, pat, names, tcomma, expand, element_of, elements_of):
    """the pattern was assembled from the intended names: the expected results follow from the construction
    alone (neither sympy nor the model is consulted).  spaces: (space, components the product was built from or
    None).  Returns a list of (key, what, op)"""
    from sympde.topology.space import ProductSpace, ScalarFunctionSpace, ScalarFunction, VectorFunction
    bad = []
    k = len(names)

    def fn_ok(x, sp, name):
        cls = ScalarFunction if isinstance(sp, ScalarFunctionSpace) else VectorFunction
        return type(x) is cls and x.name == name and x.space is sp

    def desc(x):
        if isinstance(x, (list, tuple)):
            return type(x)(desc(y) for y in x)
        if isinstance(x, Exception):
            return '%s(%s)' % (type(x).__name__, x)
        return '%s:%r in %s' % (type(x).__name__, getattr(x, 'name', '?'), getattr(getattr(x, 'space', None), 'name', '?'))

    # expand_name_patterns
    for kw in ({}, {'seq': True}, {'seq': False}):
        r = call(expand, pat, **kw)
        seq = kw.get('seq', tcomma)
        if k == 0:
            ok = r[0] == 'err' and type(r[1]) is ValueError
            want = 'ValueError'
        elif k == 1 and not seq:
            ok = r[0] == 'ok' and r[1] == names[0]
            want = repr(names[0])
        else:
            ok = r[0] == 'ok' and r[1] == tuple(names)
            want = repr(tuple(names))
        if not ok:
            bad.append(('words-expand:%s:%r' % (sorted(kw.items()), pat),
                        'expand_name_patterns(%r, %s) = %s; the pattern is made of the %d name(s) %r%s: expected %s' % (
                            pat, kw, desc(r[1]) if r[0] == 'err' else repr(r[1]), k, names, ' and a trailing comma' if tcomma else '', want), 'expand'))
        else:
            o.count('words:expand')
    for sp, comps in spaces:
        prod = comps is not None
        sname = space_label(sp, comps)
        # element_of: exactly one name for a scalar / vector space, as many names as components for a product
        r = call(element_of, sp, pat)
        if not prod:
            if k == 1 and not tcomma:
                ok, want = (r[0] == 'ok' and fn_ok(r[1], sp, names[0])), 'the function named %r' % names[0]
            else:
                ok, want = (r[0] == 'err' and type(r[1]) is ValueError), 'ValueError (%d names%s)' % (k, ', trailing comma' if tcomma else '')
        elif k == 0:
            ok, want = (r[0] == 'err' and type(r[1]) is ValueError), 'ValueError (no name)'
        elif k == 1 and not tcomma:
            ok, want = r[0] == 'err', 'an error (one bare name for a product space)'
        elif k == len(comps):
            ok = r[0] == 'ok' and type(r[1]) is tuple and len(r[1]) == k and all(fn_ok(x, c, n) for x, c, n in zip(r[1], comps, names))
            want = 'the tuple of functions named %r in %s' % (names, [c.name for c in comps])
        else:
            ok, want = None, ''     # zip() truncates: documented, not judged
        if ok is None:
            o.count('words:length-mismatch-not-judged')
        elif not ok:
            bad.append(('words-element_of:%s:%r' % (sname, pat), 'element_of(%s, %r) = %s; the pattern is made of the %d name(s) %r%s: expected %s' % (
                sname, pat, desc(r[1]), k, names, ' and a trailing comma' if tcomma else '', want), 'elem'))
        else:
            o.count('words:element_of:' + ('ok' if r[0] == 'ok' else 'refused'))
        # elements_of: one function per name, always a tuple
        r = call(elements_of, sp, pat)
        if k == 0:
            ok, want = (r[0] == 'err' and type(r[1]) is ValueError), 'ValueError (no name)'
        elif not prod:
            ok = r[0] == 'ok' and type(r[1]) is tuple and len(r[1]) == k and all(fn_ok(x, sp, n) for x, n in zip(r[1], names))
            want = 'the tuple of %d function(s) named %r' % (k, names)
        elif k == len(comps):
            ok = r[0] == 'ok' and type(r[1]) is tuple and len(r[1]) == k and all(fn_ok(x, c, n) for x, c, n in zip(r[1], comps, names))
            want = 'the tuple of functions named %r in %s' % (names, [c.name for c in comps])
        else:
            ok = None
        if ok is None:
            o.count('words:length-mismatch-not-judged')
        elif not ok:
            bad.append(('words-elements_of:%s:%r' % (sname, pat), 'elements_of(%s, %r) = %s; the pattern is made of the %d name(s) %r: expected %s' % (
                sname, pat, desc(r[1]), k, names, want), 'elems'))
        else:
            o.count('words:elements_of:' + ('ok' if r[0] == 'ok' else 'refused'))
    return bad


def oracle(ctx, factor, seeds):
    from sympy import symbols
    from sympde.core.utils import expand_name_patterns
    from sympde.topology import element_of, elements_of
    from sympde.topology.space import ProductSpace, ScalarFunction, VectorFunction
    o = Oracle()
    rng = ctx.rng
    g = Gen(rng)
    n = (30000 if ctx.thorough else 4000) * factor
    pats = list(FIXED)
    for s in seeds or []:
        if isinstance(s, dict) and s.get('op') in ('expand', 'elem', 'elems') and s.get('pattern') is not None:
            pats.append(s['pattern'])
    for _ in range(n):
        if rng.random() < 0.12:
            p = g.pattern()
        else:
            p = g.string()[0]
        pats.append(p)
    for p in pats:
        for kw in ({}, {'seq': True}, {'seq': False}):
            o.evaluations += 1
            bad = check_pattern(o, p, kw, expand_name_patterns, symbols)
            if bad:
                o.fail(bad[0], bad[1], pattern=p, kw=kw, op='expand')
        if len(o.samples) < 3 and isinstance(p, str) and ':' in p and ',' in p:
            r = call(expand_name_patterns, p)
            o.samples.append({'pattern': p, 'sympde': repr(r[1]), 'sympy': repr(call(symbols, p)[1])})
    # order / length formulas on explicit product patterns
    for _ in range((300 if ctx.thorough else 80) * factor):
        a, b, cc = rng.randint(0, 5), rng.randint(0, 5), rng.randint(0, 3)
        l1, l2 = rng.choice('xyz'), rng.choice('pq')
        p = '%s:%d%s%d:%d' % (l1, a, l2, cc, b)
        want = tuple('%s%d%s%d' % (l1, i, l2, j) for i in range(a) for j in range(cc, b))
        o.evaluations += 1
        r = call(expand_name_patterns, p)
        if r[0] != 'ok' or tuple(r[1]) != want:
            o.fail('product:' + p, 'expand_name_patterns(%r) = %r, expected the lexicographic product %r' % (p, r[1], want), pattern=p, kw={}, op='expand')
        else:
            o.count('product-order')
    # open finding C20-container-seq-nesting (fixed witness): seq is not passed on to the items of a container
    o.evaluations += 1
    wit = ['x', 'y']
    got, ref = call(expand_name_patterns, wit, seq=True), call(symbols, wit, seq=True)
    if got[0] == 'ok' and ref[0] == 'ok' and got[1] != names_of(ref[1]):
        if flat_py(got[1]) == flat_py(names_of(ref[1])) and got[1] == names_of(symbols(wit)):
            o.fail('container-seq:nesting', 'expand_name_patterns(%r, seq=True) = %r, sympy.symbols gives %r (same names; seq is not '
                   'passed on to the items of a container)' % (wit, got[1], names_of(ref[1])), pattern=wit, kw={'seq': True}, op='expand')
        else:
            o.fail('container-seq:other', 'expand_name_patterns(%r, seq=True) = %r, sympy.symbols gives %r' % (wit, got[1], names_of(ref[1])),
                   pattern=wit, kw={'seq': True}, op='expand')
    elif got[0] != ref[0]:
        o.fail('container-seq:other', 'expand_name_patterns(%r, seq=True) -> %r, sympy.symbols -> %r' % (wit, got[1], ref[1]),
               pattern=wit, kw={'seq': True}, op='expand')
    else:
        o.count('container-seq:agrees-with-sympy')

    # element_of / elements_of
    sp = Spaces()
    fixed3 = sp.fixed()
    fixed_spaces = [(x, cs) for x, _, cs in fixed3]       # (space, components it was built from / None)
    simple = [x for x, _ in fixed_spaces[:2]]
    ones = [(x, cs[0]) for x, cs in fixed_spaces if cs is not None and len(cs) == 1]

    def where(space, comps):
        return [c.name for c in comps] if comps is not None else space.name

    # (i') product spaces with one component: the fitting names are a singleton container / a pattern denoting a
    # 1-tuple; expectations by hand, cross-checked against sympy.symbols, then every fixed space against sympy
    for p, want1, wantn in ONE_FIXED:
        for P, comp in ones:
            for plural, f, want in ((False, element_of, want1), (True, elements_of, wantn)):
                o.evaluations += 1
                bad = check_one(o, P, comp, p, want, plural, f, symbols)
                if bad:
                    o.fail(bad[0], bad[1], pattern=p, op='elems' if plural else 'elem', space=[comp.name])
        for space, comps in fixed_spaces:
            for plural, f in ((False, element_of), (True, elements_of)):
                o.evaluations += 1
                bad = check_elements(o, space, p, plural, f, symbols, comps)
                if bad:
                    o.fail(bad[0], bad[1], pattern=p, op='elems' if plural else 'elem', space=where(space, comps))
    # (i) the single-name entry point, expectations worked out by hand (element_of on a scalar and a vector space)
    for p, want in ELEM_FIXED:
        ref = call(symbols, p)
        for space in simple:
            o.evaluations += 1
            r = call(element_of, space, p)
            if isinstance(want, str):
                cls = ScalarFunction if space is simple[0] else VectorFunction
                ok = r[0] == 'ok' and type(r[1]) is cls and r[1].name == want and r[1].space is space
                # and sympy reads the pattern as that one name
                ok_ref = ref[0] == 'ok' and names_of(ref[1]) == want
            else:
                ok = r[0] == 'err' and type(r[1]) is want
                ok_ref = (ref[0] == 'err' and type(ref[1]) is want) or (ref[0] == 'ok' and not isinstance(names_of(ref[1]), str))
            if not ok_ref:
                o.fail('elem-fixed-reference:%r' % p, 'the hand-made expectation %r for the pattern %r does not agree with sympy.symbols (%r)' % (
                    want, p, ref[1]), pattern=p, op='elem')
            elif not ok:
                o.fail('elem-fixed:%s:%r' % (space.name, p), 'element_of(%s, %r) = %s; expected %s (sympy.symbols(%r) = %r)' % (
                    space.name, p, ('%s named %r' % (type(r[1]).__name__, getattr(r[1], 'name', None))) if r[0] == 'ok' else '%s(%s)' % (type(r[1]).__name__, r[1]),
                    ('one function named %r' % want) if isinstance(want, str) else want.__name__, p,
                    names_of(ref[1]) if ref[0] == 'ok' else type(ref[1]).__name__), pattern=p, op='elem', space=space.name)
            else:
                o.count('elem-fixed:' + ('ok' if isinstance(want, str) else 'refused'))
        for space, comps in fixed_spaces:
            for plural, f in ((False, element_of), (True, elements_of)):
                o.evaluations += 1
                bad = check_elements(o, space, p, plural, f, symbols, comps)
                if bad:
                    o.fail(bad[0], bad[1], pattern=p, op='elems' if plural else 'elem', space=where(space, comps))
    # (ii) patterns assembled from intended names: by construction, and against sympy.symbols
    for i in range((6000 if ctx.thorough else 800) * factor):
        if i % 4 == 0:
            spaces = fixed_spaces
        else:
            spaces = [(x, sp.comps(ser)) for x, ser in (sp.random(rng) for _ in range(2))]
        spaces = [(x, cs) for x, cs in spaces if hasattr(x, 'name')]
        k, tc = None, None
        if spaces and spaces[0][1] is not None and rng.random() < 0.5:
            k = len(spaces[0][1])
        elif any(cs is not None and len(cs) == 1 for _, cs in spaces) and rng.random() < 0.5:
            k = 1
        if k == 1:
            tc = rng.random() < 0.6      # one name + trailing comma: the 1-tuple a one-component product needs
        pat, names, tcomma = g.words(k, tcomma=tc)
        o.evaluations += 3 + 2 * len(spaces)
        for key, what, op in check_words(o, spaces, pat, names, tcomma, expand_name_patterns, element_of, elements_of):
            o.fail(key, what, pattern=pat, op=op, names=names)
        for kw in ({}, {'seq': True}, {'seq': False}):
            bad = check_pattern(o, pat, kw, expand_name_patterns, symbols)
            if bad:
                o.fail(bad[0], bad[1], pattern=pat, kw=kw, op='expand')
        for space, comps in spaces:
            for plural, f in ((False, element_of), (True, elements_of)):
                o.evaluations += 1
                bad = check_elements(o, space, pat, plural, f, symbols, comps)
                if bad:
                    o.fail(bad[0], bad[1], pattern=pat, op='elems' if plural else 'elem', space=where(space, comps))
    ne = (8000 if ctx.thorough else 1000) * factor
    extra = [(sp.S[0], None, 'u'), (sp.V[0], None, 'F'), (sp.S[0], None, 'u, v'), (sp.S[0] * sp.V[0], [sp.S[0], sp.V[0]], 'u, F'),
             (sp.S[0] * sp.V[0] * sp.S[1], [sp.S[0], sp.V[0], sp.S[1]], 'p:3'),
             (sp.V[1] * sp.S[2], [sp.V[1], sp.S[2]], ['a:2', 'b:3']), (sp.S[1], None, ['u', 'v:2'])]
    for s in seeds or []:
        if isinstance(s, dict) and s.get('op') in ('elem', 'elems') and s.get('pattern') is not None:
            for spc, cs in fixed_spaces:
                extra.append((spc, cs, s['pattern']))
    for i in range(ne + len(extra)):
        if i < len(extra):
            space, comps, p = extra[i]
        else:
            space, sser = sp.random(rng)
            comps = sp.comps(sser)
            if not hasattr(space, 'name'):
                for f in (element_of, elements_of):
                    o.evaluations += 1
                    r = call(f, space, 'u')
                    if r[0] == 'ok' or not isinstance(r[1], TypeError):
                        o.fail('%s:notspace:%r' % (f.__name__, space), '%s(%r, "u") did not raise TypeError' % (f.__name__, space), op='elem', pattern='u')
                    else:
                        o.count('notspace-refused')
                continue
            p = sp.names_for(g, rng, space, comps)
        if isinstance(p, str) and too_big(p):
            continue
        for plural, f in ((False, element_of), (True, elements_of)):
            o.evaluations += 1
            bad = check_elements(o, space, p, plural, f, symbols, comps)
            if bad:
                o.fail(bad[0], bad[1], pattern=p, op='elems' if plural else 'elem', space=where(space, comps))
        if len(o.samples) < 4 and comps is not None:
            r = call(element_of, space, p)
            o.samples.append({'space': str(space.name), 'pattern': repr(p), 'element_of': repr(r[1])})
    return o


def replay(ctx, path):
    """re-executes the recorded input on the real code and re-evaluates the oracle on it"""
    from sympy import symbols
    from sympde.core.utils import expand_name_patterns
    d = json.load(open(path))
    print(json.dumps(d, indent=1)[:3000])
    det = d.get('detail') or {}
    p = det.get('pattern')
    if p is None:
        return 0
    def thaw(x):
        return x if isinstance(x, str) else [thaw(y) for y in x]
    o = Oracle()
    rc = 0
    for kw in ({}, {'seq': True}, {'seq': False}):
        bad = check_pattern(o, thaw(p), kw, expand_name_patterns, symbols)
        if bad:
            print('REPLAY: still failing:', bad[1])
            rc = 1
    if det.get('op') in ('elem', 'elems'):
        from sympde.topology import element_of, elements_of
        sp = Spaces()
        for space, _, comps in sp.fixed():
            for plural, f in ((False, element_of), (True, elements_of)):
                bad = check_elements(o, space, thaw(p), plural, f, symbols, comps)
                if bad:
                    print('REPLAY: still failing:', bad[1])
                    rc = 1
    if rc == 0:
        print('REPLAY: the recorded input no longer fails')
    return rc
