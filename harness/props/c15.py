"""C15 — exporting a domain and reading it back yields the same topology.

correspondence: Model/Export.lean (NCube constructors, patch domain, Domain.join, todict, from_file,
exportable predicate) against the real classes; the re-import always goes through a real HDF5/YAML
file (Domain.export / Domain.from_file, or a hand-written file for the malformed stream).
oracle: direct structural comparison, on the real code only, of the re-read domain with the
original *and with the generator's own specification*, plus byte comparison of a second export.
"""
import json
import os
import shutil
import tempfile

from harness.common import Corr, Oracle
from harness.sexp import A, dumps

PID = 'C15'
PROPS_MODULE = 'SympdeModel.Props.C15'
RULE = ('random exportable domains: 1-5 (thorough: 1-8) Line/Square/Cube/NCube(4D,5D) patches with random float bounds '
        '(integers, dyadic and decimal fractions, negative, 1e-9..1e12), hygienic unique names (ASCII + a few non-ASCII), '
        'plain / all mapped / mixed / one logical patch under several mappings; joined by Domain.join with random '
        'admissible connection sets (each face at most once, same axis, at most two interfaces per pair of patches, at most one '
        'self-interface per patch, closed rings included), random orientations (2D +-1, 3D sign triples, omitted; a third of them '
        'handed to join as numpy integers / rows of integer arrays / sympy Integers instead of built-in ints); '
        'cases: every constructor call, patch domain, join call (plus a refused stream: axis mismatch, 4D interfaces, int '
        'orientation in 3D, mixed dimensions), todict, exportable check, and export -> real .h5 file -> Domain.from_file; '
        'plus a malformed-file stream (unknown patch, missing dtype, bad axis, boundary written as dict, no orientation entry). '
        'Non-trivial = multi-patch, mapped, non-default orientation, n-cube or refused; distinct by request line')
ASSUMPTIONS = [
    'yaml.dump/yaml.load inside an HDF5 string dataset is the identity on the dictionaries written (exercised with real '
    'files on every case; floats are compared exactly after the round trip)',
    'str(int)/int(str) of axis, ext, dim are inverse to each other (the model keeps the integers)',
    'name hygiene: patch names distinct, no mapping is called "None", interface names come from join (C12 covers identity by name)',
    'Exportable (Model/Export.lean: exportableB) characterises the domains built by the NCube constructors, Mapping.__call__ on '
    'a patch and Domain.join without clobbered interface names; it is evaluated on every real domain of the run',
    'the logical twin of an all-mapped multi-patch domain is compared by the oracle only (not modelled)',
]

NAMES = 'ABCDEFGHKLMNPQRSTUVWXYZabcdefgh'


def _mods():
    import numpy as np
    import h5py
    import yaml
    from sympde.topology import Domain, Line, Square, Cube, NCube, Mapping
    from sympde.topology.basic import Union, Boundary, Interface, InteriorDomain
    from sympde.topology.domain import NCubeInterior
    return locals()


class Tmp:
    """a private temporary directory, removed on exit"""

    def __enter__(self):
        self.d = tempfile.mkdtemp(prefix='c15_')
        self.k = 0
        return self

    def path(self):
        self.k += 1
        return os.path.join(self.d, 'f%d.h5' % self.k)

    def __exit__(self, *a):
        shutil.rmtree(self.d, ignore_errors=True)


# --------------------------------------------------------------------------- serialisation

def coord(x):
    p, q = float(x).as_integer_ratio()
    return [int(p), int(q)]


def ser_dtype(dt):
    t, p = dt['type'], dt['parameters']
    if t == 'Line':
        return [A('Line'), [coord(p['bounds'][0]), coord(p['bounds'][1])]]
    if t == 'Square':
        return [A('Square')] + [[coord(p[k][0]), coord(p[k][1])] for k in ('bounds1', 'bounds2')]
    if t == 'Cube':
        return [A('Cube')] + [[coord(p[k][0]), coord(p[k][1])] for k in ('bounds1', 'bounds2', 'bounds3')]
    if t == 'NCube':
        return [A('NCube'), int(p['dim']), [coord(x) for x in p['min_coords']], [coord(x) for x in p['max_coords']]]
    raise ValueError('dtype %r' % (dt,))


def ser_patch(I):
    """I: the interior (NCubeInterior, mapped or not) of a single-patch domain"""
    mp = I.mapping
    ln = I.logical_domain.name if I.logical_domain is not None else I.name
    return [A('patch'), str(ln), int(I.dim), ser_dtype(I.dtype), A('None') if mp is None else str(mp.name)]


def gamma(axis, ext):
    return '\\Gamma_%d' % (2 * axis + (1 if ext == -1 else 2))


def ser_face(b):
    if str(b.name) != gamma(int(b.axis), int(b.ext)):
        raise ValueError('face name %s does not follow the numbering' % b.name)
    return [A('face'), ser_patch(b.domain), int(b.axis), int(b.ext)]


def ser_ornt(o):
    if o is None:
        return A('None')
    if isinstance(o, (tuple, list)):
        return [A('tup')] + [int(x) for x in o]
    return [A('int'), int(o)]


def ser_dom(D, m):
    U = m['Union']
    ints = list(D.interior.args) if isinstance(D.interior, U) else [D.interior]
    if D.boundary is None:
        bnd = []
    elif isinstance(D.boundary, U):
        bnd = list(D.boundary.args)
    else:
        bnd = [D.boundary]
    conn = [[A('iface'), str(k), str(v.name), ser_face(v.minus), ser_face(v.plus), ser_ornt(v.ornt)]
            for k, v in D.connectivity._data.items()]
    return [A('dom'), str(D.name), int(D.dim), [ser_patch(i) for i in ints], [ser_face(b) for b in bnd], conn]


def ser_faced(d):
    return [A('fd'), int(d['axis']), int(d['ext']), str(d['name']), str(d['patch']), str(d['mapping'])]


def ser_many(x, f):
    if isinstance(x, dict):
        return [A('one'), f(x)]
    return [A('many')] + [f(i) for i in x]


def ser_dict(y):
    conn = []
    for k, v in y['connectivity'].items():
        conn.append([A('cd'), str(k), ser_faced(v[0]), ser_faced(v[1]), ser_ornt(v[2] if len(v) > 2 else None)])
    return [A('dict'), str(y['name']), int(y['dim']), ser_many(y['dtype'], ser_dtype),
            ser_many(y['interior'], lambda i: [A('id'), str(i['name']), str(i['mapping'])]),
            ser_many(y['boundary'], ser_faced), conn]


def ser_conn(cn):
    (mi, ma, me), (pi, pa, pe) = cn[0], cn[1]
    if len(cn) == 2:
        o = A('None')
    elif isinstance(cn[2], (tuple, list)) or type(cn[2]).__name__ in ('ndarray', 'Tuple'):
        # a sequence (subscriptable): tuple, list, row of an integer numpy array, sympy Tuple
        o = [A('seq')] + [int(x) for x in cn[2]]
    else:
        # a scalar: Python int, numpy integer, sympy Integer - modelled as the integer it denotes
        o = [A('int'), int(cn[2])]
    return [A('cn'), mi, ma, me, pi, pa, pe, o]


def outcome(f, ser):
    try:
        return 'ok ' + dumps(ser(f()))
    except Exception as e:
        return 'err ' + type(e).__name__


# --------------------------------------------------------------------------- generators

class Spec:
    """what the generator asked for: patches (name, dim, mins, maxs, mapping), connections, name"""
    counter = 0

    def __init__(self):
        self.patches, self.conns, self.name = [], [], None
        self.forms = []         # per connection: how its orientation is handed to Domain.join (see ORNT_FORMS)


def rand_bound(rng):
    k = rng.random()
    if k < 0.35:
        lo = float(rng.randint(-5, 5))
        return lo, lo + rng.choice([1, 2, 0.5, 3])
    if k < 0.6:
        lo = rng.randint(-40, 40) / rng.choice([2, 4, 8, 10, 3, 7])
        return lo, lo + rng.randint(1, 30) / rng.choice([2, 4, 10, 3])
    if k < 0.8:
        lo = rng.uniform(-10, 10)
        return lo, lo + rng.uniform(1e-3, 10)
    if k < 0.9:
        lo = rng.choice([1e-9, -1e-9, 0.0, 1e12, -1e12, 1e-300])
        return lo, lo + abs(lo) * rng.choice([1.0, 0.5]) + rng.choice([1e-9, 1.0, 1e12])
    lo = rng.choice([0, 1, -1])
    return lo, lo + rng.choice([1, 2])          # Python ints, converted by the constructor


# How the orientation of a connection reaches Domain.join.  The specification (Spec.conns) always keeps plain
# Python ints - the ground truth -, `given_conns` materialises the value that is handed over.  Connectivity
# tables computed or loaded with numpy give numpy integers (np.sign(...), entries / rows of integer arrays),
# symbolic preprocessing gives sympy Integers; all of them denote the same orientation.
ORNT_FORMS = {2: ['py', 'np-int64', 'np-sign', 'np-int32', 'np-int8', 'np-entry', 'sympy'],
              3: ['py', 'np-tuple', 'np-sign', 'np-int32', 'np-int8', 'np-row', 'np-list', 'list', 'sympy', 'sympy-Tuple']}


def given_ornt(o, form):
    """the orientation `o` (int in 2D, tuple of 3 ints in 3D) in the representation `form`"""
    if form == 'py':
        return o
    import numpy as np
    import sympy
    if isinstance(o, tuple):
        if form == 'np-row':
            return np.array([[7, 7, 7], list(o)])[1]                  # a row of an integer table
        if form == 'np-sign':
            return np.sign(np.array([3 * x for x in o]))              # ndarray of signs
        if form == 'np-int32':
            return np.array(o, dtype=np.int32)
        if form == 'np-int8':
            return tuple(np.int8(x) for x in o)
        if form == 'np-list':
            return [np.int64(x) for x in o]
        if form == 'list':
            return list(o)
        if form == 'sympy':
            return tuple(sympy.Integer(x) for x in o)
        if form == 'sympy-Tuple':
            return sympy.Tuple(*o)
        if form == 'np-tuple':
            return tuple(np.int64(x) for x in o)
        raise ValueError(form)
    if form == 'np-sign':
        return np.sign(np.int64(3 * o))
    if form == 'np-int32':
        return np.int32(o)
    if form == 'np-int8':
        return np.int8(o)
    if form == 'np-entry':
        return np.array([7, o])[1]                                    # an entry of an integer array
    if form == 'sympy':
        return sympy.Integer(o)
    if form == 'np-int64':
        return np.int64(o)
    raise ValueError(form)


def given_conns(s):
    """the connectivity list handed to Domain.join: s.conns with the orientations in the forms s.forms"""
    forms = list(s.forms) + ['py'] * (len(s.conns) - len(s.forms))
    return [cn if len(cn) == 2 else (cn[0], cn[1], given_ornt(cn[2], f)) for cn, f in zip(s.conns, forms)]


def gen_spec(rng, thorough, dim=None, npatch=None):
    Spec.counter += 1
    tag = 'q%d' % Spec.counter
    s = Spec()
    s.dim = dim if dim is not None else rng.choice([1, 1, 2, 2, 2, 3, 3, 4, 5])
    maxn = 8 if thorough else 5
    n = npatch if npatch is not None else rng.choice([1, 1] + list(range(2, maxn + 1)))
    if s.dim >= 4:
        n = min(n, 3)
    mode = rng.choice(['plain', 'plain', 'mapped', 'mapped', 'mixed', 'shared-logical'])
    if s.dim >= 4:
        mode = 'plain'          # Mapping(name, dim) exists for dim <= 3 only
    base = None
    for j in range(n):
        nm = rng.choice(NAMES) + rng.choice(['', 'é', 'Ω', '_', '1']) + '%s_%d' % (tag, j)
        bounds = [rand_bound(rng) for _ in range(s.dim)]
        if mode == 'shared-logical':
            if base is None:
                base = (nm, bounds)
            nm, bounds = base
        mp = None
        if mode in ('mapped', 'shared-logical') or (mode == 'mixed' and rng.random() < 0.5):
            mp = rng.choice('FGH') + '%s_%d' % (tag, j)
        s.patches.append((nm, s.dim, [b[0] for b in bounds], [b[1] for b in bounds], mp))
    s.mode = mode
    s.name = 'Om' + tag
    # connections: each face at most once, same axis on both sides, <= 2 interfaces per pair, <= 1 self-interface
    if n >= 2 and s.dim <= 3:
        free = {(i, a, e) for i in range(n) for a in range(s.dim) for e in (-1, 1)}
        per_pair = {}
        want = rng.choice([0, 1, 1, 2, 3, n, 2 * n, 3 * n])
        tries = 0
        while len(s.conns) < want and tries < 40 * (want + 1):
            tries += 1
            if not free:
                break
            f = rng.choice(sorted(free))
            cands = [g for g in sorted(free) if g != f and g[1] == f[1]]
            if not cands:
                continue
            g = rng.choice(cands)
            key = frozenset([f[0], g[0]])
            lim = 1 if len(key) == 1 else 2
            if per_pair.get(key, 0) >= lim:
                continue
            per_pair[key] = per_pair.get(key, 0) + 1
            free -= {f, g}
            if s.dim == 1:
                cn = (f, g)
            elif s.dim == 2:
                cn = (f, g) if rng.random() < 0.2 else (f, g, rng.choice([1, -1]))
            else:
                cn = (f, g) if rng.random() < 0.2 else (f, g, tuple(rng.choice([1, -1]) for _ in range(3)))
            s.conns.append(cn)
            # a third of the explicit orientations are not built-in ints
            s.forms.append('py' if len(cn) == 2 or rng.random() < 0.65 else rng.choice(ORNT_FORMS[s.dim][1:]))
    return s


def build_patch(m, p):
    nm, dim, mins, maxs, mp = p
    if sum(map(ord, nm)) % 3 == 0:
        # bounds given as numpy scalars, e.g. from np.linspace (seeded change C15-6: they reached the
        # exported file unconverted and the file could not be read back)
        import numpy as np
        mins = [np.float64(a) for a in mins]
        maxs = [np.float64(a) if i % 2 == 0 else np.float32(a) if float(np.float32(a)) == float(a) else np.float64(a)
                for i, a in enumerate(maxs)]
    if dim == 1:
        P = m['Line'](nm, bounds=(mins[0], maxs[0]))
    elif dim == 2:
        P = m['Square'](nm, bounds1=(mins[0], maxs[0]), bounds2=(mins[1], maxs[1]))
    elif dim == 3:
        P = m['Cube'](nm, bounds1=(mins[0], maxs[0]), bounds2=(mins[1], maxs[1]), bounds3=(mins[2], maxs[2]))
    else:
        P = m['NCube'](nm, dim, tuple(mins), tuple(maxs))
    if mp is not None:
        P = m['Mapping'](mp, dim=dim)(P)
    return P


def build(m, s):
    ps = [build_patch(m, p) for p in s.patches]
    if len(ps) == 1:
        return ps, ps[0]
    return ps, m['Domain'].join(ps, given_conns(s), s.name)


def write_dict(m, y, path):
    """what Domain.export does, for an arbitrary dictionary"""
    geo = m['yaml'].dump(data=y, sort_keys=None)
    h5 = m['h5py'].File(path, mode='w')
    h5['topology.yml'] = m['np'].array(geo, dtype='S')
    h5.close()


def raw_yaml(m, path):
    h5 = m['h5py'].File(path, mode='r')
    try:
        return bytes(h5['topology.yml'][()])
    finally:
        h5.close()


def spec_str(s):
    r = '%s dim=%d patches=%s conns=%s' % (s.name, s.dim, [(p[0], p[4]) for p in s.patches], s.conns)
    if any(f != 'py' for f in s.forms):
        r += ' ornt-given-as=%s' % ([f for f in s.forms],)
    return r


# --------------------------------------------------------------------------- correspondence

def correspondence(ctx):
    c = Corr()
    m = _mods()
    rng = ctx.rng
    nspec = 900 if ctx.thorough else 170
    cases = []
    seen = set()

    def add(kind, line, exp, nt, tag=None):
        if line in seen:
            return
        seen.add(line)
        cases.append((kind, line, exp, nt, tag))

    with Tmp() as tmp:
        for i in range(nspec):
            s = gen_spec(rng, ctx.thorough)
            c.count('spec:dim%d' % s.dim)
            c.count('spec:%s' % s.mode)
            c.count('spec:patches=%d' % len(s.patches))
            # 1. constructors (valid) + a refused variant
            for (nm, dim, mins, maxs, mp) in s.patches[:2]:
                P = build_patch(m, (nm, dim, mins, maxs, None))
                add('new', 'C15 new %s %d %s %s' % (dumps(nm), dim, dumps([coord(x) for x in mins]), dumps([coord(x) for x in maxs])),
                    'ok ' + dumps(ser_patch(P.interior)), dim >= 4)
            if rng.random() < 0.25:
                nm, dim, mins, maxs, mp = s.patches[0]
                k = rng.choice(['swap', 'equal', 'empty', 'len'])
                if k == 'swap':
                    mins, maxs = list(maxs), list(mins)
                elif k == 'equal':
                    maxs = list(maxs)
                    maxs[-1] = mins[-1]
                elif k == 'empty':
                    nm = ''
                else:
                    maxs = list(maxs) + [7.0]
                exp = outcome(lambda: m['NCube'](nm, dim, tuple(mins), tuple(maxs)).interior, ser_patch)
                add('new', 'C15 new %s %d %s %s' % (dumps(nm), dim, dumps([coord(x) for x in mins]), dumps([coord(x) for x in maxs])), exp, True)
            # 2./3. patch domains and join
            try:
                ps, D = build(m, s)
            except Exception as e:
                c.disagreements.append({'input': spec_str(s), 'impl': 'raised %r' % (e,), 'model': 'n/a', 'note': 'building the specified domain raised'})
                continue
            for P in ps[:2]:
                add('patchdom', 'C15 patchdom ' + dumps(ser_patch(P.interior)), 'ok ' + dumps(ser_dom(P, m)), P.interior.mapping is not None or s.dim >= 4)
            sdoms = [ser_dom(P, m) for P in ps]
            if len(ps) >= 2:
                add('join', 'C15 join %s %s %s' % (dumps(sdoms), dumps([ser_conn(cn) for cn in given_conns(s)]), dumps(s.name)),
                    'ok ' + dumps(ser_dom(D, m)), True)
                c.count('join:conns=%d' % min(len(s.conns), 6))
                for f in s.forms:
                    if f != 'py':
                        c.count('join:ornt-given-as:' + f)
                if rng.random() < 0.3:
                    # refused joins
                    k = rng.choice(['axis', 'ornt-int-3d', '4d', 'mixed-dim', 'no-face'])
                    bad_ps, bad = list(ps), None
                    if k == 'axis' and s.dim >= 2:
                        bad = [((0, 0, 1), (1, 1, -1)) + (() if s.dim == 2 else ((1, 1, 1),))]
                    elif k == 'ornt-int-3d' and s.dim == 3:
                        bad = [((0, 0, 1), (1, 0, -1), -1)]
                    elif k == '4d':
                        bad_ps = [m['NCube']('n4a' + s.name, 4, (0,) * 4, (1,) * 4), m['NCube']('n4b' + s.name, 4, (1, 0, 0, 0), (2, 1, 1, 1))]
                        bad = [((0, 0, 1), (1, 0, -1))]
                    elif k == 'mixed-dim':
                        bad_ps = [ps[0], m['Line']('l1' + s.name) if s.dim != 1 else m['Square']('s2' + s.name)]
                        bad = []
                    elif k == 'no-face':
                        bad = [((0, s.dim + 1, 1), (1, s.dim + 1, -1))]
                    if bad is not None:
                        exp = outcome(lambda: m['Domain'].join(bad_ps, bad, s.name), lambda d: ser_dom(d, m))
                        add('join', 'C15 join %s %s %s' % (dumps([ser_dom(P, m) for P in bad_ps]), dumps([ser_conn(cn) for cn in bad]), dumps(s.name)), exp, True)
                        c.count('join-refused:' + exp)
            # 4. todict, exportable, 5. real file round trip
            sd = ser_dom(D, m)
            nontriv = len(ps) >= 2 or s.mode != 'plain' or s.dim >= 4
            try:
                y = D.todict()
            except Exception as e:
                add('todict', 'C15 todict ' + dumps(sd), 'err ' + type(e).__name__, True)
                continue
            add('todict', 'C15 todict ' + dumps(sd), outcome(lambda: y, ser_dict), nontriv)
            add('exportable', 'C15 exportable ' + dumps(sd), 'ok true', False)
            path = tmp.path()
            exp = outcome(lambda: (D.export(path), m['Domain'].from_file(path))[1], lambda d: ser_dom(d, m))
            add('fromfile', 'C15 fromdict ' + dumps(ser_dict(y)), exp, nontriv)
            add('roundtrip', 'C15 roundtrip ' + dumps(sd), exp, nontriv)
            if any(len(cn) > 2 and cn[2] not in (1, (1, 1, 1)) for cn in s.conns):
                c.count('roundtrip:non-default-ornt')
            if os.path.exists(path):
                os.remove(path)
            # 6. malformed files
            if rng.random() < 0.35:
                import copy
                y2 = copy.deepcopy(y)
                k = rng.choice(['unknown-patch', 'short-dtype', 'bad-axis', 'boundary-dict', 'no-ornt', 'conn-unknown', 'dup-interior'])
                blist = y2['boundary'] if isinstance(y2['boundary'], list) else None
                ok = True
                if k == 'unknown-patch' and blist:
                    blist[rng.randrange(len(blist))]['patch'] = 'nobody'
                elif k == 'short-dtype' and isinstance(y2['dtype'], list) and len(y2['dtype']) > 2:
                    y2['dtype'] = y2['dtype'][:-1]
                elif k == 'bad-axis' and blist:
                    blist[rng.randrange(len(blist))]['axis'] = str(s.dim + 2)
                elif k == 'boundary-dict' and blist:
                    y2['boundary'] = blist[0]
                elif k == 'no-ornt' and y2['connectivity']:
                    for kk in y2['connectivity']:
                        y2['connectivity'][kk] = y2['connectivity'][kk][:2]
                elif k == 'conn-unknown' and y2['connectivity']:
                    kk = sorted(y2['connectivity'])[0]
                    y2['connectivity'][kk][1]['patch'] = 'nobody'
                elif k == 'dup-interior' and isinstance(y2['interior'], list):
                    y2['interior'] = y2['interior'] + [y2['interior'][0]]
                    y2['dtype'] = y2['dtype'] + [y2['dtype'][0]]
                else:
                    ok = False
                if ok:
                    path = tmp.path()
                    write_dict(m, y2, path)
                    exp = outcome(lambda: m['Domain'].from_file(path), lambda d: ser_dom(d, m))
                    add('fromfile-malformed', 'C15 fromdict ' + dumps(ser_dict(y2)), exp, True, k)
                    c.count('malformed:%s:%s' % (k, exp.split()[1] if exp.startswith('err') else 'ok'))
                    os.remove(path)
    outs = ctx.driver.run([x[1] for x in cases])
    for (kind, line, exp, nt, tag), out in zip(cases, outs):
        c.evaluations += 1
        c.count('kind:' + kind)
        if exp.startswith('err'):
            c.count('%s:%s' % (kind, exp))
        if out != exp:
            c.disagreements.append({'input': line[:3000], 'impl': exp[:3000], 'model': out[:3000], 'note': kind + (':' + tag if tag else '')})
        if nt:
            c.nontrivial.add(line)
            if len(line) < 900 and sum(1 for s_ in c.samples if s_['kind'] == kind) < 1 and len(c.samples) < 6:
                c.samples.append({'kind': kind, 'request': line, 'impl': exp, 'model': out})
    return c


# --------------------------------------------------------------------------- oracle

def patch_view(I):
    """(name, logical name, type, bounds, mapping name) of an interior, read from the objects (not from todict)"""
    ln = I.logical_domain.name if I.logical_domain is not None else I.name
    return (str(I.name), str(ln), I.dtype['type'], tuple(float(x) for x in I.min_coords), tuple(float(x) for x in I.max_coords),
            None if I.mapping is None else str(I.mapping.name), int(I.dim))


def face_view(b):
    return (str(b.domain.name), int(b.axis), int(b.ext), str(b.name))


def ornt_view(o):
    return tuple(int(x) for x in o) if isinstance(o, (tuple, list)) else (None if o is None else int(o))


def dom_view(D, m):
    U = m['Union']
    ints = list(D.interior.args) if isinstance(D.interior, U) else [D.interior]
    bnd = [] if D.boundary is None else (list(D.boundary.args) if isinstance(D.boundary, U) else [D.boundary])
    ifs = D.interfaces
    ifs = [] if ifs is None else (list(ifs.args) if isinstance(ifs, U) else [ifs])
    return {'name': str(D.name), 'dim': int(D.dim),
            'patches': sorted(patch_view(i) for i in ints),
            'boundary': sorted(face_view(b) for b in bnd),
            'interfaces': sorted((face_view(i.minus), face_view(i.plus), repr(ornt_view(i.ornt))) for i in ifs)}


def expected_view(s):
    """the topology the generator asked for, derived from the specification alone"""
    def pname(p):
        return p[0] if p[4] is None else '%s(%s)' % (p[4], p[0])
    tname = {1: 'Line', 2: 'Square', 3: 'Cube'}
    patches = sorted((pname(p), p[0], tname.get(p[1], 'NCube'), tuple(float(x) for x in p[2]), tuple(float(x) for x in p[3]), p[4], p[1])
                     for p in s.patches)
    used = set()
    pairs = []
    for cn in s.conns:
        f, g = cn[0], cn[1]
        used |= {f, g}
        if s.dim == 1:
            o = None
        elif s.dim == 2:
            o = 1 if len(cn) == 2 else cn[2]
        else:
            o = (1, 1, 1) if len(cn) == 2 else tuple(cn[2])
        pairs.append((tuple(sorted([(pname(s.patches[f[0]]), f[1], f[2]), (pname(s.patches[g[0]]), g[1], g[2])])), repr(o)))
    bnd = sorted((pname(s.patches[i]), a, e, gamma(a, e)) for i in range(len(s.patches)) for a in range(s.dim) for e in (-1, 1)
                 if (i, a, e) not in used)
    return {'name': s.name if len(s.patches) > 1 else pname(s.patches[0]), 'dim': s.dim, 'patches': patches, 'boundary': bnd,
            'pairs': sorted(pairs)}


def check_roundtrip(o, m, tmp, D, key, what, spec=None, expect_second_export=True):
    """export -> file -> from_file; compare E with D (and with the specification); export again"""
    p1, p2 = tmp.path(), tmp.path()
    try:
        try:
            D.export(p1)
        except Exception as e:
            o.fail('export-raised:' + key, 'export of %s raised %r' % (what, e))
            return
        try:
            E = m['Domain'].from_file(p1)
        except Exception as e:
            o.fail('from_file-raised:' + key, 'from_file of the exported %s raised %r' % (what, e))
            return
        vd, ve = dom_view(D, m), dom_view(E, m)
        for field in ('name', 'dim', 'patches', 'boundary', 'interfaces'):
            o.count('field:' + field)
            if vd[field] != ve[field]:
                sub = field
                if field == 'interfaces' and [x[:2] for x in vd[field]] == [x[:2] for x in ve[field]]:
                    sub = 'ornt'
                o.fail('%s:%s' % (sub, key), 'after export + from_file of %s the %s differ: written %s, read back %s'
                       % (what, sub, vd[field], ve[field]), original=vd, reread=ve)
                return
        if spec is not None:
            ex = expected_view(spec)
            got_pairs = sorted((tuple(sorted([x[0][:3], x[1][:3]])), x[2]) for x in ve['interfaces'])
            for field, got in (('name', ve['name']), ('dim', ve['dim']), ('patches', ve['patches']), ('boundary', ve['boundary']), ('pairs', got_pairs)):
                if ex[field] != got:
                    o.fail('spec-%s:%s' % (field, key), 're-read %s does not have the %s that was specified: expected %s, got %s'
                           % (what, field, ex[field], got))
                    return
        # logical twin of an all-mapped multi-patch domain
        # (when one logical patch is used under several mappings the twin collapses to one patch: C13's matter)
        if D.logical_domain is not None and isinstance(D.interior, m['Union']) and expect_second_export and \
                (spec is None or spec.mode != 'shared-logical'):
            if E.logical_domain is None or dom_view(D.logical_domain, m) != dom_view(E.logical_domain, m):
                o.fail('logical:' + key, 'the logical domain of the re-read %s differs' % what)
                return
        # second export
        o.count('second-export')
        E.export(p2)
        b1, b2 = raw_yaml(m, p1), raw_yaml(m, p2)
        if b1 != b2 or E.todict() != D.todict():
            k = 'second-export:' + key
            o.fail(k, 'writing the re-read %s again does not produce the same file content' % what,
                   first=b1.decode('ascii', 'replace')[:1500], second=b2.decode('ascii', 'replace')[:1500])
    finally:
        for p in (p1, p2):
            if os.path.exists(p):
                os.remove(p)


def fixed_corpus(o, m, tmp):
    """witnesses of past defects (known_findings.json) - always evaluated"""
    Dm, Sq, Cu, Ln, Mp = m['Domain'], m['Square'], m['Cube'], m['Line'], m['Mapping']
    A_, B_ = Sq('c15fA'), Sq('c15fB', bounds1=(1, 2))
    o.evaluations += 1
    check_roundtrip(o, m, tmp, Dm.join([A_, B_], [((0, 0, 1), (1, 0, -1), -1)], 'c15f2d'), 'fixed:ornt-2d', 'two squares joined with ornt=-1')
    CA, CB = Cu('c15fCA'), Cu('c15fCB', bounds1=(1, 2))
    o.evaluations += 1
    check_roundtrip(o, m, tmp, Dm.join([CA, CB], [((0, 0, 1), (1, 0, -1), (1, -1, -1))], 'c15f3d'), 'fixed:ornt-3d', 'two cubes joined with ornt=(1,-1,-1)')
    LA, LB = Ln('c15fLA'), Ln('c15fLB', bounds=(1, 2))
    o.evaluations += 1
    check_roundtrip(o, m, tmp, Dm.join([LA, LB], [((0, 0, 1), (1, 0, -1)), ((1, 0, 1), (0, 0, -1))], 'c15fring'), 'fixed:closed-ring-1d',
                    'closed ring of two lines (no external boundary)')
    S = Sq('c15fS')
    F0, F1 = Mp('c15fF0', dim=2), Mp('c15fF1', dim=2)
    o.evaluations += 1
    check_roundtrip(o, m, tmp, Dm.join([F0(S), F1(S)], [((0, 0, 1), (1, 0, -1), 1)], 'c15fshared'), 'fixed:shared-logical-patch',
                    'F0(A) and F1(A): one logical patch under two mappings')
    # open finding: ONE mapping applied to an already joined domain keeps the logical interface names
    P_, Q_ = Sq('c15fP'), Sq('c15fQ', bounds1=(1, 2))
    MD = Mp('c15fM', dim=2)(Dm.join([P_, Q_], [((0, 0, 1), (1, 0, -1), -1)], 'c15fOm'))
    o.evaluations += 1
    check_roundtrip(o, m, tmp, MD, 'fixed:F(Omega)', 'F(Omega): one mapping applied to a joined two-patch domain', expect_second_export=False)
    # orientations that reach Domain.join as numpy / sympy integers (connectivity tables computed with numpy):
    # built from a hand-written specification, so the re-read domain is also compared with plain-int ground truth
    for key, what, dim, patches, conns, forms in FIXED_ORNT_FORMS:
        s = Spec()
        s.dim, s.mode, s.name = dim, 'fixed', 'c15f' + key.replace('-', '')
        s.patches = [('c15f%s%s' % (key.replace('-', ''), nm), dim, list(mins), list(maxs),
                      None if mp is None else 'c15f%s%s' % (key.replace('-', ''), mp)) for (nm, mins, maxs, mp) in patches]
        s.conns, s.forms = list(conns), list(forms)
        o.evaluations += 1
        try:
            ps, D = build(m, s)
        except Exception as e:
            o.fail('build-raised:fixed:' + key, 'building %s raised %r' % (what, e))
            continue
        check_roundtrip(o, m, tmp, D, 'fixed:' + key, what, spec=s)


FIXED_ORNT_FORMS = [
    ('ornt-2d-numpy-sign', 'two squares joined with ornt = np.sign(...) = -1 (numpy integer)', 2,
     [('A', (0, 0), (1, 2), None), ('B', (1, 0), (3, 2), None)],
     [((0, 0, 1), (1, 0, -1), -1)], ['np-sign']),
    ('ornt-2d-numpy-entry', 'three squares, orientations +1 / -1 taken from an integer numpy array (one default interface)', 2,
     [('A', (0, 0), (1, 1), 'F'), ('B', (1, 0), (2, 1), None), ('C', (2, 0), (3, 1), 'G')],
     [((0, 0, 1), (1, 0, -1), 1), ((1, 0, 1), (2, 0, -1), -1), ((0, 1, 1), (2, 1, -1))], ['np-entry', 'np-int32', 'py']),
    ('ornt-3d-numpy-row', 'two mapped cubes joined with ornt = a row (1,-1,1) of an integer numpy array', 3,
     [('P', (0, 0, 0), (1, 1, 1), 'F'), ('Q', (0, 1, 0), (1, 2, 1), 'G')],
     [((0, 1, 1), (1, 1, -1), (1, -1, 1))], ['np-row']),
    ('ornt-3d-numpy-tuple', 'two cubes joined twice, ornt = tuple / list of numpy integers', 3,
     [('P', (0, 0, 0), (1, 1, 1), None), ('Q', (1, 0, 0), (2, 1, 1), None)],
     [((0, 0, 1), (1, 0, -1), (-1, 1, -1)), ((1, 0, 1), (0, 0, -1), (1, 1, 1))], ['np-tuple', 'np-list']),
    ('ornt-2d-sympy', 'two squares joined with ornt = sympy Integer(-1)', 2,
     [('A', (0, 0), (1, 1), None), ('B', (0, 1), (1, 2), None)],
     [((0, 1, 1), (1, 1, -1), -1)], ['sympy']),
    ('ornt-3d-sympy', 'two cubes joined with ornt = sympy Tuple(-1, -1, 1)', 3,
     [('P', (0, 0, 0), (1, 1, 1), None), ('Q', (0, 0, 1), (1, 1, 3), 'H')],
     [((0, 2, 1), (1, 2, -1), (-1, -1, 1))], ['sympy-Tuple']),
]


def oracle(ctx, factor, seeds):
    o = Oracle()
    m = _mods()
    rng = ctx.rng
    n = (500 if ctx.thorough else 110) * factor
    with Tmp() as tmp:
        fixed_corpus(o, m, tmp)
        for i in range(n):
            s = gen_spec(rng, ctx.thorough)
            try:
                ps, D = build(m, s)
            except Exception as e:
                o.fail('build-raised:' + spec_str(s), 'building the specified domain raised %r' % (e,))
                continue
            o.evaluations += 1
            o.count('dim%d' % s.dim)
            o.count('mode:' + s.mode)
            o.count('patches:%d' % len(s.patches))
            o.count('conns:%d' % min(len(s.conns), 6))
            for f in s.forms:
                if f != 'py':
                    o.count('ornt-given-as:' + f)
            check_roundtrip(o, m, tmp, D, spec_str(s), 'domain ' + spec_str(s), spec=s)
            if len(o.samples) < 4 and len(s.patches) > 1:
                o.samples.append({'spec': spec_str(s)})
    return o


def replay(ctx, path):
    d = json.load(open(path))
    print(json.dumps(d, indent=1)[:3000])
    o = Oracle()
    m = _mods()
    with Tmp() as tmp:
        fixed_corpus(o, m, tmp)
    key = d.get('key', '')
    if not any(f['key'] == key for f in o.failures) and d.get('kind') == 'oracle':
        import random
        ctx.rng = random.Random('%s/%s/%d' % (PID, d.get('tier', 'quick'), int(d.get('seed', 0))))
        ctx.thorough = d.get('tier') == 'thorough'
        Spec.counter = 0
        try:
            correspondence(ctx)       # the oracle of a normal run starts from the PRNG state left by the correspondence run
        except Exception:
            pass
        o = oracle(ctx, 1, [])
    known = {'second-export:fixed:F(Omega)'}
    fails = [f for f in o.failures if f['key'] not in known or f['key'] == key]
    for f in ([f for f in fails if f['key'] == key] or fails[:3]):
        print('REPRODUCED %s: %s' % (f['key'], f['what']))
    if not fails:
        print('not reproduced on the current tree (%d oracle evaluations)' % o.evaluations)
    return 1 if fails else 0
