"""Seeded, type-directed generators of sympde expressions built with the repo's own constructors."""
import sympy
from sympy import Rational, Symbol, S


class Env:
    """function spaces and atoms on an abstract domain of dimension `dim`"""

    def __init__(self, dim, logical=False, tag=''):
        from sympde.topology import Domain, ScalarFunctionSpace, VectorFunctionSpace, element_of
        from sympde.core import Constant
        self.dim = dim
        self.logical = logical
        # hygienic names: sympde spaces / functions / domains compare by name, so the dimension
        # is part of every name (name reuse across dimensions is property C12's business)
        sfx = '%s%d%s' % (tag, dim, 'l' if logical else 'p')
        if logical:
            self.domain = Domain('Om' + sfx, dim=dim)
        else:
            # a mapped domain: physical coordinates x,y,z and operators dx,dy,dz
            from sympde.topology import Mapping
            self.mapping = Mapping('M' + sfx, dim=dim)
            self.domain = self.mapping(Domain('Om' + sfx, dim=dim))
        self.V = ScalarFunctionSpace('V' + sfx, self.domain)
        self.W = VectorFunctionSpace('W' + sfx, self.domain)
        self.sf = [element_of(self.V, name=n + sfx) for n in ('f', 'g', 'h')]
        self.vf = [element_of(self.W, name=n + sfx) for n in ('F', 'G', 'H')]
        names = ('x1', 'x2', 'x3') if logical else ('x', 'y', 'z')
        self.coords = [Symbol(n, real=True) for n in names[:dim]]
        self.cst = [Constant(n) for n in ('c', 'k')]
        from sympde.topology import derivatives as dv
        self.ops = ([dv.dx1, dv.dx2, dv.dx3] if logical else [dv.dx, dv.dy, dv.dz])[:dim]
        self.all_ops = [dv.dx, dv.dy, dv.dz, dv.dx1, dv.dx2, dv.dx3]


class ScalarGen:
    """scalar expressions over functions, vector components, coordinates, constants, sums, products,
    quotients, powers (integer, rational, constant and variable exponents), elementary functions"""

    def __init__(self, rng, env, maxdepth=4, allow_fn_of_function=0.03, var_exp=0.15):
        self.rng, self.env, self.maxdepth = rng, env, maxdepth
        self.p_bad, self.p_varexp = allow_fn_of_function, var_exp

    def number(self):
        r = self.rng
        return r.choice([S(2), S(3), S(-1), S(-2), Rational(1, 2), Rational(-3, 4), S(5)])

    def coef(self):
        r = self.rng
        return r.choice(self.env.cst) if r.random() < 0.4 else self.number()

    def fatom(self):
        """function-bearing atom, possibly under a chain of derivatives"""
        r, env = self.rng, self.env
        a = r.choice(env.sf) if r.random() < 0.6 else r.choice(env.vf)[r.randrange(env.dim)]
        for _ in range(r.choice([0, 0, 0, 1, 1, 2])):
            a = r.choice(env.ops)(a)
        return a

    def coordexpr(self, depth=0):
        """function-free coordinate expression"""
        r, env = self.rng, self.env
        k = r.random()
        if depth >= 2 or k < 0.4:
            return r.choice(env.coords)
        if k < 0.55:
            return r.choice(env.coords) ** r.choice([2, 3])
        if k < 0.7:
            return self.coordexpr(depth + 1) * self.coordexpr(depth + 1)
        if k < 0.8:
            return self.coordexpr(depth + 1) + self.coef()
        return r.choice([sympy.sin, sympy.cos, sympy.exp])(self.coordexpr(depth + 1))

    def expr(self, depth=0):
        r = self.rng
        if depth >= self.maxdepth:
            return self.fatom()
        k = r.random()
        if k < 0.16:
            return self.fatom()
        if k < 0.22:
            return self.coordexpr()
        if k < 0.26:
            return self.coef()
        if k < 0.42:
            return sympy.Add(*[self.expr(depth + 1) for _ in range(r.choice([2, 2, 3]))])
        if k < 0.70:
            n = r.choice([2, 2, 3, 3, 4])
            fs = [self.expr(depth + 1) for _ in range(n)]
            if r.random() < 0.5:
                fs.append(self.coef())
            if r.random() < 0.3:
                fs.append(self.coordexpr())
            return sympy.Mul(*fs)
        if k < 0.80:
            b = self.expr(depth + 1)
            q = r.random()
            if q < 0.40:
                e = S(r.choice([2, 3, -1, -2]))
            elif q < 0.52:
                e = Rational(r.choice([1, 3]), 2)
            elif q < 0.52 + self.p_varexp:
                e = self.expr(depth + 2)
            elif q < 0.62 + self.p_varexp:
                e = self.coordexpr(1)          # exponent depending on the coordinates only (added after seed C05-2)
            else:
                e = r.choice(self.env.cst)
            if r.random() < 0.08:
                b = self.coef()                # constant base, non constant exponent: c**f
                e = self.expr(depth + 2)
            return b ** e
        if k < 0.88:
            return self.expr(depth + 1) / self.expr(depth + 1)
        if r.random() < self.p_bad * 10:
            return r.choice([sympy.sin, sympy.exp])(self.expr(depth + 1))   # refused by dx: NotImplementedError
        return self.coordexpr() * self.expr(depth + 1)


def has_functions(e):
    from sympde.topology.space import ScalarFunction, VectorFunction
    return bool(e.atoms(ScalarFunction, VectorFunction)) if hasattr(e, 'atoms') else False


def tree_size(e):
    return 1 + sum(tree_size(a) for a in getattr(e, 'args', ()))


class GenericGen:
    """well-typed generic (dimension-independent) expressions: scalar-, vector- and matrix-valued,
    built with the real operator constructors (which apply their own rewriting at construction)"""

    def __init__(self, rng, env, maxdepth=3, p_illtyped=0.0):
        self.rng, self.env, self.maxdepth = rng, env, maxdepth
        import importlib
        self.C = importlib.import_module('sympde.calculus')
        self.sg = ScalarGen(rng, env, maxdepth=1)

    def coef(self):
        return self.sg.coef()

    def compound(self):
        """a function-free factor mixing a Constant with a coordinate function (not a flat product):
        it is NOT a constant coefficient (added after seeded change C01-3)"""
        r, env = self.rng, self.env
        x, c = r.choice(env.coords), r.choice(env.cst)
        return r.choice([x + c, sympy.exp(c * x), sympy.sin(c * x), (x + c) ** 2, c * x + x ** 2])

    def scalar(self, depth=0):
        r, env, C = self.rng, self.env, self.C
        d = env.dim
        if depth >= self.maxdepth:
            return r.choice(env.sf)
        if r.random() < 0.07:
            return self.compound() * self.scalar(depth + 1)
        k = r.random()
        if k < 0.14:
            return r.choice(env.sf)
        if k < 0.18:
            return r.choice(env.coords) if r.random() < 0.6 else self.coef()
        if k < 0.28:
            return self.scalar(depth + 1) + self.scalar(depth + 1)
        if k < 0.42:
            fs = [self.scalar(depth + 1) for _ in range(r.choice([2, 2, 3]))]
            if r.random() < 0.4:
                fs.append(self.coef())
            return sympy.Mul(*fs)
        if k < 0.47:
            q = r.random()
            if q < 0.5:
                return self.scalar(depth + 1) ** r.choice([2, 3, -1])
            if q < 0.75:
                return self.coef() ** self.scalar(depth + 1)      # constant base (added after seed C02-1)
            if q < 0.9:
                return self.scalar(depth + 1) ** r.choice(env.coords)
            return r.choice(env.sf) ** self.scalar(depth + 2)
        if k < 0.60:
            if d > 1 and r.random() < 0.2:
                # a factored sum in one slot, a scalar factor in the other (added after seeded change C08-8)
                a = r.choice(list(env.sf) + [self.coef()]) * (self.vector(depth + 1) + self.vector(depth + 1))
                b = r.choice(env.sf) * self.vector(depth + 1)
                return C.dot(a, b) if r.random() < 0.5 else C.dot(b, a)
            return C.dot(self.vector(depth + 1), self.vector(depth + 1))
        if k < 0.68:
            return C.div(self.vector(depth + 1))
        if k < 0.75:
            return C.laplace(self.scalar(depth + 1))
        if k < 0.80:
            return C.inner(self.vector(depth + 1), self.vector(depth + 1))
        if k < 0.86 and d > 1:
            return C.inner(self.matrix(depth + 1), self.matrix(depth + 1))
        if d == 2:
            q = r.random()
            if q < 0.35:
                return C.curl(self.vector(depth + 1))
            if q < 0.7:
                return C.cross(self.vector(depth + 1), self.vector(depth + 1))
            return C.bracket(self.scalar(depth + 1), self.scalar(depth + 1))
        return self.scalar(depth + 1) * r.choice(env.sf)

    def vector(self, depth=0, fam=None):
        r, env, C = self.rng, self.env, self.C
        d = env.dim
        if d == 1:
            # in 1D a gradient lowers to a scalar but a vector function to a 1x1 matrix; sums mixing
            # the two representations are refused by the implementation (open finding C01-1d-mixed),
            # so a 1D vector expression stays inside one family
            if fam is None:
                fam = r.choice(['vf', 'grad'])
            k = r.random()
            if depth >= self.maxdepth or k < 0.35:
                return r.choice(env.vf) if fam == 'vf' else C.grad(self.scalar(depth + 1))
            if k < 0.6:
                return self.vector(depth + 1, fam) + self.vector(depth + 1, fam)
            if k < 0.85:
                return self.scalar(depth + 1) * self.vector(depth + 1, fam)
            # (laplace of a product f*F would be rewritten with Dot(Grad(F), Grad(f)): again a mixed sum)
            return C.laplace(r.choice(env.vf)) if fam == 'vf' else self.coef() * self.vector(depth + 1, fam)
        if depth >= self.maxdepth:
            return r.choice(env.vf)
        k = r.random()
        if k < 0.2:
            return r.choice(env.vf)
        if k < 0.32:
            return self.vector(depth + 1) + self.vector(depth + 1)
        if k < 0.47:
            return self.scalar(depth + 1) * self.vector(depth + 1)
        if k < 0.65:
            return C.grad(self.scalar(depth + 1))
        if k < 0.72:
            return C.laplace(self.vector(depth + 1))
        if k < 0.82:
            return C.dot(self.matrix(depth + 1), self.vector(depth + 1))
        if k < 0.88:
            return C.div(self.matrix(depth + 1))
        if d == 3:
            if r.random() < 0.5:
                return C.curl(self.vector(depth + 1))
            return C.cross(self.vector(depth + 1), self.vector(depth + 1))
        return C.rot(self.scalar(depth + 1))

    def matrix(self, depth=0):
        r, env, C = self.rng, self.env, self.C
        k = r.random()
        if depth >= self.maxdepth or k < 0.45:
            return C.grad(r.choice(env.vf) if depth >= self.maxdepth else self.vector(depth + 1))
        if k < 0.7:
            return C.hessian(self.scalar(depth + 1))
        if k < 0.85:
            return self.matrix(depth + 1) + self.matrix(depth + 1)
        return self.scalar(depth + 1) * self.matrix(depth + 1)

    def any(self):
        k = self.rng.random()
        if k < 0.45:
            return 'scalar', self.scalar()
        if k < 0.85 or self.env.dim == 1:
            return 'vector', self.vector()
        return 'matrix', self.matrix()
