"""Concrete instantiation of sympde expressions (oracle side, independent of the Lean model and of
sympde's rewriting): every function symbol becomes an explicit sympy expression in the coordinate
symbols, every derivative node becomes `sympy.diff`, every generic operator its classical
component definition.  Values are sympy scalars or column `Matrix` (vectors) / `Matrix`."""
import sympy
from sympy import Matrix, ImmutableDenseMatrix, Symbol, Rational, diff, S

PHYS = [Symbol(n, real=True) for n in ('x', 'y', 'z')]
LOGI = [Symbol(n, real=True) for n in ('x1', 'x2', 'x3')]


def _mods():
    from sympde.core import Constant
    from sympde.topology.space import ScalarFunction, VectorFunction, IndexedVectorFunction
    from sympde.topology import derivatives as dv
    from sympde.calculus import core as cc
    return locals()


class Inst:
    """dim: space dimension; coords: list of the `dim` coordinate symbols the functions depend on"""

    def __init__(self, rng, dim, coords, positive=False, trig=False):
        self.m = _mods()
        self.rng, self.dim, self.coords = rng, dim, list(coords)
        self.positive, self.trig = positive, trig
        self.sf, self.vf, self.cst = {}, {}, {}
        dv = self.m['dv']
        self.pd = {dv.dx: PHYS[0], dv.dy: PHYS[1], dv.dz: PHYS[2], dv.dx1: LOGI[0], dv.dx2: LOGI[1], dv.dx3: LOGI[2]}

    def rand_poly(self):
        r = self.rng
        xs = self.coords
        e = S.Zero
        for _ in range(r.randint(2, 3)):
            t = S(r.choice([-3, -2, -1, 1, 2, 3]))
            for x in xs:
                t *= x ** r.choice([0, 0, 1, 1, 2])
            e += t
        if self.trig:
            e += sympy.exp(sum((Rational(i + 2, 5) * x for i, x in enumerate(xs)), S.Zero)) * r.choice([1, 2, 3])
        if self.positive:
            e = e ** 2 + r.choice([1, 2, 3])
        return e

    def of_sf(self, name):
        if name not in self.sf:
            self.sf[name] = self.rand_poly()
        return self.sf[name]

    def of_vf(self, name):
        if name not in self.vf:
            self.vf[name] = [self.rand_poly() for _ in range(self.dim)]
        return self.vf[name]

    def of_cst(self, name):
        if name not in self.cst:
            self.cst[name] = Rational(self.rng.choice([2, 3, 5, 7]), self.rng.choice([1, 2, 3]))
        return self.cst[name]

    # ------------------------------------------------------------------ classical definitions
    def D(self, i, v):
        x = self.coords[i]
        if isinstance(v, (Matrix, ImmutableDenseMatrix)):
            return v.applyfunc(lambda t: diff(t, x))
        return diff(v, x)

    def grad(self, v):
        d = self.dim
        if isinstance(v, (Matrix, ImmutableDenseMatrix)):
            # repo convention (mapping.py: J_F = (grad F)^T):  (grad F)_ij = d_i F_j
            n = v.shape[0]
            return Matrix(d, n, lambda i, j: diff(v[j, 0], self.coords[i]))
        return Matrix(d, 1, lambda i, j: diff(v, self.coords[i]))

    def div(self, v):
        d = self.dim
        if v.shape[1] == 1:
            return sum((diff(v[i, 0], self.coords[i]) for i in range(d)), S.Zero)
        # (div M)_j = sum_i d_i M_ij
        return Matrix(v.shape[1], 1, lambda j, _: sum((diff(v[i, j], self.coords[i]) for i in range(d)), S.Zero))

    def curl(self, v):
        x = self.coords
        if self.dim == 3:
            return Matrix([diff(v[2], x[1]) - diff(v[1], x[2]),
                           diff(v[0], x[2]) - diff(v[2], x[0]),
                           diff(v[1], x[0]) - diff(v[0], x[1])])
        if self.dim == 2:
            if isinstance(v, (Matrix, ImmutableDenseMatrix)):
                return diff(v[1], x[0]) - diff(v[0], x[1])
            return Matrix([diff(v, x[1]), -diff(v, x[0])])
        raise ValueError('curl in 1D')

    def rot(self, v):
        x = self.coords
        if isinstance(v, (Matrix, ImmutableDenseMatrix)):
            return diff(v[1], x[0]) - diff(v[0], x[1])
        return Matrix([diff(v, x[1]), -diff(v, x[0])])

    def laplace(self, v):
        if isinstance(v, (Matrix, ImmutableDenseMatrix)):
            return v.applyfunc(lambda t: self.laplace(t))
        return sum((diff(v, x, 2) for x in self.coords), S.Zero)

    def hessian(self, v):
        d = self.dim
        return Matrix(d, d, lambda i, j: diff(v, self.coords[i], self.coords[j]))

    def dot(self, a, b):
        am, bm = isinstance(a, (Matrix, ImmutableDenseMatrix)), isinstance(b, (Matrix, ImmutableDenseMatrix))
        if am and bm:
            if a.shape[1] == 1 and b.shape[1] == 1:
                return sum((a[i] * b[i] for i in range(a.shape[0])), S.Zero)
            if a.shape[1] > 1 and b.shape[1] == 1:
                return a * b
            if a.shape[1] == 1 and b.shape[1] > 1:
                return b * a          # the generic Dot is symmetric: dot(v, M) = dot(M, v) = M v
            raise NotImplementedError('dot(matrix, matrix)')
        return a * b

    def cross(self, a, b):
        if self.dim == 3:
            return Matrix([a[1] * b[2] - a[2] * b[1], a[2] * b[0] - a[0] * b[2], a[0] * b[1] - a[1] * b[0]])
        return a[0] * b[1] - a[1] * b[0]

    def inner(self, a, b):
        return sum((a[i, j] * b[i, j] for i in range(a.shape[0]) for j in range(a.shape[1])), S.Zero)

    def outer(self, a, b):
        return a * b.T

    def convect(self, a, b):
        d = self.dim
        if isinstance(b, (Matrix, ImmutableDenseMatrix)):
            return Matrix(b.shape[0], 1, lambda i, j: sum((a[k] * diff(b[i, 0], self.coords[k]) for k in range(d)), S.Zero))
        return sum((a[k] * diff(b, self.coords[k]) for k in range(d)), S.Zero)

    def bracket(self, a, b):
        x = self.coords
        return diff(a, x[0]) * diff(b, x[1]) - diff(a, x[1]) * diff(b, x[0])

    # ------------------------------------------------------------------ instantiation
    def inst(self, e):
        m = self.m
        cc = m['cc']
        if isinstance(e, (int, sympy.Number)):
            return sympy.sympify(e)
        if isinstance(e, m['Constant']):
            return self.of_cst(e.name)
        if isinstance(e, m['ScalarFunction']):
            return self.of_sf(e.name)
        if isinstance(e, m['VectorFunction']):
            return Matrix(self.of_vf(e.name))
        if isinstance(e, m['IndexedVectorFunction']):
            return self.of_vf(e.base.name)[int(e.indices[0])]
        if isinstance(e, Symbol):
            return e
        if type(e) in self.pd:
            v = self.inst(e.args[0])
            x = self.pd[type(e)]
            if isinstance(v, (Matrix, ImmutableDenseMatrix)):
                return v.applyfunc(lambda t: diff(t, x))
            return diff(v, x)
        if isinstance(e, (Matrix, ImmutableDenseMatrix)):
            return Matrix(e.shape[0], e.shape[1], [self.inst(t) for t in e])
        if isinstance(e, (sympy.Tuple, tuple, list)):
            return Matrix([self.inst(t) for t in e])
        if isinstance(e, sympy.Add):
            vs = [self.inst(a) for a in e.args]
            r = vs[0]
            for v in vs[1:]:
                r = r + v
            return r
        if isinstance(e, sympy.Mul):
            vs = [self.inst(a) for a in e.args]
            sc = [v for v in vs if not isinstance(v, (Matrix, ImmutableDenseMatrix))]
            ms = [v for v in vs if isinstance(v, (Matrix, ImmutableDenseMatrix))]
            r = sympy.Mul(*sc)
            for mm in ms:
                r = r * mm
            return r
        if isinstance(e, sympy.Pow):
            return self.inst(e.base) ** self.inst(e.exp)
        table1 = {cc.Grad: self.grad, cc.Div: self.div, cc.Curl: self.curl, cc.Rot: self.rot,
                  cc.Laplace: self.laplace, cc.Hessian: self.hessian}
        if type(e) in table1:
            return table1[type(e)](self.inst(e.args[0]))
        table2 = {cc.Dot: self.dot, cc.Cross: self.cross, cc.Inner: self.inner, cc.Outer: self.outer,
                  cc.Convect: self.convect, cc.Bracket: self.bracket}
        if type(e) in table2:
            return table2[type(e)](self.inst(e.args[0]), self.inst(e.args[1]))
        if type(e).__name__ == 'Transpose' and type(e).__module__.startswith('sympde.'):
            v = self.inst(e.args[0])
            return v.T if isinstance(v, (Matrix, ImmutableDenseMatrix)) else v
        if isinstance(e, sympy.Function) and len(e.args) == 1:
            return e.func(self.inst(e.args[0]))
        raise NotImplementedError('cannot instantiate %s' % type(e).__name__)


def numeval(v, pt, dps=120):
    """value of the sympy scalar `v` at the rational point `pt` ({symbol: Rational}) with mpmath at
    `dps` digits.  (`sympy.N(v.subs(pt), n)` is NOT used: on large quotients of sums it returns
    different — wrong — numbers for different `n`; observed on the Czarny mapping.)"""
    import mpmath
    syms = list(pt.keys())
    v = sympy.sympify(v)
    extra = [s for s in v.free_symbols if s not in pt]
    if extra:
        raise TypeError('free symbols %s' % extra)
    f = sympy.lambdify(syms, v, 'mpmath')
    with mpmath.workdps(dps):
        r = f(*[mpmath.mpf(int(pt[s].p)) / int(pt[s].q) for s in syms])
        r = mpmath.mpmathify(r)
        if isinstance(r, mpmath.mpc):
            if abs(r.imag) > mpmath.mpf(10) ** (-dps // 2) * (abs(r.real) + 1):
                raise TypeError('complex value')
            r = r.real
        if not mpmath.isfinite(r):
            raise ZeroDivisionError('not finite')
        return r


def is_zero_value(v, coords, rng, numeric=False):
    """decide v == 0 for a scalar or matrix value: exact expansion for rational functions,
    50-digit evaluation at random rational points otherwise"""
    if isinstance(v, (Matrix, ImmutableDenseMatrix)):
        return all(is_zero_value(t, coords, rng, numeric) for t in v)
    v = sympy.sympify(v)
    if v == 0:
        return True
    if not numeric:
        try:
            n = sympy.fraction(sympy.together(v))[0]
            if sympy.expand(n) == 0:
                return True
            if not v.has(sympy.sin, sympy.cos, sympy.exp, sympy.log) and all(
                    (p.exp.is_Integer) for p in v.atoms(sympy.Pow)):
                return False
        except Exception:
            pass
    good = 0
    for _ in range(12):
        pt = {x: Rational(rng.randint(1, 40), rng.randint(7, 13)) for x in coords}
        try:
            val = numeval(v, pt)
            if abs(val) > 1e-30:
                return False
            good += 1
        except (TypeError, ValueError, ZeroDivisionError, OverflowError, NameError, AttributeError):
            continue
        if good >= 3:
            return True
    return True if good else None


def same_value(a, b, coords, rng, numeric=False, tol=1e-35):
    """decide a == b (scalars or matrices of equal shape): exact for rational functions, otherwise
    60-digit evaluation at random rational points with a relative tolerance.  None = undecided."""
    if isinstance(a, (Matrix, ImmutableDenseMatrix)) or isinstance(b, (Matrix, ImmutableDenseMatrix)):
        if not (isinstance(a, (Matrix, ImmutableDenseMatrix)) and isinstance(b, (Matrix, ImmutableDenseMatrix))):
            return False
        if a.shape != b.shape:
            return False
        res = [same_value(a[i], b[i], coords, rng, numeric, tol) for i in range(len(a))]
        if any(r is False for r in res):
            return False
        return None if any(r is None for r in res) else True
    a, b = sympy.sympify(a), sympy.sympify(b)
    if a.has(sympy.nan, sympy.zoo, sympy.oo, -sympy.oo) or b.has(sympy.nan, sympy.zoo, sympy.oo, -sympy.oo):
        return None            # a denominator vanished identically under this instantiation: undecided
    if a == b:
        return True
    if not numeric:
        z = is_zero_value(a - b, coords, rng, numeric=False)
        if z is not None:
            return z
    good = 0
    for _ in range(15):
        pt = {x: Rational(rng.randint(2, 30), rng.randint(17, 23)) for x in coords}
        try:
            va = numeval(a, pt)
            vb = numeval(b, pt)
            scale = abs(va) + abs(vb) + 1
            if abs(va - vb) > tol * scale:
                return False
            good += 1
        except (TypeError, ValueError, ZeroDivisionError, OverflowError, NameError, AttributeError):
            continue
        if good >= 3:
            return True
    return True if good else None


class InstPair:
    """two-sided instantiation for interface operators: every value is a pair (value on the minus
    side, value on the plus side); functions are instantiated independently on the two sides.
    jump(w) = w- - w+,  avg(w) = (w- + w+)/2,  minus/plus = restrictions,  Dn = n . grad (a derivation)"""

    def __init__(self, rng, dim, coords):
        self.m = Inst(rng, dim, coords)
        self.p = Inst(rng, dim, coords)
        self.dim, self.coords = dim, list(coords)
        self.n = [Rational(rng.choice([1, 2, 3]), rng.choice([2, 3, 5])) for _ in range(dim)]
        self.cc = _mods()['cc']
        # constants are the same on both sides
        self.p.cst = self.m.cst

    def inst(self, e):
        cc = self.cc
        if isinstance(e, cc.Jump):
            a, b = self.inst(e.args[0])
            return (a - b, a - b)
        if isinstance(e, cc.Average):
            a, b = self.inst(e.args[0])
            return ((a + b) / 2, (a + b) / 2)
        if isinstance(e, cc.MinusInterfaceOperator):
            a, b = self.inst(e.args[0])
            return (a, a)
        if isinstance(e, cc.PlusInterfaceOperator):
            a, b = self.inst(e.args[0])
            return (b, b)
        if isinstance(e, cc.NormalDerivative):
            a, b = self.inst(e.args[0])
            dn = lambda v: sum((self.n[i] * diff(v, self.coords[i]) for i in range(self.dim)), S.Zero)
            return (dn(a), dn(b))
        if isinstance(e, sympy.Add):
            vs = [self.inst(a) for a in e.args]
            return (sum((v[0] for v in vs), S.Zero), sum((v[1] for v in vs), S.Zero))
        if isinstance(e, sympy.Mul):
            vs = [self.inst(a) for a in e.args]
            return (sympy.Mul(*[v[0] for v in vs]), sympy.Mul(*[v[1] for v in vs]))
        if isinstance(e, sympy.Pow):
            b, x = self.inst(e.base), self.inst(e.exp)
            return (b[0] ** x[0], b[1] ** x[1])
        return (self.m.inst(e), self.p.inst(e))
