"""S-expressions shared with the Lean driver.  A parsed S-expression is a nested Python list;
atoms are `Atom` (a str subclass) and string literals are plain `str`."""


class Atom(str):
    __slots__ = ()

    def __repr__(self):
        return 'Atom(%s)' % str.__repr__(self)


def A(x):
    return Atom(str(x))


def dumps(x):
    if isinstance(x, Atom):
        return str(x)
    if isinstance(x, bool):
        return 'true' if x else 'false'
    if isinstance(x, int):
        return str(x)
    if isinstance(x, str):
        return '"' + x.replace('\\', '\\\\').replace('"', '\\"') + '"'
    if isinstance(x, (list, tuple)):
        return '(' + ' '.join(dumps(i) for i in x) + ')'
    raise TypeError('cannot dump %r' % (x,))


def loads_all(s):
    """parse a line into the list of its top-level S-expressions"""
    out, stack, i, n = [], [], 0, len(s)
    cur = out
    while i < n:
        c = s[i]
        if c in ' \t\r\n':
            i += 1
        elif c == '(':
            new = []
            cur.append(new)
            stack.append(cur)
            cur = new
            i += 1
        elif c == ')':
            if not stack:
                raise ValueError('unbalanced )')
            cur = stack.pop()
            i += 1
        elif c == '"':
            i += 1
            buf = []
            while True:
                if i >= n:
                    raise ValueError('unterminated string')
                c = s[i]
                if c == '\\':
                    buf.append(s[i + 1])
                    i += 2
                elif c == '"':
                    i += 1
                    break
                else:
                    buf.append(c)
                    i += 1
            cur.append(''.join(buf))
        else:
            j = i
            while j < n and s[j] not in ' \t\r\n()"':
                j += 1
            cur.append(Atom(s[i:j]))
            i = j
    if stack:
        raise ValueError('unbalanced (')
    return out


def loads(s):
    xs = loads_all(s)
    if len(xs) != 1:
        raise ValueError('expected one S-expression, got %d' % len(xs))
    return xs[0]
