"""entry point: python harness/run.py <Cxx> [--tier quick|thorough] [--replay file]"""
import importlib
import os
import sys

sys.path.insert(0, os.path.dirname(os.path.dirname(os.path.abspath(__file__))))
from harness import common  # noqa: E402


def main():
    if len(sys.argv) < 2:
        print('usage: check <Cxx> [--tier quick|thorough] [--replay file]')
        return 2
    pid = sys.argv[1].upper()
    try:
        spec = importlib.import_module('harness.props.' + pid.lower())
    except ModuleNotFoundError as e:
        print('INFRA-ERROR: no check for %s (%s)' % (pid, e))
        return 2
    return common.run_property(spec, sys.argv[1:])


if __name__ == '__main__':
    sys.exit(main())
