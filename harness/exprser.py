"""sympy / sympde expression  <->  S-expression of the shared Lean AST (Model/Expr.lean).

`Ser.ser` writes arguments in `expr.args` order and never re-sorts.  `Ser.build` rebuilds a
model output with the *real* classes, operator nodes unevaluated, so that sympy's own
canonicalisation of Add/Mul/Pow is what the result is compared under."""
from harness.sexp import A, dumps

COORDS = ('x', 'y', 'z', 'x1', 'x2', 'x3')
FUNCS = ('sin', 'cos', 'exp', 'log', 'tan', 'sinh', 'cosh', 'Abs', 'sqrt')


def _mods():
    import sympy
    from sympy import (Add, Mul, Pow, Integer, Rational, Float, Symbol, Tuple, Matrix,
                       ImmutableDenseMatrix, Basic, S)
    from sympde.core import Constant
    from sympde.topology.space import ScalarFunction, VectorFunction, IndexedVectorFunction
    from sympde.topology import derivatives as dv
    from sympde.calculus import core as cc
    from sympde.topology.domain import NormalVector, MinusNormalVector, PlusNormalVector
    from sympde.topology.datatype import (H1SpaceType, HcurlSpaceType, HdivSpaceType, L2SpaceType,
                                          UndefinedSpaceType)
    return locals()


class Ser:
    def __init__(self):
        self.m = m = _mods()
        dv, cc = m['dv'], m['cc']
        self.pd = {'x': dv.dx, 'y': dv.dy, 'z': dv.dz, 'x1': dv.dx1, 'x2': dv.dx2, 'x3': dv.dx3}
        self.pd_rev = {v: k for k, v in self.pd.items()}
        self.op1 = {'Grad': cc.Grad, 'Curl': cc.Curl, 'Rot': cc.Rot, 'Div': cc.Div, 'Laplace': cc.Laplace,
                    'Hessian': cc.Hessian, 'Jump': cc.Jump, 'Avg': cc.Average,
                    'Minus': cc.MinusInterfaceOperator, 'Plus': cc.PlusInterfaceOperator,
                    'Dn': cc.NormalDerivative}
        self.op1_rev = {v: k for k, v in self.op1.items()}
        self.op2 = {'Dot': cc.Dot, 'Cross': cc.Cross, 'Inner': cc.Inner, 'Outer': cc.Outer,
                    'Convect': cc.Convect, 'Bracket': cc.Bracket}
        self.op2_rev = {v: k for k, v in self.op2.items()}
        self.kinds = {m['H1SpaceType']: 'h1', m['HcurlSpaceType']: 'hcurl', m['HdivSpaceType']: 'hdiv',
                      m['L2SpaceType']: 'l2', m['UndefinedSpaceType']: 'undefined'}
        self.atoms = {}     # ('sf', name) / ('vf', name) / ('sym', name) / ('cst', name) -> object
        self.others = {}

    def kind(self, f):
        return self.kinds.get(type(f.space.kind), 'undefined')

    def ser(self, e):
        m = self.m
        import sympy
        if isinstance(e, bool):
            raise TypeError('bool')
        if isinstance(e, int):
            return [A('num'), e, 1]
        if isinstance(e, m['Float']):
            r = m['Rational'](e)
            return [A('num'), int(r.p), int(r.q)]
        if isinstance(e, m['Rational']):
            return [A('num'), int(e.p), int(e.q)]
        if isinstance(e, m['Constant']):
            self.atoms[('cst', e.name)] = e
            return [A('cst'), e.name]
        if isinstance(e, m['ScalarFunction']):
            self.atoms[('sf', e.name)] = e
            return [A('sf'), e.name, A(self.kind(e))]
        if isinstance(e, m['VectorFunction']):
            self.atoms[('vf', e.name)] = e
            return [A('vf'), e.name, A(self.kind(e))]
        if isinstance(e, m['IndexedVectorFunction']):
            return [A('idx'), self.ser(e.base), int(e.indices[0])]
        if isinstance(e, (m['NormalVector'],)):
            s = [A('normal'), type(e).__name__ + ':' + str(e.name if hasattr(e, 'name') else e.args[0])]
            self.atoms[('normal', s[1])] = e
            return s
        if isinstance(e, m['Symbol']):
            self.atoms[('sym', e.name)] = e
            return [A('sym'), e.name]
        if isinstance(e, m['Add']):
            return [A('add')] + [self.ser(a) for a in e.args]
        if isinstance(e, m['Mul']):
            return [A('mul')] + [self.ser(a) for a in e.args]
        if isinstance(e, m['Pow']):
            return [A('pow'), self.ser(e.base), self.ser(e.exp)]
        if type(e) in self.pd_rev:
            return [A('pd'), A(self.pd_rev[type(e)]), self.ser(e.args[0])]
        if type(e) in self.op1_rev:
            return [A(self.op1_rev[type(e)]), self.ser(e.args[0])]
        if type(e) in self.op2_rev:
            return [A(self.op2_rev[type(e)]), self.ser(e.args[0]), self.ser(e.args[1])]
        if isinstance(e, (m['Matrix'], m['ImmutableDenseMatrix'])):
            r, c = e.shape
            return [A('mat'), int(r), int(c)] + [self.ser(e[i, j]) for i in range(r) for j in range(c)]
        if isinstance(e, (m['Tuple'], tuple, list)):
            return [A('tup')] + [self.ser(a) for a in e]
        if isinstance(e, sympy.Function) and type(e).__name__ in FUNCS and len(e.args) == 1:
            return [A('fn'), type(e).__name__, self.ser(e.args[0])]
        s = [A('other'), type(e).__name__] + [self.ser(a) for a in getattr(e, 'args', ())]
        self.others[dumps(s)] = e
        return s

    def build(self, s):
        m = self.m
        import sympy
        h = str(s[0])
        if h == 'num':
            return m['Rational'](int(s[1]), int(s[2]))
        if h in ('cst', 'sf', 'vf', 'sym', 'normal'):
            k = (h, s[1])
            if k in self.atoms:
                return self.atoms[k]
            if h == 'cst':
                return m['Constant'](s[1])
            if h == 'sym':
                return m['Symbol'](s[1], real=True) if s[1] in COORDS else m['Symbol'](s[1])
            if h == 'normal':
                cname, _, nm = s[1].partition(':')
                return m[cname](nm)
            raise KeyError('unknown atom %r' % (k,))
        if h == 'idx':
            return self.build(s[1])[int(s[2])]
        if h == 'add':
            return m['Add'](*[self.build(a) for a in s[1:]])
        if h == 'mul':
            return m['Mul'](*[self.build(a) for a in s[1:]])
        if h == 'pow':
            return m['Pow'](self.build(s[1]), self.build(s[2]))
        if h == 'fn':
            return getattr(sympy, s[1])(self.build(s[2]))
        if h == 'pd':
            a = self.build(s[2])
            if a == 0:
                return m['S'].Zero          # a derivative of the literal zero
            return self.pd[str(s[1])](a, evaluate=False)
        if h in self.op1:
            return self.op1[h](self.build(s[1]), evaluate=False)
        if h in self.op2:
            return m['Basic'].__new__(self.op2[h], self.build(s[1]), self.build(s[2]))
        if h == 'mat':
            r, c = int(s[1]), int(s[2])
            es = [self.build(a) for a in s[3:]]
            return m['Matrix'](r, c, es)
        if h == 'tup':
            return m['Tuple'](*[self.build(a) for a in s[1:]])
        if h == 'other':
            return self.others[dumps(s)]
        raise ValueError('cannot rebuild %r' % (s,))


def ring_equal(a, b):
    """equality modulo the commutative-ring/field axioms, operator nodes and derivative atoms opaque"""
    import sympy
    from sympy import Matrix, ImmutableDenseMatrix, expand, together, simplify
    if isinstance(a, (Matrix, ImmutableDenseMatrix)) or isinstance(b, (Matrix, ImmutableDenseMatrix)):
        if not (isinstance(a, (Matrix, ImmutableDenseMatrix)) and isinstance(b, (Matrix, ImmutableDenseMatrix))):
            return False
        if a.shape != b.shape:
            return False
        return all(ring_equal(a[i, j], b[i, j]) for i in range(a.shape[0]) for j in range(a.shape[1]))
    a, b = sympy.sympify(a), sympy.sympify(b)
    if a == b:
        return True
    d = a - b
    if d == 0 or expand(d) == 0:
        return True
    try:
        t = together(d)
        n = sympy.fraction(t)[0]
        if expand(n) == 0:
            return True
        # log/exp identities of the power rule: b**e*e/b == b**(e-1)*e
        return simplify(d) == 0
    except Exception:
        return False
