"""T1 translator for C16 (DESIGN.md section 3): regenerates lean/SympdeModel/Gen/Mappings.lean (the stored
symbolic quantities of every catalogue mapping x admissible dimension, parameters left symbolic) and
lean/SympdeModel/Gen/MappingsThms.lean (one block of theorems per mapping x dimension) from the CURRENT
source of sympde: each class of sympde/topology/analytical_mapping.py is instantiated by the real
`Mapping.__new__` and `expressions`, `jacobian_expr`, `jacobian_inv_expr`, `metric_expr`,
`metric_det_expr` are serialised as terms of the shared AST `Sympde.E`."""
import inspect

from harness.exprser import Ser
from harness.sexp import A
from harness.translate.leaf import lean_expr

COORDS = ['x1', 'x2', 'x3']


def catalogue():
    """[(class name, class, [admissible dims])] in source order"""
    import sympde.topology.analytical_mapping as am
    from sympde.topology.mapping import Mapping
    out = []
    for name, cls in inspect.getmembers(am, inspect.isclass):
        if issubclass(cls, Mapping) and cls is not Mapping and cls.__module__ == am.__name__:
            dims = [cls._ldim] if cls._ldim is not None else [1, 2, 3]
            out.append((name, cls, dims))
    out.sort(key=lambda x: inspect.getsourcelines(x[1])[1])
    return out


class MSer(Ser):
    """the serialiser of the shared AST, with the number pi as the constant atom `pi`"""

    def ser(self, e):
        import sympy
        if e is sympy.pi:
            return [A('cst'), 'pi']
        return super().ser(e)


def instantiate(cls, dim):
    return cls('M', dim=dim) if cls._ldim is None else cls('M')


def quantities(m, ser):
    """dict of serialised stored quantities of a symbolic mapping"""
    from sympy import ImmutableDenseMatrix
    X = ImmutableDenseMatrix([[e] for e in m.expressions])
    q = {'X': ser.ser(X), 'J': ser.ser(m.jacobian_expr), 'G': ser.ser(m.metric_expr),
         'detG': ser.ser(m.metric_det_expr)}
    if m.jacobian_inv_expr is not None:
        q['Jinv'] = ser.ser(m.jacobian_inv_expr)
    q['rad'] = radical_facts(m, ser)
    return q


def radical_facts(m, ser):
    """square-root facts needed to relate the rational powers `b**(p/2)` that occur in the stored quantities:
    [(kind, base sexp, exponent (p, 2), canonical base sexp, lambda (a, b))] with the meaning
      kind 'sq'  : (b0**(1/2))**2 = b0
      kind 'pos' : b**(p/2) = (lambda * b0**(1/2))**p
      kind 'neg' : b**(p/2) * (lambda * b0**(1/2))**|p| = 1
    where b = lambda**2 * b0 as polynomials (checked with sympy here, and true of real positive bases)."""
    import sympy
    from sympy import Pow, Rational, expand, sqrt, preorder_traversal
    items = list(m.expressions) + list(m.jacobian_expr) + list(m.metric_expr) + [m.metric_det_expr]
    if m.jacobian_inv_expr is not None:
        items += list(m.jacobian_inv_expr)
    rads = []
    for it in items:
        for node in preorder_traversal(sympy.sympify(it)):
            if isinstance(node, Pow) and isinstance(node.exp, Rational) and node.exp.q != 1:
                if (node.base, node.exp) not in rads:
                    rads.append((node.base, node.exp))
    if not rads:
        return []
    classes = []       # (canonical base, expanded)
    facts = []
    for b, e in rads:
        if e.q != 2:
            return None            # outside what the generated hypotheses can express
        eb = expand(b)
        found = None
        for b0, eb0 in classes:
            r = sympy.cancel(eb / eb0)
            if r.is_Rational and r > 0 and sqrt(r).is_Rational:
                found = (b0, sqrt(r))
                break
        if found is None:
            classes.append((b, eb))
            facts.append(('sq', ser.ser(b), (1, 2), ser.ser(b), (1, 1)))
            found = (b, Rational(1))
        b0, lam = found
        if b == b0 and e == Rational(1, 2):
            continue
        facts.append(('pos' if e > 0 else 'neg', ser.ser(b), (int(e.p), 2), ser.ser(b0), (int(lam.p), int(lam.q))))
    return facts


def has_other(s):
    if isinstance(s, list):
        if s and str(s[0]) == 'other':
            return True
        return any(has_other(a) for a in s)
    return False


def entries():
    """[(ident, class name, ldim, pdim, {quantity: sexp} | ('err', ExcName))]"""
    ser = MSer()
    out = []
    for name, cls, dims in catalogue():
        for d in dims:
            ident = '%s_%d' % (name.replace('Mapping', ''), d)
            try:
                m = instantiate(cls, d)
                out.append((ident, name, int(m.ldim), int(m.pdim), quantities(m, ser)))
            except Exception as e:           # the real constructor refused: a broken tie
                out.append((ident, name, d, d, ('err', type(e).__name__)))
    return out


def mat_entries(s):
    """(rows, cols, [entry sexps]) of a serialised matrix"""
    assert str(s[0]) == 'mat'
    return int(s[1]), int(s[2]), s[3:]


def rad_bases(q):
    """distinct base expressions of the radical facts, in order"""
    out = []
    for f in (q.get('rad') or []):
        for b in (f[1], f[3]):
            if b not in out:
                out.append(b)
    return out


SIMPSET = ('asFrac, asFracSum, asFracProd, powN, invE, mulS, isOne, PD.intLit, PD.sdiff, PD.sdiffList, PD.prodRule, '
           'PD.powRule, PD.fnDeriv, PD.mulOf, den, denSum, denProd, denNth, powSem, Coord.name, Coord.ofIdx, E.zero, E.one, '
           'E.neg, DRing.sumN, detK, map_ofNat, map_neg, map_one, map_zero, map_intCast, map_natCast')


def rad_structure(ident, q):
    """Lean source of the structure of square-root hypotheses of a mapping (or '' if it needs none)"""
    facts = q.get('rad') or []
    if not facts:
        return ''
    bases = rad_bases(q)
    B = lambda b: '%s_rad%d' % (ident, bases.index(b))
    root = lambda b: 'den S (.pow %s (.num 1 2)) 0 0' % B(b)
    L = ['/-- the facts about square roots (true of real positive bases) that relate the rational powers occurring in',
         '    the stored quantities of %s; hypotheses of the theorems below -/' % ident,
         'structure %s_Rad (S : DRing K) : Prop where' % ident]
    for k, (kind, b, (pp, qq), b0, (la, lb)) in enumerate(facts):
        assert lb == 1
        lam = '' if la == 1 else '%d * ' % la
        if kind == 'sq':
            L.append('  r%d : %s * %s = den S %s 0 0' % (k, root(b0), root(b0), B(b0)))
        elif kind == 'pos':
            L.append('  r%d : den S (.pow %s (.num %d 2)) 0 0 = (%s%s) ^ %d' % (k, B(b), pp, lam, root(b0), pp))
        else:
            L.append('  r%d : den S (.pow %s (.num (%d) 2)) 0 0 * (%s%s) ^ %d = 1' % (k, B(b), pp, lam, root(b0), -pp))
    return '\n'.join(L) + '\n'


def close_tac(ident, q, names):
    """the tactic block that proves `den S (asFrac …).n 0 0 = 0` for an expression over the named entries"""
    facts = q.get('rad') or []
    if not facts:
        return 'by map_tac [%s]' % ', '.join(names)
    rs = ' '.join('r%d' % k for k in range(len(facts)))
    bases = ', '.join('%s_rad%d' % (ident, k) for k in range(len(rad_bases(q))))
    return ('by\n    obtain ⟨%s⟩ := R\n    simp [%s, %s] at %s\n    simp [%s, %s]\n    first | done | (ring_nf at %s ⊢; first | done | grind)'
            % (', '.join('r%d' % k for k in range(len(facts))), bases, SIMPSET, rs, ', '.join(names), SIMPSET, rs))


def gen_defs(es):
    lines = ['/- GENERATED by harness/translate/mappings.py from the current /repo source',
             '   (sympde/topology/analytical_mapping.py through Mapping.__new__ of sympde/topology/mapping.py) — do not edit.',
             '   For every catalogue mapping x admissible dimension, with symbolic parameters: the coordinate',
             '   expressions X (a column), the stored Jacobian J, inverse Jacobian Jinv, metric G and metric',
             '   determinant detG, entry by entry. -/',
             'import SympdeModel.Model.Expr',
             'namespace Sympde.Gen.Map',
             'open Sympde',
             '']
    for ident, name, ld, pd, q in es:
        if not isinstance(q, dict):
            lines.append('def %s_raises : String := "%s"' % (ident, q[1]))
            continue
        for key in ('X', 'J', 'Jinv', 'G'):
            if key not in q:
                continue
            r, c, ents = mat_entries(q[key])
            for i in range(r):
                for j in range(c):
                    lines.append('def %s_%s%d%d : E := %s' % (ident, key, i, j, lean_expr(ents[i * c + j])))
            lines.append('def %s_%s : E := .mat %d %d [%s]' % (
                ident, key, r, c, ', '.join('%s_%s%d%d' % (ident, key, i, j) for i in range(r) for j in range(c))))
        lines.append('def %s_detG : E := %s' % (ident, lean_expr(q['detG'])))
        for k, b in enumerate(rad_bases(q)):
            lines.append('def %s_rad%d : E := %s' % (ident, k, lean_expr(b)))
        lines.append('')
    lines.append('end Sympde.Gen.Map')
    return '\n'.join(lines) + '\n'


def E_neg(t):
    return '(.mul [.num (-1) 1, %s])' % t


def det_term(ident, n):
    """the determinant of the stored metric as an E term over the generated entries"""
    g = lambda i, j: '%s_G%d%d' % (ident, i, j)
    m = lambda *xs: '(.mul [%s])' % ', '.join(xs)
    if n == 1:
        return g(0, 0)
    if n == 2:
        return '(.add [%s, %s])' % (m(g(0, 0), g(1, 1)), E_neg(m(g(0, 1), g(1, 0))))
    t = []
    for (a, b, c), sgn in (((0, 1, 2), 1), ((1, 2, 0), 1), ((2, 0, 1), 1), ((0, 2, 1), -1), ((1, 0, 2), -1), ((2, 1, 0), -1)):
        x = m(g(0, a), g(1, b), g(2, c))
        t.append(x if sgn > 0 else E_neg(x))
    return '(.add [%s])' % ', '.join(t)


def det_value(ident, n):
    return 'detK %d (fun i j => den S %s_G i j)' % (n, ident)


def clean(s):
    """no negative / non-integer literal power anywhere (Lean: `Frac.polyLike`)"""
    if not isinstance(s, list):
        return True
    h = str(s[0])
    if h == 'pow':
        e = s[2]
        if not (isinstance(e, list) and str(e[0]) == 'num' and int(e[2]) == 1 and int(e[1]) >= 0):
            return False
        return clean(s[1])
    if h in ('num', 'cst', 'sym'):
        return True
    if h in ('add', 'mul'):
        return all(clean(a) for a in s[1:])
    if h == 'fn':
        return clean(s[2])
    if h == 'mat':
        return all(clean(a) for a in s[3:])
    return False


def nd(hyp, term, is_clean):
    """Lean proof term of `NonDeg S term`"""
    return '(polyLike_nonDeg S _ (by decide))' if is_clean else hyp


def gen_block(ident, name, ld, pd, q):
    """Lean source of the theorem block of one mapping x dimension; returns (text, [theorem names], [hypothesis notes])"""
    L, names = [], []
    P = L.append
    coords = ['.x1', '.x2', '.x3']
    X = lambda i: '%s_X%d0' % (ident, i)
    J = lambda i, j: '%s_J%d%d' % (ident, i, j)
    I = lambda i, j: '%s_Jinv%d%d' % (ident, i, j)
    G = lambda i, j: '%s_G%d%d' % (ident, i, j)
    cX, cJ, cG, cD = clean(q['X']), clean(q['J']), clean(q['G']), clean(q['detG'])
    square = 'Jinv' in q
    notes = []
    hX = '' if cX else ' (hX : NonDeg S %s_X)' % ident
    hJ = '' if cJ else ' (hJ : NonDeg S %s_J)' % ident
    hG = '' if cG else ' (hG : NonDeg S %s_G)' % ident
    hD = '' if cD else ' (hD : NonDeg S %s_detG)' % ident
    hI = ' (hI : NonDeg S %s_Jinv)' % ident
    hR = ' (R : %s_Rad S)' % ident if q.get('rad') else ''
    aR = ' R' if q.get('rad') else ''
    unfold = 'simp only [%s_X, %s_J, %s_G, %sNonDeg, NonDegList] at *' % (
        ident, ident, ident, ('%s_Jinv, ' % ident) if square else '')
    P('/-! ### %s, ldim = %d, pdim = %d -/' % (name, ld, pd))
    P('')
    # ---- the stored Jacobian is the derivative of the stored coordinate expressions
    for i in range(pd):
        for j in range(ld):
            hd = '' if cX else ' (hdX : NonDeg S (PD.sdiff %s %s))' % (coords[j], X(i))
            if q.get('rad'):
                P('set_option maxHeartbeats 2000000 in')
            P('theorem %s_jac_%d%d (S : DRing K) (T : FnTable S)%s%s%s%s :' % (ident, i, j, hR, hX, hJ, hd))
            P('    den S %s 0 0 = S.D %s (den S %s 0 0) := by' % (J(i, j), coords[j], X(i)))
            P('  have hx : NonDeg S %s := %s' % (X(i), '(polyLike_nonDeg S _ (by decide))' if cX else '(by %s; tauto)' % unfold))
            P('  have hj : NonDeg S %s := %s' % (J(i, j), '(polyLike_nonDeg S _ (by decide))' if cJ else '(by %s; tauto)' % unfold))
            P('  have hd : NonDeg S (PD.sdiff %s %s) := %s' % (coords[j], X(i), '(polyLike_nonDeg S _ (by decide))' if cX else 'hdX'))
            P('  rw [← sdiff_sound S T %s %s (by decide) hx 0 0]' % (coords[j], X(i)))
            P('  have ht : NonDeg S (.add [%s, %s]) := by' % (J(i, j), E_neg('PD.sdiff %s %s' % (coords[j], X(i)))))
            P('    simp only [NonDeg, NonDegList]; tauto')
            P('  exact eq_of_frac_zero S _ _ ht 0 0 (%s)' % close_tac(ident, q, [J(i, j), X(i)]))
            P('')
    P('/-- **the stored Jacobian is the derivative of the stored coordinate expressions**: (J)ᵢⱼ = ∂Xᵢ/∂xⱼ in every')
    P('    differential ring, for all parameter values and points. -/')
    hd_all = '' if cX else ''.join(' (hd%d%d : NonDeg S (PD.sdiff %s %s))' % (i, j, coords[j], X(i)) for i in range(pd) for j in range(ld))
    P('theorem jac_is_derivative_%s (S : DRing K) (T : FnTable S)%s%s%s%s (i j : Nat) (hi : i < %d) (hj : j < %d) :' % (ident, hR, hX, hJ, hd_all, pd, ld))
    P('    den S %s_J i j = S.D (Coord.ofIdx true j) (den S %s_X i 0) := by' % (ident, ident))
    P('  interval_cases i <;> interval_cases j <;> simp only [%s_J, %s_X, den, denNth, Coord.ofIdx] <;> simp only [reduceIte, and_self, Nat.lt_irrefl] <;> first' % (ident, ident))
    for i in range(pd):
        for j in range(ld):
            args = 'S T' + aR + ('' if cX else ' hX') + ('' if cJ else ' hJ') + ('' if cX else ' hd%d%d' % (i, j))
            P('    | exact %s_jac_%d%d %s' % (ident, i, j, args))
    P('')
    names.append('jac_is_derivative_%s' % ident)
    # ---- the metric is the Gram matrix of the Jacobian
    for i in range(ld):
        for j in range(ld):
            gram = '.add [%s]' % ', '.join('.mul [%s, %s]' % (J(k, i), J(k, j)) for k in range(pd))
            if q.get('rad'):
                P('set_option maxHeartbeats 2000000 in')
            P('theorem %s_gram_%d%d (S : DRing K)%s%s%s :' % (ident, i, j, hR, hJ, hG))
            P('    den S %s 0 0 = %s := by' % (G(i, j), ' + '.join('den S %s 0 0 * den S %s 0 0' % (J(k, i), J(k, j)) for k in range(pd))))
            P('  have ht : NonDeg S (.add [%s, %s]) := by' % (G(i, j), E_neg('(%s)' % gram)))
            if cJ and cG:
                P('    exact polyLike_nonDeg S _ (by decide)')
            else:
                P('    have hj : NonDeg S %s_J := %s' % (ident, nd('hJ', '', cJ)))
                P('    have hg : NonDeg S %s_G := %s' % (ident, nd('hG', '', cG)))
                P('    %s; simp [NonDeg]; tauto' % unfold)
            P('  have h := eq_of_frac_zero S _ _ ht 0 0 (%s)' % close_tac(ident, q, [G(i, j)] + sorted({J(k, i) for k in range(pd)} | {J(k, j) for k in range(pd)})))
            P('  try simp [den, denSum, denProd] at h')
            P('  linear_combination h')
            P('')
    P('/-- **the stored metric is JᵀJ** -/')
    P('theorem metric_is_gram_%s (S : DRing K)%s%s%s (i j : Nat) (hi : i < %d) (hj : j < %d) :' % (ident, hR, hJ, hG, ld, ld))
    P('    den S %s_G i j = DRing.sumN %d (fun k => den S %s_J k i * den S %s_J k j) := by' % (ident, pd, ident, ident))
    P('  interval_cases i <;> interval_cases j <;> simp only [%s_J, %s_G, den, denNth, DRing.sumN] <;> simp only [reduceIte, and_self, Nat.lt_irrefl, zero_add] <;> first' % (ident, ident))
    for i in range(ld):
        for j in range(ld):
            P('    | exact %s_gram_%d%d S%s%s%s' % (ident, i, j, aR, '' if cJ else ' hJ', '' if cG else ' hG'))
    P('')
    names.append('metric_is_gram_%s' % ident)
    # ---- the stored determinant is the determinant of the stored metric
    if q.get('rad'):
        # measured: > 5 min with `grind` (the stored determinant is a quotient with square roots); not proved
        P('/- NOT PROVED (full statement; covered by the oracle only):')
        P('   theorem metric_det_is_det_%s (S : DRing K) (R : %s_Rad S) (hG : NonDeg S %s_G) (hD : NonDeg S %s_detG) :' % (ident, ident, ident, ident))
        P('       den S %s_detG 0 0 = %s -/' % (ident, det_value(ident, ld)))
        P('')
        notes.append('metric_det_is_det_%s not proved' % ident)
    else:
        if q.get('rad'):
            P('set_option maxHeartbeats 2000000 in')
        P('/-- **the stored metric determinant is det(JᵀJ)** (the determinant of the stored metric) -/')
        P('theorem metric_det_is_det_%s (S : DRing K)%s%s%s :' % (ident, hR, hG, hD))
        P('    den S %s_detG 0 0 = %s := by' % (ident, det_value(ident, ld)))
        P('  have ht : NonDeg S (.add [%s_detG, %s]) := by' % (ident, E_neg(det_term(ident, ld))))
        if cG and cD:
            P('    exact polyLike_nonDeg S _ (by decide)')
        else:
            P('    have hg : NonDeg S %s_G := %s' % (ident, nd('hG', '', cG)))
            P('    have hd : NonDeg S %s_detG := %s' % (ident, nd('hD', '', cD)))
            P('    %s; simp [NonDeg]; tauto' % unfold)
        P('  have h := eq_of_frac_zero S _ _ ht 0 0 (%s)' % close_tac(ident, q, ['%s_detG' % ident] + [G(i, j) for i in range(ld) for j in range(ld)]))
        P('  try simp [den, denSum, denProd] at h')
        P('  try simp [%s_G, den, denNth, detK]' % ident)
        P('  linear_combination h')
        P('')
        names.append('metric_det_is_det_%s' % ident)
    # ---- the stored inverse is the inverse
    if square and q.get('rad'):
        # measured: with rational powers (Czarny) the cross-multiplied identity of an inverse entry has thousands of
        # monomials and needs the square-root facts; `grind` does not close it within minutes.  Stated, not proved;
        # the oracle of harness/props/c16.py covers it (sympy + 50-digit evaluation).
        P('/- NOT PROVED (full statement; covered by the oracle only):')
        P('   theorem inv_is_inverse_%s (S : DRing K) (R : %s_Rad S) (hJ : NonDeg S %s_J) (hI : NonDeg S %s_Jinv)' % (ident, ident, ident, ident))
        P('       (i j : Nat) (hi : i < %d) (hj : j < %d) :' % (ld, ld))
        P('       DRing.sumN %d (fun k => den S %s_J i k * den S %s_Jinv k j) = if i = j then 1 else 0 -/' % (ld, ident, ident))
        P('')
        notes.append('inv_is_inverse_%s not proved' % ident)
    elif square:
        n = ld
        for i in range(n):
            for j in range(n):
                prod = '.add [(.add [%s]), .mul [.num (-1) 1, %s]]' % (', '.join('.mul [%s, %s]' % (J(i, k), I(k, j)) for k in range(n)),
                                          '.num 1 1' if i == j else '.num 0 1')
                if q.get('rad'):
                    P('set_option maxHeartbeats 4000000 in')
                P('theorem %s_inv_%d%d (S : DRing K)%s%s%s :' % (ident, i, j, hR, hJ, hI))
                P('    %s = %s := by' % (' + '.join('den S %s 0 0 * den S %s 0 0' % (J(i, k), I(k, j)) for k in range(n)), '1' if i == j else '0'))
                P('  have ht : NonDeg S (%s) := by' % prod)
                P('    have hj : NonDeg S %s_J := %s' % (ident, nd('hJ', '', cJ)))
                P('    %s; simp [NonDeg]; tauto' % unfold)
                P('  have h := eq_of_frac_zero S _ _ ht 0 0 (%s)' % close_tac(ident, q, [J(i, k) for k in range(n)] + [I(k, j) for k in range(n)]))
                P('  try simp [den, denSum, denProd] at h')
                P('  linear_combination h')
                P('')
        P('/-- **the stored inverse Jacobian is the inverse of the stored Jacobian**, wherever the denominators of the')
        P('    stored inverse are invertible (`hI`). -/')
        P('theorem inv_is_inverse_%s (S : DRing K)%s%s%s (i j : Nat) (hi : i < %d) (hj : j < %d) :' % (ident, hR, hJ, hI, n, n))
        P('    DRing.sumN %d (fun k => den S %s_J i k * den S %s_Jinv k j) = if i = j then 1 else 0 := by' % (n, ident, ident))
        P('  interval_cases i <;> interval_cases j <;> simp only [%s_J, %s_Jinv, den, denNth, DRing.sumN] <;> simp only [reduceIte, and_self, Nat.lt_irrefl, zero_add] <;> first' % (ident, ident))
        for i in range(n):
            for j in range(n):
                P('    | exact %s_inv_%d%d S%s%s hI' % (ident, i, j, aR, '' if cJ else ' hJ'))
        P('')
        names.append('inv_is_inverse_%s' % ident)
    return '\n'.join(L) + '\n', names, notes


def gen_module(ident, name, ld, pd, q):
    text, names, notes = gen_block(ident, name, ld, pd, q)
    head = ['/- GENERATED by harness/translate/mappings.py — do not edit.  Theorems about the stored symbolic quantities of',
            '   %s (ldim %d, pdim %d) as found in Gen/Mappings.lean: in every differential ring `S` (parameters and' % (name, ld, pd),
            '   sin/cos/… of the coordinates are arbitrary ring elements), hence for all parameter values and points. -/',
            'import SympdeModel.Gen.Mappings',
            'import SympdeModel.Lemmas.Mappings',
            'namespace Sympde.Gen.Map',
            'open Sympde E PD Frac',
            'variable {K : Type} [CommRing K] [Algebra ℚ K]',
            'set_option maxRecDepth 4000',
            'set_option linter.unusedSimpArgs false',
            'set_option linter.unusedVariables false',
            '']
    return '\n'.join(head) + '\n' + rad_structure(ident, q) + '\n' + text + '\nend Sympde.Gen.Map\n', names, notes


MODULES = []        # filled by generate(): the generated theorem modules (harness/props/c16.py: EXTRA_THEOREM_MODULES)
NOT_PROVED = []     # statements kept as comments (named in the evidence)


def generate(ctx=None):
    es = entries()
    files = {'SympdeModel/Gen/Mappings.lean': gen_defs(es)}
    del MODULES[:]
    del NOT_PROVED[:]
    rows, failed, thms = [], [], []
    for ident, name, ld, pd, q in es:
        if not isinstance(q, dict):
            failed.append('("%s", "%s")' % (ident, q[1]))
            continue
        if q.get('rad') is None or any(has_other(v) for k, v in q.items() if k != 'rad'):
            failed.append('("%s", "outside the expression fragment")' % ident)
            continue
        text, names, notes = gen_module(ident, name, ld, pd, q)
        files['SympdeModel/Gen/Map/%s.lean' % ident] = text
        MODULES.append('SympdeModel.Gen.Map.%s' % ident)
        NOT_PROVED.extend(notes)
        rows.append('  ("%s", %d, %d)' % (ident, ld, pd))
        thms += names
    agg = ['/- GENERATED by harness/translate/mappings.py — do not edit.  The catalogue of analytical mappings as found in',
           '   the current source, one theorem module per mapping x admissible dimension. -/']
    agg += ['import %s' % m for m in MODULES]
    agg += ['namespace Sympde.Gen.Map', '',
            '/-- (identifier, ldim, pdim) of every catalogue mapping x admissible dimension -/',
            'def catalogue : List (String × Nat × Nat) := [', ',\n'.join(rows), ']', '',
            '/-- classes the real constructor refused, or whose stored quantities leave the expression fragment -/',
            'def notTranslated : List (String × String) := [%s]' % ', '.join(failed), '',
            'theorem catalogue_translated : notTranslated = [] := by decide', '',
            '/-- statements of the generated blocks that are kept as comments (not proved) -/',
            'def notProved : List String := [%s]' % ', '.join('"%s"' % n for n in NOT_PROVED), '',
            'end Sympde.Gen.Map', '']
    files['SympdeModel/Gen/MappingsThms.lean'] = '\n'.join(agg)
    MODULES.append('SympdeModel.Gen.MappingsThms')
    return files
