"""T1 translator for C12: the identity table, learnt from the live classes on every run.

For every class whose instances can be a cache key or a set/dict member, and every constructor
attribute, two instances that differ only in that attribute are built; the row records whether they
compare `==`, whether their hashes agree, and for which cached entry points the result differs.

`learn()` runs inside `harness/c12worker.py identity`, i.e. in a fresh interpreter with a fixed
PYTHONHASHSEED; the sympy cache is cleared before every single evaluation, so every entry point
really computes and a difference of results means that the attribute is *read*.
`generate(ctx)` (listed in `GEN` of harness/props/c12.py) starts that interpreter and renders
`lean/SympdeModel/Gen/Identity.lean`.
"""
import json
import os
import subprocess
import sys

HERE = os.path.dirname(os.path.abspath(__file__))
WORKER = os.path.join(os.path.dirname(HERE), 'c12worker.py')


def _entry_points():
    from sympde.topology import (Domain, Square, Mapping, PolarMapping, ScalarFunctionSpace, VectorFunctionSpace,
                                 element_of, LogicalExpr, SymbolicExpr, dx, dy)
    from sympde.calculus import grad, div, dot
    from sympde.calculus.core import has, is_zero
    from sympde.expr import BilinearForm, integral, EssentialBC, Equation, LinearForm
    from sympde.expr.evaluation import TerminalExpr
    from sympde.topology.derivatives import get_index_derivatives, Grad_2d, Grad_3d
    from sympde.exterior import hodge, d
    from sympde.core import Constant

    def dom_grad(D):
        V = ScalarFunctionSpace('V', D)
        u = element_of(V, 'u')
        return TerminalExpr(grad(u), D)

    def dom_form(D):
        V = ScalarFunctionSpace('V', D)
        u, v = element_of(V, 'u'), element_of(V, 'v')
        return TerminalExpr(BilinearForm((u, v), integral(D, dot(grad(u), grad(v)))), D)

    def dom_logical(D):
        V = ScalarFunctionSpace('V', D)
        u = element_of(V, 'u')
        return LogicalExpr(dx(u), D)

    def sp_grad(V):
        u = element_of(V, 'u')
        return TerminalExpr(grad(u), V.domain)

    def vsp_div(V):
        F = element_of(V, 'F')
        return [TerminalExpr(div(F), V.domain), LogicalExpr(div(F), V.domain) if V.domain.mapping else None]

    def fn_terminal(u):
        e = grad(u) if not getattr(u, 'shape', None) else div(u)
        return TerminalExpr(e, u.space.domain)

    def fn_logical(u):
        e = dx(u) if not getattr(u, 'shape', None) else div(u)
        return LogicalExpr(e, u.space.domain) if u.space.domain.mapping else TerminalExpr(e, u.space.domain)

    def fn_symbolic(u):
        return SymbolicExpr(dx(dy(u)))

    def fn_dx(u):
        return [dx(2 * u * u), sorted(get_index_derivatives(dx(dy(u))).items()), has(dx(u), type(u)), is_zero(dx(u) - dx(u))]

    def map_logical(M):
        D = M(Square('A'))
        V = ScalarFunctionSpace('V', D)
        u = element_of(V, 'u')
        return [LogicalExpr(dx(u), D), str(D), getattr(M, 'jacobian_expr', None)]

    def const_dx(c):
        D = Domain('Omega', dim=2)
        u = element_of(ScalarFunctionSpace('V', D), 'u')
        return [dx(c * u), TerminalExpr(grad(c * u), D), c.is_real]

    def form_hodge(v):
        return [hodge(hodge(-v)), d(2 * v)]

    def bc_equation(bc):
        u = bc.variable
        V = u.space
        v = element_of(V, 'v')
        D = V.domain
        eq = Equation(BilinearForm((u, v), integral(D, u * v)), LinearForm(v, integral(D, v)), tests=v, trials=u, bc=bc)
        return [(str(c.lhs), str(c.rhs), str(c.boundary), c.position, c.order) for c in eq.bc]

    def face_form(G):
        D = G.domain
        V = ScalarFunctionSpace('V', D)
        u, v = element_of(V, 'u'), element_of(V, 'v')
        from sympde.calculus import Dn
        return TerminalExpr(BilinearForm((u, v), integral(G, Dn(u) * v)), D)

    def dom_dict(D):
        return json.dumps(D.todict(), sort_keys=True)

    return locals()


def _classes():
    """(class label, factory(**attrs), base attrs, variants {attr: value}, [entry point names])"""
    from sympde.topology import (Domain, Square, Mapping, PolarMapping, ScalarFunctionSpace, VectorFunctionSpace,
                                 element_of)
    from sympde.topology.basic import InteriorDomain, Boundary
    from sympde.exterior import DifferentialForm
    from sympde.core import Constant
    from sympde.expr import EssentialBC

    def sq(name, lo):
        return Square(name, bounds1=(lo, lo + 1))

    def mapped(name, lo, mname, mtype):
        M = PolarMapping(mname, dim=2, c1=0, c2=0, rmin=0, rmax=1) if mtype == 'polar' else Mapping(mname, dim=2)
        return M(sq(name, lo))

    def dom(name, dim):
        return Domain(name, dim=dim)

    def sspace(name, dname, dim, kind):
        return ScalarFunctionSpace(name, dom(dname, dim), kind=kind)

    def vspace(name, dname, lo, kind, mname):
        return VectorFunctionSpace(name, mapped(dname, lo, mname, 'plain'), kind=kind)

    def sfn(name, sname, dname, dim, kind):
        return element_of(sspace(sname, dname, dim, kind), name)

    def vfn(name, sname, kind, mname):
        return element_of(vspace(sname, 'A', 0, kind, mname), name)

    def bc(rhs, face):
        D = sq('A', 0)
        u = element_of(ScalarFunctionSpace('V', D), 'u')
        return EssentialBC(u, rhs, D.get_boundary(axis=face, ext=1))

    return [
        ('Domain', dom, dict(name='Omega', dim=2), dict(name='Omega2', dim=3), ['dom_grad', 'dom_form']),
        ('InteriorDomain', lambda name, dim: InteriorDomain(name, dim=dim), dict(name='I', dim=2), dict(name='J', dim=3), []),
        ('Square', sq, dict(name='A', lo=0), dict(name='B', lo=3), ['dom_grad', 'dom_dict']),
        ('MappedDomain', mapped, dict(name='A', lo=0, mname='M', mtype='plain'),
         dict(name='B', lo=3, mname='N', mtype='polar'), ['dom_logical', 'dom_dict']),
        ('Boundary', lambda axis, ext: sq('A', 0).get_boundary(axis=axis, ext=ext), dict(axis=0, ext=-1), dict(axis=1, ext=1), ['face_form']),
        ('ScalarFunctionSpace', sspace, dict(name='V', dname='Omega', dim=2, kind='h1'),
         dict(name='W', dname='Omega2', dim=3, kind='l2'), ['sp_grad']),
        ('VectorFunctionSpace', vspace, dict(name='V', dname='A', lo=0, kind='h1', mname='M'),
         dict(name='W', dname='B', lo=3, kind='hdiv', mname='N'), ['vsp_div']),
        ('ScalarFunction', sfn, dict(name='u', sname='V', dname='Omega', dim=2, kind='h1'),
         dict(name='w', sname='W', dname='Omega2', dim=3, kind='l2'), ['fn_terminal', 'fn_symbolic', 'fn_dx']),
        ('VectorFunction', vfn, dict(name='F', sname='V', kind='h1', mname='M'),
         dict(name='G', sname='W', kind='hdiv', mname='N'), ['fn_terminal', 'fn_logical', 'fn_dx']),
        ('Mapping', lambda name, dim: Mapping(name, dim=dim), dict(name='M', dim=2), dict(name='N'), ['map_logical']),
        ('PolarMapping', lambda name, rmax, c1: PolarMapping(name, dim=2, c1=c1, c2=0, rmin=0, rmax=rmax),
         dict(name='M', rmax=1, c1=0), dict(name='N', rmax=2, c1=5), ['map_logical']),
        ('Constant', lambda name, real: Constant(name, real=real), dict(name='c', real=True), dict(name='k', real=False), ['const_dx']),
        ('DifferentialForm', lambda name, index, dim: DifferentialForm(name, index, dim), dict(name='v1', index=1, dim=2),
         dict(name='w1', index=2, dim=3), ['form_hodge']),
        ('EssentialBC', bc, dict(rhs=0, face=0), dict(rhs=1, face=1), ['bc_equation']),
    ]


def learn():
    from sympy.core.cache import clear_cache
    eps = _entry_points()
    rows = []
    for label, make, base, variants, epnames in _classes():
        for attr in sorted(variants):
            va = dict(base)
            va[attr] = variants[attr]
            try:
                a, b = make(**base), make(**va)
                eq = bool(a == b)
                heq = hash(a) == hash(b)
            except Exception as e:
                rows.append({'cls': label, 'attr': attr, 'eq': False, 'hashEq': False, 'reads': ['ERROR:' + type(e).__name__]})
                continue
            reads = []
            for n in epnames:
                res = []
                for o in (make(**base), make(**va)):
                    clear_cache()          # every evaluation really computes
                    try:
                        res.append(str(eps[n](o)))
                    except Exception as e:
                        res.append('raised ' + type(e).__name__)
                if res[0] != res[1]:
                    reads.append(n)
            rows.append({'cls': label, 'attr': attr, 'eq': eq, 'hashEq': heq, 'reads': reads})
    return rows


def learn_in_fresh_process(repo):
    env = dict(os.environ)
    env.update({'PYTHONHASHSEED': '0', 'SYMPDE_REPO': repo})
    env.pop('SYMPY_USE_CACHE', None)
    p = subprocess.run([sys.executable, WORKER, 'identity'], capture_output=True, text=True, env=env, timeout=600)
    if p.returncode != 0:
        raise RuntimeError('identity worker failed: ' + p.stderr[-2000:])
    return json.loads(p.stdout.strip().split('\n')[-1])


def lean_str(s):
    return '"' + s.replace('\\', '\\\\').replace('"', '\\"') + '"'


def render(rows):
    lines = ['/-', '  GENERATED on every run by harness/translate/identity.py from the live sympde classes; do not edit.',
             '  One row per (class, constructor attribute): two instances differing only there - do they compare ==,',
             '  do their hashes agree, and which cached entry points give different (uncached) results on them.', '-/',
             'import SympdeModel.Model.Memo', 'namespace Sympde.Gen', 'open Sympde.Memo', '',
             'def identity : List Row := [']
    body = []
    for r in rows:
        body.append('  ⟨%s, %s, %s, %s, [%s]⟩' % (lean_str(r['cls']), lean_str(r['attr']), 'true' if r['eq'] else 'false',
                                                'true' if r['hashEq'] else 'false', ', '.join(lean_str(x) for x in r['reads'])))
    lines.append(',\n'.join(body))
    lines += [']', '', 'end Sympde.Gen', '']
    return '\n'.join(lines)


def generate(ctx):
    rows = learn_in_fresh_process(ctx.repo)
    ctx.identity_rows = rows
    return {'SympdeModel/Gen/Identity.lean': render(rows)}
