"""T1 translator (DESIGN.md section 3): regenerates lean/SympdeModel/Gen/Leaf.lean from the CURRENT
source of sympde by executing every dimension-specific leaf class
({Grad,Curl,Rot,Div,Laplace,Hessian,Bracket}_{1,2,3}d, Logical…, {Dot,Cross,Inner}_{1,2,3}d as
imported by sympde/expr/evaluation.py) on generic arguments and serialising the formula it returns.

Argument shapes ("signatures"):  s = scalar atom, d = scalar atom whose [i] is itself (what a
derivative node dx(..) does), v = d×1 column Matrix of atoms, t = Tuple of d atoms, m = d×d Matrix of atoms.  Placeholder atoms are ScalarFunctions named @k (scalar), @k_i, @k_i_j."""
import itertools

from harness.exprser import Ser
from harness.sexp import dumps

UNARY = ['Grad', 'Curl', 'Rot', 'Div', 'Laplace', 'Hessian']
BINARY_D = ['Bracket']
BINARY_A = ['Dot', 'Cross', 'Inner', 'Outer', 'Convect']
SIGS = ['s', 'd', 'v', 't', 'm']


def placeholders(dim):
    from sympde.topology import Domain, ScalarFunctionSpace, element_of
    D = Domain('GenericLeafDomain%d' % dim, dim=dim)
    V = ScalarFunctionSpace('GenericLeafSpace%d' % dim, D)

    from sympde.topology.space import ScalarFunction

    class IndexableScalar(ScalarFunction):
        """a scalar atom behaving like a DifferentialOperator node under indexing (u[i] is u)"""
        def __getitem__(self, i):
            return self

    def atom(n, indexable=False):
        return IndexableScalar(V, n) if indexable else element_of(V, name=n)
    return atom


def make_arg(atom, k, sig, dim):
    from sympy import ImmutableDenseMatrix, Tuple
    if sig == 's':
        return atom('@%d' % k)
    if sig == 'd':
        return atom('@%d' % k, indexable=True)
    if sig == 'v':
        return ImmutableDenseMatrix([[atom('@%d_%d' % (k, i))] for i in range(dim)])
    if sig == 't':
        return Tuple(*[atom('@%d_%d' % (k, i)) for i in range(dim)])
    return ImmutableDenseMatrix([[atom('@%d_%d_%d' % (k, i, j)) for j in range(dim)] for i in range(dim)])


def lean_expr(s):
    """S-expression (nested list as produced by Ser.ser) -> Lean term of type E"""
    h = str(s[0])
    if h == 'num':
        p = int(s[1])
        return '(.num (%s) %d)' % (p, int(s[2])) if p < 0 else '(.num %d %d)' % (p, int(s[2]))
    if h in ('cst', 'sym'):
        return '(.%s "%s")' % (h, s[1])
    if h in ('sf', 'vf'):
        k = {'h1': '.h1', 'hcurl': '.hcurl', 'hdiv': '.hdiv', 'l2': '.l2', 'undefined': '.undef'}[str(s[2])]
        return '(.%s "%s" %s)' % (h, s[1], k)
    if h == 'idx':
        return '(.idx %s %d)' % (lean_expr(s[1]), int(s[2]))
    if h in ('add', 'mul', 'tup'):
        return '(.%s [%s])' % (h, ', '.join(lean_expr(a) for a in s[1:]))
    if h == 'pow':
        return '(.pow %s %s)' % (lean_expr(s[1]), lean_expr(s[2]))
    if h == 'fn':
        return '(.fn "%s" %s)' % (s[1], lean_expr(s[2]))
    if h == 'pd':
        return '(.pd .%s %s)' % (s[1], lean_expr(s[2]))
    if h == 'mat':
        return '(.mat %d %d [%s])' % (int(s[1]), int(s[2]), ', '.join(lean_expr(a) for a in s[3:]))
    if h == 'other':
        return '(.other "%s" [%s])' % (s[1], ', '.join(lean_expr(a) for a in s[2:]))
    if h == 'normal':
        return '(.normal "%s")' % s[1]
    o1 = {'Grad': 'grad', 'Curl': 'curl', 'Rot': 'rot', 'Div': 'div', 'Laplace': 'laplace', 'Hessian': 'hessian',
          'Jump': 'jump', 'Avg': 'avg', 'Minus': 'minus', 'Plus': 'plus', 'Dn': 'dn'}
    if h in o1:
        return '(.op1 .%s %s)' % (o1[h], lean_expr(s[1]))
    o2 = {'Dot': 'dot', 'Cross': 'cross', 'Inner': 'inner', 'Outer': 'outer', 'Convect': 'convect', 'Bracket': 'bracket'}
    if h in o2:
        return '(.op2 .%s %s %s)' % (o2[h], lean_expr(s[1]), lean_expr(s[2]))
    raise ValueError('no Lean form for %r' % (s,))


def entries():
    """[(class name, signature, dim, logical, nargs, outcome)] where outcome = ('ok', sexp) | ('err', ExcName) | ('absent',)"""
    import sympde.expr.evaluation as ev
    ser = Ser()
    out = []
    for dim in (1, 2, 3):
        atom = placeholders(dim)
        for op in UNARY + BINARY_D:
            for logical in (False, True):
                cname = '%s%s_%dd' % ('Logical' if logical else '', op, dim)
                cls = getattr(ev, cname, None)
                n = 2 if op in BINARY_D else 1
                for sig in itertools.product(SIGS, repeat=n):
                    sigs = ''.join(sig)
                    if cls is None:
                        out.append((cname, sigs, dim, logical, n, ('absent',)))
                        continue
                    args = [make_arg(atom, k, s, dim) for k, s in enumerate(sig)]
                    try:
                        r = cls(*args)
                        out.append((cname, sigs, dim, logical, n, ('ok', ser.ser(r))))
                    except Exception as e:
                        out.append((cname, sigs, dim, logical, n, ('err', type(e).__name__)))
        for op in BINARY_A:
            cname = '%s_%dd' % (op, dim)
            cls = getattr(ev, cname, None)
            for sig in itertools.product(SIGS, repeat=2):
                sigs = ''.join(sig)
                if cls is None:
                    out.append((cname, sigs, dim, False, 2, ('absent',)))
                    continue
                args = [make_arg(atom, k, s, dim) for k, s in enumerate(sig)]
                try:
                    r = cls(*args)
                    out.append((cname, sigs, dim, False, 2, ('ok', ser.ser(r))))
                except Exception as e:
                    out.append((cname, sigs, dim, False, 2, ('err', type(e).__name__)))
    return out


def generate(ctx=None):
    es = entries()
    lines = ['/- GENERATED by harness/translate/leaf.py from the current /repo source (sympde/topology/derivatives.py,',
             '   sympde/core/algebra.py as imported by sympde/expr/evaluation.py) — do not edit.  Every entry is the',
             '   formula the real class returns on generic arguments. -/',
             'import SympdeModel.Model.Expr',
             'namespace Sympde.Gen',
             'open Sympde',
             '',
             'inductive LeafOut where',
             '  | formula (e : E)',
             '  | raises (exc : String)',
             '  | absent',
             '  deriving Repr, Inhabited',
             '']
    names = []
    for cname, sigs, dim, logical, n, outc in es:
        ident = '%s_%s' % (cname, sigs)
        names.append((cname, sigs, ident))
        if outc[0] == 'ok':
            lines.append('def %s : E := %s' % (ident, lean_expr(outc[1])))
        elif outc[0] == 'err':
            lines.append('def %s_raises : String := "%s"' % (ident, outc[1]))
    lines.append('')
    lines.append('def leafTable : List (String × String × LeafOut) := [')
    rows = []
    for cname, sigs, dim, logical, n, outc in es:
        ident = '%s_%s' % (cname, sigs)
        if outc[0] == 'ok':
            rows.append('  ("%s", "%s", .formula %s)' % (cname, sigs, ident))
        elif outc[0] == 'err':
            rows.append('  ("%s", "%s", .raises %s_raises)' % (cname, sigs, ident))
        else:
            rows.append('  ("%s", "%s", .absent)' % (cname, sigs))
    lines.append(',\n'.join(rows))
    lines.append(']')
    lines.append('')
    lines.append('end Sympde.Gen')
    return {'SympdeModel/Gen/Leaf.lean': '\n'.join(lines) + '\n'}


if __name__ == '__main__':
    import sys
    sys.path.insert(0, '/verif')
    from harness.common import setup_repo_path
    setup_repo_path()
    for e in entries():
        print(e[0], e[1], e[5][0], dumps(e[5][1])[:150] if e[5][0] == 'ok' else e[5][1:] )
