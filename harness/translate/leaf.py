"""T1 translator (DESIGN.md section 3): regenerates lean/SympdeModel/Gen/Leaf.lean from the CURRENT
source of sympde by executing every dimension-specific leaf class
({Grad,Curl,Rot,Div,Laplace,Hessian,Bracket}_{1,2,3}d, Logical…, {Dot,Cross,Inner}_{1,2,3}d as
imported by sympde/expr/evaluation.py) on generic arguments and serialising the formula it returns.

Argument shapes ("signatures"):  s = scalar atom, d = scalar atom whose [i] is itself (what a
derivative node dx(..) does), v = d×1 column Matrix of atoms, t = Tuple of d atoms, m = d×d Matrix of atoms.  Placeholder atoms are ScalarFunctions named @k (scalar), @k_i, @k_i_j."""
import itertools

from harness.common import time_limit
from harness.exprser import Ser
from harness.sexp import dumps

UNARY = ['Grad', 'Curl', 'Rot', 'Div', 'Laplace', 'Hessian']
BINARY_D = ['Bracket']
BINARY_A = ['Dot', 'Cross', 'Inner', 'Outer', 'Convect']
SIGS = ['s', 'd', 'v', 't', 'm']


def placeholders(dim):
    from sympde.topology import Domain, ScalarFunctionSpace, element_of
    D = Domain('GenericLeafDomain%d' % dim, dim=dim)
    V = ScalarFunctionSpace('GenericLeafSpace%d' % dim, D)

    from sympde.topology.space import ScalarFunction

    class IndexableScalar(ScalarFunction):
        """a scalar atom behaving like a DifferentialOperator node under indexing (u[i] is u)"""
        def __getitem__(self, i):
            return self

    def atom(n, indexable=False):
        return IndexableScalar(V, n) if indexable else element_of(V, name=n)
    return atom


def make_arg(atom, k, sig, dim):
    from sympy import ImmutableDenseMatrix, Tuple
    if sig == 's':
        return atom('@%d' % k)
    if sig == 'd':
        return atom('@%d' % k, indexable=True)
    if sig == 'v':
        return ImmutableDenseMatrix([[atom('@%d_%d' % (k, i))] for i in range(dim)])
    if sig == 't':
        return Tuple(*[atom('@%d_%d' % (k, i)) for i in range(dim)])
    return ImmutableDenseMatrix([[atom('@%d_%d_%d' % (k, i, j)) for j in range(dim)] for i in range(dim)])


def lean_expr(s):
    """S-expression (nested list as produced by Ser.ser) -> Lean term of type E"""
    h = str(s[0])
    if h == 'num':
        p = int(s[1])
        return '(.num (%s) %d)' % (p, int(s[2])) if p < 0 else '(.num %d %d)' % (p, int(s[2]))
    if h in ('cst', 'sym'):
        return '(.%s "%s")' % (h, s[1])
    if h in ('sf', 'vf'):
        k = {'h1': '.h1', 'hcurl': '.hcurl', 'hdiv': '.hdiv', 'l2': '.l2', 'undefined': '.undef'}[str(s[2])]
        return '(.%s "%s" %s)' % (h, s[1], k)
    if h == 'idx':
        return '(.idx %s %d)' % (lean_expr(s[1]), int(s[2]))
    if h in ('add', 'mul', 'tup'):
        return '(.%s [%s])' % (h, ', '.join(lean_expr(a) for a in s[1:]))
    if h == 'pow':
        return '(.pow %s %s)' % (lean_expr(s[1]), lean_expr(s[2]))
    if h == 'fn':
        return '(.fn "%s" %s)' % (s[1], lean_expr(s[2]))
    if h == 'pd':
        return '(.pd .%s %s)' % (s[1], lean_expr(s[2]))
    if h == 'mat':
        return '(.mat %d %d [%s])' % (int(s[1]), int(s[2]), ', '.join(lean_expr(a) for a in s[3:]))
    if h == 'other':
        return '(.other "%s" [%s])' % (s[1], ', '.join(lean_expr(a) for a in s[2:]))
    if h == 'normal':
        return '(.normal "%s")' % s[1]
    o1 = {'Grad': 'grad', 'Curl': 'curl', 'Rot': 'rot', 'Div': 'div', 'Laplace': 'laplace', 'Hessian': 'hessian',
          'Jump': 'jump', 'Avg': 'avg', 'Minus': 'minus', 'Plus': 'plus', 'Dn': 'dn'}
    if h in o1:
        return '(.op1 .%s %s)' % (o1[h], lean_expr(s[1]))
    o2 = {'Dot': 'dot', 'Cross': 'cross', 'Inner': 'inner', 'Outer': 'outer', 'Convect': 'convect', 'Bracket': 'bracket'}
    if h in o2:
        return '(.op2 .%s %s %s)' % (o2[h], lean_expr(s[1]), lean_expr(s[2]))
    raise ValueError('no Lean form for %r' % (s,))


def entries():
    """[(class name, signature, dim, logical, nargs, outcome)] where outcome = ('ok', sexp) | ('err', ExcName) | ('absent',)"""
    import sympde.expr.evaluation as ev
    ser = Ser()
    out = []
    for dim in (1, 2, 3):
        atom = placeholders(dim)
        # the self-indexing scalar only matters in 1D (a 1D gradient is the bare node dx(u)); in
        # higher dimensions Matrix(u) on such an object would never terminate
        SIGS_D = SIGS if dim == 1 else [x for x in SIGS if x != 'd']
        for op in UNARY + BINARY_D:
            for logical in (False, True):
                cname = '%s%s_%dd' % ('Logical' if logical else '', op, dim)
                cls = getattr(ev, cname, None)
                n = 2 if op in BINARY_D else 1
                for sig in itertools.product(SIGS_D, repeat=n):
                    sigs = ''.join(sig)
                    if cls is None:
                        out.append((cname, sigs, dim, logical, n, ('absent',)))
                        continue
                    args = [make_arg(atom, k, s, dim) for k, s in enumerate(sig)]
                    try:
                        with time_limit(10):
                            r = cls(*args)
                        out.append((cname, sigs, dim, logical, n, ('ok', ser.ser(r))))
                    except Exception as e:
                        out.append((cname, sigs, dim, logical, n, ('err', type(e).__name__)))
        for op in BINARY_A:
            cname = '%s_%dd' % (op, dim)
            cls = getattr(ev, cname, None)
            for sig in itertools.product(SIGS_D, repeat=2):
                sigs = ''.join(sig)
                if cls is None:
                    out.append((cname, sigs, dim, False, 2, ('absent',)))
                    continue
                args = [make_arg(atom, k, s, dim) for k, s in enumerate(sig)]
                try:
                    with time_limit(10):
                        r = cls(*args)
                    out.append((cname, sigs, dim, False, 2, ('ok', ser.ser(r))))
                except Exception as e:
                    out.append((cname, sigs, dim, False, 2, ('err', type(e).__name__)))
    return out


# the well-typed entries: (operator, signature) -> rank of the result (0 scalar, 1 vector, 2 matrix)
WELL_TYPED_1 = {
    'Grad': {'s': 1, 'd': 1, 'v': 2},
    'Div': {'v': 0, 'm': 1},
    'Curl': {'v': None},        # rank depends on the dimension: 3 -> vector, 2 -> scalar
    'Rot': {'s': 1},
    'Laplace': {'s': 0, 'v': 1},
    'Hessian': {'s': 2},
}
WELL_TYPED_2 = {
    'Bracket': {'ss': 0},
    'Dot': {'vv': 0, 'mv': 1, 'vm': 1},
    'Cross': {'vv': None},      # 3 -> vector, 2 -> scalar
    'Inner': {'vv': 0, 'mm': 0},
}
OP1 = {'Grad': 'grad', 'Div': 'div', 'Curl': 'curl', 'Rot': 'rot', 'Laplace': 'laplace', 'Hessian': 'hessian'}
OP2 = {'Bracket': 'bracket', 'Dot': 'dot', 'Cross': 'cross', 'Inner': 'inner'}


def placeholder_term(k, sig, dim):
    if sig in ('s', 'd'):
        return '(.sf "@%d" .undef)' % k
    if sig == 'v':
        return '(.mat %d 1 [%s])' % (dim, ', '.join('(.sf "@%d_%d" .undef)' % (k, i) for i in range(dim)))
    if sig == 'm':
        return '(.mat %d %d [%s])' % (dim, dim, ', '.join('(.sf "@%d_%d_%d" .undef)' % (k, i, j) for i in range(dim) for j in range(dim)))
    raise ValueError(sig)


# In dimension 1 a vector or matrix value may be lowered to a bare scalar (sig 's'), to a derivative
# node (sig 'd') or to a 1x1 matrix (which `sigOf` reads as a column, sig 'v'): every combination of
# these that the dispatcher can produce for a well-typed expression gets its theorem (used by the
# structural induction `lower_sound`, Props/C01.lean).
ONE_D_1 = {'Grad': 'sdv', 'Div': 'sdv', 'Laplace': 'sdv', 'Hessian': 'sd'}
ONE_D_2 = {'Dot': 'sdv', 'Inner': 'sdv'}


def covered(op, n, sigs, dim):
    table = WELL_TYPED_1 if n == 1 and op in WELL_TYPED_1 else WELL_TYPED_2 if op in WELL_TYPED_2 else None
    if table is not None and op in table and sigs in table[op]:
        return True
    if dim == 1 and n == 1 and op in ONE_D_1:
        return sigs in ONE_D_1[op]
    if dim == 1 and n == 2 and op in ONE_D_2:
        return all(c in ONE_D_2[op] for c in sigs)
    return False


def theorems(es):
    """one Lean theorem per well-typed table entry: the formula equals the classical definition"""
    out = []
    for cname, sigs, dim, logical, n, outc in es:
        op = cname.replace('Logical', '').rsplit('_', 1)[0]
        table = WELL_TYPED_1 if n == 1 and op in WELL_TYPED_1 else WELL_TYPED_2 if op in WELL_TYPED_2 else None
        if not covered(op, n, sigs, dim):
            continue
        if outc[0] != 'ok':
            continue          # (an entry that raises is a failure of "does not fail on the fragment": see below)
        if op in ('Curl', 'Cross', 'Rot', 'Bracket') and dim == 1:
            continue
        if op in ('Rot', 'Bracket') and dim != 2:
            continue
        rank = table[op].get(sigs, 0) if dim == 1 else table[op][sigs]     # 1D: every value has the single component (0,0)
        if rank is None:
            rank = 1 if dim == 3 else 0
        if dim == 1 and op == 'Grad' and sigs in ('s', 'd'):
            rank = 0          # in 1D the gradient of a scalar is returned as the scalar dx(u)
        if dim == 1 and op in ('Div',) and sigs == 'm':
            continue
        ri = {0: 1, 1: dim, 2: dim}[rank]
        rj = {0: 1, 1: 1, 2: dim}[rank]
        args = ' '.join(placeholder_term(k, s, dim) for k, s in enumerate(sigs))
        node = '(.op1 .%s %s)' % (OP1[op], args) if n == 1 else '(.op2 .%s %s)' % (OP2[op], args)
        ident = '%s_%s' % (cname, sigs)
        out.append((ident, dim, logical, ri, rj, node, cname, sigs))
    return out


def expected_entries():
    """(class, signature) pairs that must exist and return a formula: the supported fragment does not fail"""
    out = []
    for dim in (1, 2, 3):
        for lg in ('', 'Logical'):
            for op, sigs in (('Grad', 's'), ('Grad', 'v'), ('Div', 'v'), ('Laplace', 's'), ('Laplace', 'v'), ('Hessian', 's')):
                out.append(('%s%s_%dd' % (lg, op, dim), sigs))
            if dim > 1:
                out.append(('%sDiv_%dd' % (lg, dim), 'm'))
                out.append(('%sCurl_%dd' % (lg, dim), 'v'))
            if dim == 2:
                out.append(('%sRot_2d' % lg, 's'))
                out.append(('%sBracket_2d' % lg, 'ss'))
        for op, sigs in (('Dot', 'vv'), ('Inner', 'vv')):
            out.append(('%s_%dd' % (op, dim), sigs))
        if dim > 1:
            out += [('Dot_%dd' % dim, 'mv'), ('Dot_%dd' % dim, 'vm'), ('Inner_%dd' % dim, 'mm'), ('Cross_%dd' % dim, 'vv')]
    return out


def generate(ctx=None):
    es = entries()
    lines = ['/- GENERATED by harness/translate/leaf.py from the current /repo source (sympde/topology/derivatives.py,',
             '   sympde/core/algebra.py as imported by sympde/expr/evaluation.py) — do not edit.  Every entry is the',
             '   formula the real class returns on generic arguments. -/',
             'import SympdeModel.Model.Expr',
             'namespace Sympde.Gen',
             'open Sympde',
             '',
             'inductive LeafOut where',
             '  | formula (e : E)',
             '  | raises (exc : String)',
             '  | absent',
             '  deriving Repr, Inhabited',
             '']
    names = []
    for cname, sigs, dim, logical, n, outc in es:
        ident = '%s_%s' % (cname, sigs)
        names.append((cname, sigs, ident))
        if outc[0] == 'ok':
            lines.append('def %s : E := %s' % (ident, lean_expr(outc[1])))
        elif outc[0] == 'err':
            lines.append('def %s_raises : String := "%s"' % (ident, outc[1]))
    lines.append('')
    lines.append('def leafTable : List (String × String × LeafOut) := [')
    rows = []
    for cname, sigs, dim, logical, n, outc in es:
        ident = '%s_%s' % (cname, sigs)
        if outc[0] == 'ok':
            rows.append('  ("%s", "%s", .formula %s)' % (cname, sigs, ident))
        elif outc[0] == 'err':
            rows.append('  ("%s", "%s", .raises %s_raises)' % (cname, sigs, ident))
        else:
            rows.append('  ("%s", "%s", .absent)' % (cname, sigs))
    lines.append(',\n'.join(rows))
    lines.append(']')
    lines.append('')
    lines.append('end Sympde.Gen')
    # ---- theorems: every well-typed entry equals the classical definition (Sem/DenG.lean)
    th = ['/- GENERATED by harness/translate/leaf.py — do not edit.  One theorem per well-typed entry of the leaf',
          '   table: the component formula returned by the current code equals the classical definition, in every',
          '   differential ring.  A changed formula changes Gen/Leaf.lean and the theorem stops compiling. -/',
          'import SympdeModel.Gen.Leaf',
          'import SympdeModel.Lemmas.Leaf',
          'namespace Sympde.Gen',
          'open Sympde E',
          'variable {K : Type} [CommRing K] [Algebra ℚ K]',
          '']
    tl = theorems(es)
    for ident, dim, logical, ri, rj, node, cname, sigs in tl:
        th.append('theorem leaf_%s (S : DRing K) (i j : Nat) (hi : i < %d) (hj : j < %d) :' % (ident, ri, rj))
        th.append('    den S %s i j = denG S %d %s %s i j := by' % (ident, dim, 'true' if logical else 'false', node))
        th.append('  leaf_tac %s i j' % ident)
        th.append('')
    # ---- the same theorems in one uniform statement, indexed by (class, signature): what the
    #      structural induction over the dispatcher (Lemmas/LowerMain.lean) consumes
    th.append('/-- a table entry covered by a theorem: class, signature, dimension, logical?, the generic node applied to')
    th.append('    placeholder arguments, the formula of the entry, the number of rows and columns of the result -/')
    th.append('structure LeafEntry where')
    th.append('  cname : String')
    th.append('  sigs : String')
    th.append('  dim : Nat')
    th.append('  lg : Bool')
    th.append('  node : E')
    th.append('  F : E')
    th.append('  ri : Nat')
    th.append('  rj : Nat')
    th.append('')
    th.append('def leafIndex : List LeafEntry := [')
    th.append(',\n'.join('  ⟨"%s", "%s", %d, %s, %s, %s, %d, %d⟩' % (cname, sigs, dim, 'true' if logical else 'false', node, ident, ri, rj)
                         for ident, dim, logical, ri, rj, node, cname, sigs in tl))
    th.append(']')
    th.append('')
    th.append('/-- every indexed formula equals the classical definition of its node, in every differential ring -/')
    th.append('theorem leaf_index (S : DRing K) : ∀ r ∈ leafIndex, ∀ i j, i < r.ri → j < r.rj →')
    th.append('    den S r.F i j = denG S r.dim r.lg r.node i j := by')
    th.append('  simp only [leafIndex, List.forall_mem_cons]')
    th.append('  exact ⟨' + ',\n    '.join('leaf_%s S' % t[0] for t in tl) + ',\n    fun _ h => absurd h List.not_mem_nil⟩')
    th.append('')
    have = {(c, sg) for c, sg, _, _, _, o in es if o[0] == 'ok'}
    missing = [x for x in expected_entries() if x not in have]
    th.append('/-- entries of the supported fragment for which the current code returns no formula (raises, or the')
    th.append('    class does not exist): must be empty ("on the supported operator fragment lowering does not fail") -/')
    th.append('def missingEntries : List (String × String) := [%s]' % ', '.join('("%s", "%s")' % x for x in missing))
    th.append('')
    th.append('theorem fragment_total : missingEntries = [] := by decide')
    th.append('')
    th.append('end Sympde.Gen')
    return {'SympdeModel/Gen/Leaf.lean': '\n'.join(lines) + '\n',
            'SympdeModel/Gen/LeafThms.lean': '\n'.join(th) + '\n'}


if __name__ == '__main__':
    import sys
    sys.path.insert(0, '/verif')
    from harness.common import setup_repo_path
    setup_repo_path()
    for e in entries():
        print(e[0], e[1], e[5][0], dumps(e[5][1])[:150] if e[5][0] == 'ok' else e[5][1:] )
