"""Shared machinery of the /verif checks (see DESIGN.md section 4).

Pipeline for one property:
  1. regenerate Gen/*.lean from the current source tree (T1/T2 translators)
  2. lake build of the property's theorem module + axiom / forbidden-token audit
  3. correspondence (differential) run: Lean driver vs implementation
  4. oracle sweep on the real code (independent of the model)
  5. if 1-3 broke: failing-input search with a larger oracle budget
  6. evidence file, VIOLATION / KNOWN-FINDING lines, exit code
"""
import fcntl
import hashlib
import json
import os
import random
import re
import subprocess
import sys
import time
import traceback

ROOT = os.path.dirname(os.path.dirname(os.path.abspath(__file__)))
LEAN = os.path.join(ROOT, 'lean')
REPO = os.environ.get('SYMPDE_REPO', '/repo')
GUARD = 'SYMPDE_VERIF'
ALLOWED_AXIOMS = {'propext', 'Classical.choice', 'Quot.sound'}
FORBIDDEN = re.compile(r'\b(sorry|admit|native_decide|bv_decide|implemented_by)\b|^\s*axiom\s|\bunsafe\s|maxHeartbeats\s+0\b')

TRUSTED_BASE = [
    'Lean 4.33 kernel; axioms allowed: propext, Classical.choice, Quot.sound (audited per theorem with #print axioms on every run)',
    'no sorry/admit/native_decide/bv_decide/implemented_by/unsafe/user axioms (grep audit on every run)',
    'Mathlib modules imported by Sem/, Lemmas/, Props/ (never by Model/)',
    'the hand-written Lean model is tied to /repo by the differential correspondence run (Python harness, S-expression serialiser, sympy used to re-canonicalise model output before comparison)',
    'generated tables (Gen/*.lean) are produced by executing / parsing the current /repo source on every run',
    'sympy itself (Add/Mul/Pow canonicalisation, expand, subs) is modelled, not verified',
]


def setup_repo_path():
    """make `import sympde` resolve to REPO's working tree and switch the hook guard on"""
    os.environ[GUARD] = '1'
    if REPO not in sys.path:
        sys.path.insert(0, REPO)
    import sympde  # noqa
    got = os.path.realpath(os.path.dirname(os.path.dirname(sympde.__file__)))
    if got != os.path.realpath(REPO):
        raise RuntimeError('sympde imported from %s, expected %s' % (got, REPO))


def repo_head():
    try:
        h = subprocess.run(['git', '-C', REPO, 'rev-parse', 'HEAD'], capture_output=True, text=True).stdout.strip()
        d = subprocess.run(['git', '-C', REPO, 'status', '--porcelain'], capture_output=True, text=True).stdout.strip()
        return h + ('+dirty' if d else '')
    except Exception:
        return 'unknown'


class Lock:
    def __init__(self, name='build'):
        self.path = os.path.join(LEAN, '.%s.lock' % name)

    def __enter__(self):
        self.f = open(self.path, 'w')
        fcntl.flock(self.f, fcntl.LOCK_EX)
        return self

    def __exit__(self, *a):
        fcntl.flock(self.f, fcntl.LOCK_UN)
        self.f.close()


# --------------------------------------------------------------------------- Lean side

def write_if_changed(path, content):
    try:
        with open(path) as f:
            if f.read() == content:
                return False
    except FileNotFoundError:
        pass
    os.makedirs(os.path.dirname(path), exist_ok=True)
    tmp = path + '.tmp%d' % os.getpid()
    with open(tmp, 'w') as f:
        f.write(content)
    os.replace(tmp, path)
    return True


def lake_build(targets, timeout=3000):
    """returns (ok, log)"""
    with Lock():
        p = subprocess.run(['lake', 'build'] + list(targets), cwd=LEAN, capture_output=True, text=True, timeout=timeout)
    return p.returncode == 0, p.stdout + p.stderr


def module_file(mod):
    return os.path.join(LEAN, *mod.split('.')) + '.lean'


def local_imports(mod, seen=None):
    """transitive closure of SympdeModel.* imports of a module (including itself)"""
    if seen is None:
        seen = []
    if mod in seen:
        return seen
    seen.append(mod)
    try:
        src = open(module_file(mod)).read()
    except FileNotFoundError:
        return seen
    for m in re.findall(r'^import\s+(SympdeModel\.[\w.]+)', src, re.M):
        local_imports(m, seen)
    return seen


def strip_comments(src):
    # block comments (nested) and line comments
    out, i, depth, n = [], 0, 0, len(src)
    while i < n:
        if src.startswith('/-', i):
            depth += 1
            i += 2
        elif depth and src.startswith('-/', i):
            depth -= 1
            i += 2
        elif depth:
            if src[i] == '\n':
                out.append('\n')
            i += 1
        elif src.startswith('--', i):
            while i < n and src[i] != '\n':
                i += 1
        elif src[i] == '"':
            j = i + 1
            while j < n and src[j] != '"':
                j += 2 if src[j] == '\\' else 1
            out.append('""')
            i = j + 1
        else:
            out.append(src[i])
            i += 1
    return ''.join(out)


def theorems_of(mod):
    """fully qualified names of the theorems declared in a module, in order"""
    src = strip_comments(open(module_file(mod)).read())
    ns, names = [], []
    for line in src.split('\n'):
        m = re.match(r'^\s*namespace\s+([\w.]+)', line)
        if m:
            ns.append(m.group(1))
            continue
        m = re.match(r'^\s*end\s+([\w.]+)\s*$', line)
        if m and ns and ns[-1] == m.group(1):
            ns.pop()
            continue
        m = re.match(r'^\s*(?:@\[[^\]]*\]\s*)?(?:private\s+|protected\s+)?theorem\s+([\w.\']+)', line)
        if m:
            names.append('.'.join(ns + [m.group(1)]))
    return names


def forbidden_tokens(mods):
    hits = []
    for m in mods:
        try:
            src = strip_comments(open(module_file(m)).read())
        except FileNotFoundError:
            continue
        for k, line in enumerate(src.split('\n'), 1):
            if FORBIDDEN.search(line):
                hits.append('%s:%d: %s' % (m, k, line.strip()[:120]))
    return hits


def axiom_audit(prop_mod, names):
    """#print axioms for every theorem; returns (ok, {name: [axioms]}, log)"""
    d = os.path.join(LEAN, '.audit')
    os.makedirs(d, exist_ok=True)
    mods = list(prop_mod) if isinstance(prop_mod, (list, tuple)) else [prop_mod]
    f = os.path.join(d, mods[-1].replace('.', '_') + '_%d.lean' % os.getpid())
    with open(f, 'w') as fh:
        for m_ in mods:
            fh.write('import %s\n' % m_)
        for n in names:
            fh.write('#print axioms %s\n' % n)
    try:
        p = subprocess.run(['lake', 'env', 'lean', f], cwd=LEAN, capture_output=True, text=True, timeout=1800)
    finally:
        try:
            os.remove(f)
        except OSError:
            pass
    out = p.stdout + p.stderr
    res = {}
    # "'name' depends on axioms: [a, b]"  or  "'name' does not depend on any axioms"
    for m in re.finditer(r"'([^']+)' depends on axioms: \[([^\]]*)\]", out, re.S):
        res[m.group(1)] = [a.strip() for a in m.group(2).replace('\n', ' ').split(',') if a.strip()]
    for m in re.finditer(r"'([^']+)' does not depend on any axioms", out):
        res[m.group(1)] = []
    ok = p.returncode == 0
    bad = {}
    for n in names:
        if n not in res:
            ok = False
            bad[n] = ['<not reported>']
        elif not set(res[n]) <= ALLOWED_AXIOMS:
            ok = False
            bad[n] = res[n]
    return ok, res, bad, out


def failing_theorems(log):
    """map `file:line: error` of a build log to the enclosing theorem names"""
    out = []
    for m in re.finditer(r'(SympdeModel/[\w/]+\.lean):(\d+):\d+: error', log):
        path, line = os.path.join(LEAN, m.group(1)), int(m.group(2))
        name = None
        try:
            lines = open(path).read().split('\n')
            for k in range(min(line, len(lines)) - 1, -1, -1):
                mm = re.match(r'^\s*(?:private\s+)?(theorem|example|def|lemma)\s*([\w.\']*)', lines[k])
                if mm:
                    name = (mm.group(2) or mm.group(1))
                    break
        except OSError:
            pass
        out.append('%s:%d:%s' % (m.group(1), line, name))
    return sorted(set(out))


class Driver:
    """batch access to the native Lean driver (built by lake as .lake/build/bin/driver)"""
    exe = os.path.join(LEAN, '.lake', 'build', 'bin', 'driver')

    def run(self, lines, timeout=1800):
        if not lines:
            return []
        data = '\n'.join(lines) + '\n'
        p = subprocess.run([self.exe], input=data, capture_output=True, text=True, timeout=timeout)
        if p.returncode != 0:
            raise RuntimeError('driver failed: ' + p.stderr[-2000:])
        out = p.stdout.split('\n')
        if out and out[-1] == '':
            out.pop()
        if len(out) != len(lines):
            raise RuntimeError('driver answered %d lines for %d requests' % (len(out), len(lines)))
        return out


# --------------------------------------------------------------------------- results

class Timeout(Exception):
    pass


class time_limit:
    """with time_limit(5): ...   raises Timeout (main thread, SIGALRM)"""

    def __init__(self, seconds):
        self.seconds = seconds

    def _handler(self, signum, frame):
        raise Timeout()

    def __enter__(self):
        import signal
        self.old = signal.signal(signal.SIGALRM, self._handler)
        signal.setitimer(signal.ITIMER_REAL, self.seconds)

    def __exit__(self, *a):
        import signal
        signal.setitimer(signal.ITIMER_REAL, 0)
        signal.signal(signal.SIGALRM, self.old)
        return False


def limit_memory(gb=8):
    """a runaway sympy computation must not take the machine down"""
    try:
        import resource
        resource.setrlimit(resource.RLIMIT_AS, (gb << 30, gb << 30))
    except Exception:
        pass


class Corr:
    """result of a correspondence run"""

    def __init__(self):
        self.evaluations = 0
        self.nontrivial = set()
        self.samples = []
        self.hist = {}
        self.disagreements = []   # dicts: input, impl, model, note

    def count(self, key, n=1):
        self.hist[key] = self.hist.get(key, 0) + n


class Oracle:
    """result of an oracle sweep on the real code"""

    def __init__(self):
        self.evaluations = 0
        self.failures = []        # dicts: key, what, detail
        self.hist = {}
        self.samples = []

    def count(self, key, n=1):
        self.hist[key] = self.hist.get(key, 0) + n

    def fail(self, key, what, **detail):
        for f in self.failures:
            if f['key'] == key:
                return
        self.failures.append({'key': key, 'what': what, 'detail': detail})


def load_known(pid):
    path = os.path.join(ROOT, 'known_findings.json')
    try:
        data = json.load(open(path))
    except FileNotFoundError:
        return []
    return [e for e in data.get('findings', []) if e.get('property') == pid]


def write_replay(pid, payload):
    d = os.path.join(ROOT, 'replays', pid)
    os.makedirs(d, exist_ok=True)
    blob = json.dumps(payload, sort_keys=True, default=str, indent=1)
    name = hashlib.sha1(blob.encode()).hexdigest()[:16] + '.json'
    with open(os.path.join(d, name), 'w') as f:
        f.write(blob)
    return os.path.join('replays', pid, name)


def generic_replay(spec, ctx, path):
    """re-runs the recorded run (same tier and seed, hence the same generated cases) against the
    current tree and reports whether the recorded failure is still there: exit 1 with a VIOLATION
    line if the oracle fails again with the recorded key (or, for a replay without a failing
    input, if the correspondence still disagrees), exit 0 otherwise"""
    d = json.load(open(path))
    print(json.dumps({k: d[k] for k in d if k not in ('broken', 'disagreements')}, indent=1)[:3000])
    tier, seed, pid = d.get('tier', 'quick'), int(d.get('seed', 0)), spec.PID
    ctx.tier, ctx.seed, ctx.thorough = tier, seed, tier == 'thorough'
    ctx.rng = random.Random('%s/%s/%d' % (pid, tier, seed))
    corr = Corr()
    if os.path.exists(Driver.exe):
        corr = spec.correspondence(ctx)
    if d.get('no_failing_input_found') or d.get('kind') != 'oracle':
        n = len(corr.disagreements)
        print('correspondence on the current tree: %d disagreement(s) in %d cases' % (n, corr.evaluations))
        if n:
            print(json.dumps(jsonable(corr.disagreements[:3]), indent=1)[:3000])
            print('VIOLATION property=%s replay=%s no-failing-input-found' % (pid, path))
            return 1
        print('not reproduced: the model and the implementation agree again (proof obligations are re-checked by ./check %s)' % pid)
        return 0
    key = d.get('key')
    orc = spec.oracle(ctx, 1, [])
    hit = [f for f in orc.failures if f['key'] == key]
    if not hit:
        orc = spec.oracle(ctx, 10, [x.get('input') for x in corr.disagreements])
        hit = [f for f in orc.failures if f['key'] == key]
    if hit:
        print('reproduced: %s' % hit[0]['what'][:1500])
        print('VIOLATION property=%s replay=%s' % (pid, path))
        return 1
    print('not reproduced on the current tree: the recorded input no longer fails (%d oracle cases re-run)' % orc.evaluations)
    return 0


def jsonable(x, depth=0):
    if isinstance(x, (str, int, float, bool)) or x is None:
        return x
    if isinstance(x, dict):
        return {str(k): jsonable(v, depth + 1) for k, v in x.items()}
    if isinstance(x, (list, tuple, set, frozenset)):
        return [jsonable(v, depth + 1) for v in x]
    return str(x)


def run_property(spec, argv=None):
    """spec: a module-like object with PID, PROPS_MODULE, optional GEN (list of callables
    returning {relative lean path: content}), correspondence(ctx) -> Corr, oracle(ctx, factor, seeds) -> Oracle,
    optional replay(ctx, path), TECHNIQUE_NOTE"""
    import argparse
    ap = argparse.ArgumentParser()
    ap.add_argument('pid')
    ap.add_argument('--tier', default=os.environ.get('VERIF_TIER', 'quick'), choices=['quick', 'thorough'])
    ap.add_argument('--replay', default=None)
    ap.add_argument('--skip-build', action='store_true', help='development only')
    args = ap.parse_args(argv)
    pid = spec.PID
    seed = int(os.environ.get('VERIF_SEED', '0') or 0)
    t0 = time.time()

    class Ctx:
        pass
    ctx = Ctx()
    ctx.pid, ctx.tier, ctx.seed = pid, args.tier, seed
    ctx.rng = random.Random('%s/%s/%d' % (pid, args.tier, seed))
    ctx.driver = Driver()
    ctx.root = ROOT
    ctx.repo = REPO
    ctx.thorough = args.tier == 'thorough'

    try:
        setup_repo_path()
    except Exception:
        print('INFRA-ERROR: cannot import sympde from %s\n%s' % (REPO, traceback.format_exc()))
        return 2

    if args.replay:
        return spec.replay(ctx, args.replay)

    broken = []          # (kind, name, detail)
    log_parts = []

    # 1. translators
    gen_files = {}
    for g in getattr(spec, 'GEN', []):
        try:
            gen_files.update(g(ctx))
        except Exception:
            broken.append(('translator', getattr(g, '__name__', 'gen'), traceback.format_exc()[-3000:]))
    changed = []
    with Lock('gen'):
        for rel, content in gen_files.items():
            if write_if_changed(os.path.join(LEAN, rel), content):
                changed.append(rel)

    # 2. build + audit
    prop_mods = spec.PROPS_MODULE if isinstance(spec.PROPS_MODULE, (list, tuple)) else [spec.PROPS_MODULE]
    names = []
    obligations = discharged = 0
    build_ok = True
    audit_info = {}
    if not args.skip_build:
        try:
            ok, log = lake_build(list(prop_mods) + ['driver'])
        except subprocess.TimeoutExpired:
            print('INFRA-ERROR: lake build timed out')
            return 2
        log_parts.append(log[-6000:])
        for m in prop_mods:
            names += theorems_of(m)
        for m in getattr(spec, 'EXTRA_THEOREM_MODULES', []):
            names += theorems_of(m)
        obligations = len(names)
        if not ok:
            build_ok = False
            ft = failing_theorems(log)
            broken.append(('proof', ', '.join(ft) or 'lake build failed', log[-3000:]))
            if not os.path.exists(Driver.exe):
                print('INFRA-ERROR: driver executable missing and lake build failed\n' + log[-3000:])
        mods = []
        for m in prop_mods:
            local_imports(m, mods)
        hits = forbidden_tokens(mods)
        if hits:
            broken.append(('audit', 'forbidden tokens', '\n'.join(hits)))
        if ok:
            try:
                aok, res, bad, aout = axiom_audit(list(prop_mods) + list(getattr(spec, 'EXTRA_THEOREM_MODULES', [])), names)
            except subprocess.TimeoutExpired:
                print('INFRA-ERROR: axiom audit timed out')
                return 2
            audit_info = {'axioms_used': sorted({a for v in res.values() for a in v})}
            discharged = sum(1 for n in names if n in res and set(res[n]) <= ALLOWED_AXIOMS)
            if not aok:
                broken.append(('audit', 'axioms: %s' % json.dumps(bad), aout[-2000:]))
            if hits:
                discharged = 0
        if ctx.thorough and ok and getattr(spec, 'LEANCHECKER', True):
            try:
                p = subprocess.run(['lake', 'env', 'leanchecker'] + list(prop_mods), cwd=LEAN, capture_output=True, text=True, timeout=3000)
                audit_info['leanchecker'] = 'ok' if p.returncode == 0 else ('failed: ' + (p.stdout + p.stderr)[-500:])
                if p.returncode != 0:
                    broken.append(('audit', 'leanchecker', (p.stdout + p.stderr)[-2000:]))
            except Exception as e:  # tool problems are not violations
                audit_info['leanchecker'] = 'not run: %r' % (e,)

    # 3. correspondence
    corr = Corr()
    if os.path.exists(Driver.exe):
        try:
            corr = spec.correspondence(ctx)
        except Exception:
            tb = traceback.format_exc()
            print('INFRA-ERROR: correspondence harness crashed\n' + tb)
            return 2
        if corr.disagreements:
            broken.append(('correspondence', '%d disagreement(s)' % len(corr.disagreements),
                           json.dumps(jsonable(corr.disagreements[:5]))[:4000]))

    # 4. oracle sweep
    try:
        orc = spec.oracle(ctx, 1, [])
    except Exception:
        print('INFRA-ERROR: oracle crashed\n' + traceback.format_exc())
        return 2

    known = load_known(pid)
    open_keys = {e['key']: e for e in known if e.get('status') == 'open'}
    violations = []
    known_hits = {}
    for f in orc.failures:
        if f['key'] in open_keys:
            known_hits[f['key']] = open_keys[f['key']]
        else:
            violations.append(f)

    # 5. failing-input search when the proof or the tie is broken
    nofail = False
    if broken and not violations:
        seeds = [d.get('input') for d in corr.disagreements]
        try:
            orc2 = spec.oracle(ctx, 10, seeds)
            for f in orc2.failures:
                if f['key'] in open_keys:
                    known_hits[f['key']] = open_keys[f['key']]
                else:
                    violations.append(f)
            orc.evaluations += orc2.evaluations
        except Exception:
            log_parts.append('failing-input search crashed:\n' + traceback.format_exc())
        if not violations:
            nofail = True

    # 6. report
    wall = time.time() - t0
    for k, e in known_hits.items():
        print('KNOWN-FINDING: property=%s %s' % (pid, e.get('what', k)))
    rc = 0
    out_lines = []
    if violations:
        rc = 1
        for f in violations[:5]:
            rp = write_replay(pid, {
                'property': pid, 'tier': args.tier, 'seed': seed, 'kind': 'oracle',
                'key': f['key'], 'what': f['what'], 'detail': jsonable(f['detail']),
                'broken': [(k, n) for k, n, _ in broken], 'no_failing_input_found': False,
                'repo_head': repo_head(),
                'how_to_replay': './check %s --replay <this file>' % pid})
            out_lines.append('VIOLATION property=%s replay=%s' % (pid, rp))
    elif nofail:
        rc = 1
        rp = write_replay(pid, {
            'property': pid, 'tier': args.tier, 'seed': seed,
            'kind': broken[0][0], 'broken': [{'kind': k, 'name': n, 'detail': d} for k, n, d in broken],
            'no_failing_input_found': True, 'repo_head': repo_head(),
            'disagreements': jsonable(corr.disagreements[:10]),
            'note': 'the theorem / correspondence named under "broken" no longer checks; the oracle '
                    'search found no concrete failing input on the implementation'})
        out_lines.append('VIOLATION property=%s replay=%s no-failing-input-found' % (pid, rp))

    nontrivial = len(corr.nontrivial)
    cov = {
        'obligations': obligations,
        'discharged': discharged,
        'checker_cmd': 'cd lean && lake build %s && lake env lean <#print axioms of every theorem>' % ' '.join(prop_mods),
        'trusted_base': TRUSTED_BASE + list(getattr(spec, 'TRUSTED_EXTRA', [])),
        'theorems': names,
        'evaluations': corr.evaluations + orc.evaluations,
        'correspondence_cases': corr.evaluations,
        'oracle_cases': orc.evaluations,
        'distinct_nontrivial': nontrivial,
        'rule': getattr(spec, 'RULE', ''),
        'samples': jsonable((corr.samples[:6] + orc.samples[:4]) or ['<none>']),
        'histogram': dict(sorted(corr.hist.items())),
        'oracle_histogram': dict(sorted(orc.hist.items())),
        'generated_files': sorted(gen_files.keys()),
        'generated_changed': changed,
        'broken': [{'kind': k, 'name': n} for k, n, _ in broken],
        'known_findings_hit': sorted(known_hits.keys()),
        'repo_head': repo_head(),
    }
    cov.update(audit_info)
    ev = {
        'property_id': pid, 'tier': args.tier, 'seed': seed, 'level': 'proof',
        'coverage': cov,
        'assumptions': list(getattr(spec, 'ASSUMPTIONS', [])),
        'wall_s': round(wall, 2),
        'violations': len(violations) + (1 if nofail else 0),
    }
    os.makedirs(os.path.join(ROOT, 'evidence'), exist_ok=True)
    # development runs (--skip-build: no proof obligations checked) and runs against another tree
    # (SYMPDE_REPO) never overwrite the committed evidence of /repo
    evname = pid + '.json'
    if args.skip_build or os.environ.get('SYMPDE_REPO'):
        os.makedirs(os.path.join(ROOT, 'evidence', '.dev'), exist_ok=True)
        evname = os.path.join('.dev', pid + '.json')
    with open(os.path.join(ROOT, 'evidence', evname), 'w') as f:
        json.dump(ev, f, indent=1, sort_keys=True)
    for k, n, d in broken:
        print('BROKEN %s: %s' % (k, n))
        if os.environ.get('VERIF_VERBOSE'):
            print(d)
    for l in out_lines:
        print(l)
    min_nt = getattr(spec, 'MIN_NONTRIVIAL', 2)
    if rc == 0 and nontrivial < min_nt:
        print('INFRA-ERROR: only %d non-trivial correspondence cases (need %d)' % (nontrivial, min_nt))
        return 2
    print('%s %s tier=%s seed=%d obligations=%d discharged=%d corr=%d nontrivial=%d oracle=%d wall=%.1fs' % (
        pid, 'OK' if rc == 0 else 'FAILED', args.tier, seed, obligations, discharged,
        corr.evaluations, nontrivial, orc.evaluations, wall))
    return rc
